(* C09 — lemmas about the POSIX path model. *)
From Coq Require Import ZArith List Bool Lia ZifyBool.
From S2T Require Import Lib.PyStr C09.Path.

Lemma is_slash_true c : is_slash c = true -> c = SLASH.
Proof. unfold is_slash. apply N.eqb_eq. Qed.

Lemma split_slash_nonnil p : split_slash p <> [].
Proof.
  destruct p as [|c r]; simpl; [discriminate|].
  destruct (is_slash c); [discriminate|]. destruct (split_slash r); discriminate.
Qed.

Lemma split_slash_app a r : split_slash (a ++ SLASH :: r) = split_slash a ++ split_slash r.
Proof.
  induction a as [|c a IH]; simpl.
  - reflexivity.
  - destruct (is_slash c).
    + rewrite IH. reflexivity.
    + rewrite IH. destruct (split_slash a) as [|h t] eqn:E.
      * exfalso. exact (split_slash_nonnil a E).
      * reflexivity.
Qed.

Definition slashfree (c : str) : bool := forallb not_slash c.

Lemma split_slash_slashfree p : forallb slashfree (split_slash p) = true.
Proof.
  induction p as [|c r IH]; simpl; [reflexivity|].
  destruct (is_slash c) eqn:E; simpl; [exact IH|].
  destruct (split_slash r) as [|h t]; simpl in *.
  - unfold not_slash. fold (is_slash c). rewrite E. reflexivity.
  - unfold not_slash at 1. fold (is_slash c). rewrite E. simpl. exact IH.
Qed.

Lemma split_slash_of_slashfree c : slashfree c = true -> split_slash c = [c].
Proof.
  induction c as [|x c IH]; simpl; [reflexivity|].
  intro H. apply andb_true_iff in H as [H1 H2].
  unfold not_slash in H1. fold (is_slash x) in H1. apply negb_true_iff in H1. rewrite H1.
  rewrite (IH H2). reflexivity.
Qed.

Lemma split_join l : l <> [] -> forallb slashfree l = true -> split_slash (join_slash l) = l.
Proof.
  induction l as [|c l IH]; [congruence|].
  intros _ H. simpl in H. apply andb_true_iff in H as [Hc Hl].
  destruct l as [|d l'].
  - simpl. apply split_slash_of_slashfree. exact Hc.
  - change (join_slash (c :: d :: l')) with (c ++ SLASH :: join_slash (d :: l')).
    rewrite split_slash_app. rewrite (split_slash_of_slashfree c Hc).
    rewrite IH; [reflexivity | discriminate | exact Hl].
Qed.

Lemma split_repeat_slash k x : split_slash (repeat SLASH k ++ x) = repeat [] k ++ split_slash x.
Proof. induction k as [|k IH]; simpl; [reflexivity|]. rewrite IH. reflexivity. Qed.

(* ---- normpath of an absolute path has only plain components *)
Definition good_comp (c : str) : bool := nonempty c && negb (is_dot c) && negb (is_dotdot c) && slashfree c.

Lemma norm_step_good acc comp :
  forallb good_comp acc = true -> slashfree comp = true ->
  forallb good_comp (norm_step true acc comp) = true.
Proof.
  intros Ha Hc. unfold norm_step.
  destruct (negb (nonempty comp) || is_dot comp) eqn:E1; [exact Ha|].
  apply orb_false_iff in E1 as [E1 E2]. apply negb_false_iff in E1.
  destruct (is_dotdot comp) eqn:E3; simpl.
  - destruct acc as [|top rest]; [reflexivity|].
    simpl in Ha. apply andb_true_iff in Ha as [Ht Hr].
    assert (is_dotdot top = false) as ->.
    { unfold good_comp in Ht. rewrite !andb_true_iff in Ht. destruct Ht as [[[_ _] H] _].
      apply negb_true_iff in H. exact H. }
    exact Hr.
  - unfold good_comp at 1. rewrite E1, E2, E3, Hc. simpl. exact Ha.
Qed.

Lemma fold_norm_good l acc :
  forallb good_comp acc = true -> forallb slashfree l = true ->
  forallb good_comp (fold_left (norm_step true) l acc) = true.
Proof.
  revert acc; induction l as [|c l IH]; intros acc Ha Hl; simpl; [exact Ha|].
  simpl in Hl. apply andb_true_iff in Hl as [Hc Hl].
  apply IH; [apply norm_step_good; assumption | exact Hl].
Qed.

Lemma forallb_rev {A} (f : A -> bool) l : forallb f (rev l) = forallb f l.
Proof.
  induction l as [|x l IH]; simpl; [reflexivity|].
  rewrite forallb_app, IH. simpl. rewrite andb_true_r. apply andb_comm.
Qed.

Lemma initial_slashes_abs p : isabs p = true -> (1 <= initial_slashes p)%nat.
Proof.
  unfold isabs. destruct p as [|a r]; [discriminate|]. cbn [startswith].
  rewrite andb_true_r. intro H. rewrite N.eqb_sym in H. fold (is_slash a) in H.
  destruct r as [|b [|c r']]; cbn [initial_slashes]; rewrite H; repeat (match goal with |- context [if ?x then _ else _] => destruct x end); lia.
Qed.

Lemma good_plain l : forallb good_comp l = true -> forallb plain_comp l = true.
Proof.
  induction l as [|c l IH]; simpl; [reflexivity|].
  intro H. apply andb_true_iff in H as [H1 H2]. rewrite (IH H2), andb_true_r.
  unfold good_comp in H1. rewrite !andb_true_iff in H1. destruct H1 as [[[_ A] B] _].
  unfold plain_comp. rewrite A, B. reflexivity.
Qed.

Lemma good_slashfree l : forallb good_comp l = true -> forallb slashfree l = true.
Proof.
  induction l as [|c l IH]; simpl; [reflexivity|].
  intro H. apply andb_true_iff in H as [H1 H2]. rewrite (IH H2), andb_true_r.
  unfold good_comp in H1. rewrite !andb_true_iff in H1. tauto.
Qed.

Lemma plain_repeat_nil k : forallb plain_comp (repeat [] k) = true.
Proof. induction k; simpl; auto. Qed.

Lemma normpath_abs_shape p :
  isabs p = true ->
  exists k comps, (1 <= k)%nat /\ forallb good_comp comps = true /\
                  normpath p = repeat SLASH k ++ join_slash comps.
Proof.
  intro Habs. pose proof (initial_slashes_abs p Habs) as Hk.
  exists (initial_slashes p), (norm_comps p).
  assert (G : forallb good_comp (norm_comps p) = true).
  { unfold norm_comps. rewrite forallb_rev.
    destruct (initial_slashes p) as [|k'] eqn:E; [lia|]. simpl.
    apply fold_norm_good; [reflexivity | apply split_slash_slashfree]. }
  split; [exact Hk|]. split; [exact G|].
  unfold normpath. destruct p as [|a r]; [discriminate|].
  destruct (initial_slashes (a :: r)) as [|k'] eqn:E; [lia|]. reflexivity.
Qed.

Lemma normpath_abs_no_dots p : isabs p = true -> no_dots (normpath p) = true.
Proof.
  intro Habs. destruct (normpath_abs_shape p Habs) as [k [comps [Hk [G E]]]].
  unfold no_dots. rewrite E, split_repeat_slash, forallb_app, plain_repeat_nil. simpl.
  destruct comps as [|c l]; [reflexivity|].
  rewrite split_join; [apply good_plain; exact G | discriminate | apply good_slashfree; exact G].
Qed.

Lemma normpath_abs_isabs p : isabs p = true -> isabs (normpath p) = true.
Proof.
  intro Habs. destruct (normpath_abs_shape p Habs) as [k [comps [Hk [G E]]]].
  rewrite E. destruct k as [|k]; [lia|]. reflexivity.
Qed.

Lemma isabs_join2 a b : isabs a = true -> isabs (join2 a b) = true.
Proof.
  intro H. unfold join2. destruct (startswith b [SLASH]) eqn:E; [exact E|].
  destruct a as [|x a]; [discriminate|].
  destruct (negb (nonempty (x :: a)) || ends_slash (x :: a)); exact H.
Qed.

Lemma abspath_isabs cwd p : isabs cwd = true -> isabs (if isabs p then p else join2 cwd p) = true.
Proof. intro H. destruct (isabs p) eqn:E; [exact E | apply isabs_join2; exact H]. Qed.

Lemma abspath_no_dots cwd p : isabs cwd = true -> no_dots (abspath cwd p) = true.
Proof. intro H. apply normpath_abs_no_dots. apply abspath_isabs. exact H. Qed.

Lemma abspath_abs cwd p : isabs cwd = true -> isabs (abspath cwd p) = true.
Proof. intro H. apply normpath_abs_isabs. apply abspath_isabs. exact H. Qed.

(* ---- _safe_join *)
Lemma confined_b_spec base p :
  confined_b base p = true <-> p = base \/ exists r, p = base ++ SLASH :: r.
Proof.
  unfold confined_b. rewrite orb_true_iff, str_eqb_eq, startswith_app.
  split; intros [H|[r H]]; auto; right; exists r; rewrite H, <- app_assoc; reflexivity.
Qed.

Lemma safe_join_some cwd base rel p :
  safe_join cwd base rel = Some p ->
  (rel = [] /\ p = base) \/
  (rel <> [] /\ isabs rel = false /\ startswith rel [BSLASH] = false /\
   p = abspath cwd (join2 (abspath cwd base) rel) /\ confined_b (abspath cwd base) p = true).
Proof.
  unfold safe_join. destruct rel as [|c rel']; [intro H; inversion H; auto|].
  set (rel := c :: rel').
  destruct (isabs rel || startswith rel [BSLASH] || startswith rel [SLASH]) eqn:E; [discriminate|].
  apply orb_false_iff in E as [E E3]. apply orb_false_iff in E as [E1 E2].
  intro H. right. split; [discriminate|]. split; [exact E1|]. split; [exact E2|].
  set (B := abspath cwd base) in *. set (Tg := abspath cwd (join2 B rel)) in *.
  destruct (str_eqb Tg B) eqn:Q.
  - inversion H; subst p. split; [reflexivity|]. unfold confined_b. rewrite Q. reflexivity.
  - destruct (startswith Tg (B ++ [SLASH])) eqn:S; [|discriminate]. inversion H; subst p.
    split; [reflexivity|]. unfold confined_b. rewrite S. apply orb_true_r.
Qed.

(* components of a confined, dot-free path: the part below base has no '.'/'..' component *)
Lemma confined_rest_plain base r :
  no_dots (base ++ SLASH :: r) = true -> forallb plain_comp (split_slash r) = true.
Proof.
  unfold no_dots. rewrite split_slash_app, forallb_app. intro H. apply andb_true_iff in H. tauto.
Qed.

(* ---- dirname of a confined path stays confined (base not ending in '/') *)
Lemma dropWhile_app_stop {A} (f : A -> bool) l x r :
  forallb f l = true -> f x = false -> dropWhile f (l ++ x :: r) = x :: r.
Proof.
  induction l as [|y l IH]; simpl; intros H Hx; [rewrite Hx; reflexivity|].
  apply andb_true_iff in H as [H1 H2]. rewrite H1. apply IH; assumption.
Qed.

Lemma dirname_prefix p : exists r, p = dirname p ++ r.
Proof.
  unfold dirname.
  pose proof (takeWhile_dropWhile not_slash (rev p)) as H1.
  set (hr := dropWhile not_slash (rev p)) in *.
  destruct (forallb is_slash hr).
  - exists (rev (takeWhile not_slash (rev p))).
    rewrite <- rev_app_distr, H1, rev_involutive. reflexivity.
  - pose proof (takeWhile_dropWhile is_slash hr) as H2.
    exists (rev (takeWhile is_slash hr) ++ rev (takeWhile not_slash (rev p))).
    rewrite app_assoc, <- !rev_app_distr, H2, H1, rev_involutive. reflexivity.
Qed.

Lemma ends_slash_snoc a c : ends_slash (a ++ [c]) = is_slash c.
Proof.
  induction a as [|x a IH]; [reflexivity|].
  change ((x :: a) ++ [c]) with (x :: (a ++ [c])).
  destruct (a ++ [c]) as [|y l] eqn:E; [destruct a; discriminate|].
  cbn [ends_slash]. exact IH.
Qed.

Lemma dw_not_slash rr X : exists l, dropWhile not_slash (rr ++ SLASH :: X) = l ++ SLASH :: X.
Proof.
  induction rr as [|y rr IH]; simpl.
  - exists []. reflexivity.
  - destruct (not_slash y); [exact IH|]. exists (y :: rr). reflexivity.
Qed.

Lemma dw_is_slash l X : dropWhile is_slash X = X ->
  dropWhile is_slash (l ++ SLASH :: X) = X \/ exists l', dropWhile is_slash (l ++ SLASH :: X) = l' ++ SLASH :: X.
Proof.
  intro HX. induction l as [|y l IH]; simpl.
  - left. exact HX.
  - destruct (is_slash y); [exact IH|]. right. exists (y :: l). reflexivity.
Qed.

Lemma dirname_confined base r :
  nonempty base = true -> ends_slash base = false ->
  confined_b base (dirname (base ++ SLASH :: r)) = true.
Proof.
  intros Hne Hes.
  destruct (rev base) as [|z rb] eqn:Erb.
  { apply (f_equal (@rev N)) in Erb. rewrite rev_involutive in Erb. subst base. discriminate. }
  assert (Hz : is_slash z = false).
  { apply (f_equal (@rev N)) in Erb. rewrite rev_involutive in Erb. simpl in Erb.
    rewrite Erb, ends_slash_snoc in Hes. exact Hes. }
  assert (HX : dropWhile is_slash (rev base) = rev base).
  { rewrite Erb. simpl. rewrite Hz. reflexivity. }
  unfold dirname. rewrite rev_app_distr. simpl rev. rewrite <- app_assoc. simpl app.
  destruct (dw_not_slash (rev r) (rev base)) as [l El]. rewrite El.
  assert (NA : forallb is_slash (l ++ SLASH :: rev base) = false).
  { rewrite forallb_app. cbn [forallb]. rewrite Erb. cbn [forallb]. rewrite Hz. cbn [andb]. rewrite !andb_false_r. reflexivity. }
  rewrite NA. apply confined_b_spec.
  destruct (dw_is_slash l (rev base) HX) as [E|[l' E]]; rewrite E.
  - left. apply rev_involutive.
  - right. exists (rev l'). rewrite rev_app_distr. simpl. rewrite rev_involutive, <- app_assoc. reflexivity.
Qed.
