(* C09 — property theorems.  Only statements closed by `exact`/`apply` of lemmas (or a vm_compute
   witness for refutations), each followed by Print Assumptions.
   The model follows the REPAIRED code (fixes/C09-*.patch); statements about the code before the
   repair carry the suffix _orig and are refutations. *)
From Coq Require Import ZArith List Bool Lia.
From S2T Require Import Lib.PyStr C09.Path C09.PathProofs C09.Model C09.Proofs.
Open Scope Z_scope.

(* ---- _safe_join: for ALL member names, a returned path is the base itself or lies below it, is
   absolute and has no '.' or '..' component (so the string prefix is a real containment) *)
Theorem C09_safe_join_confined :
  forall cwd base rel p : str,
    isabs cwd = true -> safe_join cwd base rel = Some p ->
    (rel = [] /\ p = base) \/
    (confined_b (abspath cwd base) p = true /\ no_dots p = true /\ isabs p = true).
Proof. exact safe_join_confined. Qed.
Print Assumptions C09_safe_join_confined.

Theorem C09_safe_join_below_plain :
  forall cwd base rel r : str,
    isabs cwd = true -> safe_join cwd base rel = Some (abspath cwd base ++ SLASH :: r) ->
    rel <> [] -> forallb plain_comp (split_slash r) = true.
Proof. exact safe_join_below_plain. Qed.
Print Assumptions C09_safe_join_below_plain.

(* absolute names, names starting with a backslash are refused outright *)
Theorem C09_safe_join_rejects_absolute :
  forall cwd base rel : str,
    rel <> [] -> (isabs rel || startswith rel [BSLASH]) = true -> safe_join cwd base rel = None.
Proof.
  intros cwd base rel Hne H. unfold safe_join. destruct rel; [congruence|].
  apply orb_true_iff in H as [H|H]; rewrite H; [reflexivity | rewrite orb_true_r; reflexivity].
Qed.
Print Assumptions C09_safe_join_rejects_absolute.

(* ---- every file-system event of a 7z run (extractall + read-back), for every header, decoder
   behaviour, OS failure pattern, skip function and host: its path is the private directory or
   below it — except os.makedirs(dirname(temp_dir)), a no-op on the existing temp root, which an
   empty member name triggers *)
Theorem C09_7z_events_confined :
  forall cwd base dec okd okw skip max_mem host dsize h e,
    normal_base cwd base = true ->
    In e (run_7z cwd base dec okd okw skip max_mem host dsize h) ->
    confined_b base (ev_path e) = true \/ e = Mkdirs (dirname base).
Proof. exact run_7z_events_ok. Qed.
Print Assumptions C09_7z_events_confined.

Example C09_normal_base_satisfiable : normal_base (s "/") (s "/var/tmp/r/tmpab12") = true.
Proof. vm_compute. reflexivity. Qed.
Print Assumptions C09_normal_base_satisfiable.

(* ---- every path opened for reading was written by this extraction (repaired code) *)
Theorem C09_reads_subset_writes :
  forall cwd base dec okd okw skip max_mem host dsize h p,
    normal_base cwd base = true -> fresh base host = true ->
    In p (reads (run_7z cwd base dec okd okw skip max_mem host dsize h)) ->
    In p (writes (run_7z cwd base dec okd okw skip max_mem host dsize h)) /\ confined_b base p = true.
Proof. exact run_7z_reads_written. Qed.
Print Assumptions C09_reads_subset_writes.

Example C09_fresh_satisfiable : fresh (s "/var/tmp/r/tmpab12") [s "/etc/passwd"; s "/var/tmp/r/tmpab12x/f"] = true.
Proof. vm_compute. reflexivity. Qed.
Print Assumptions C09_fresh_satisfiable.

(* the code before the repair (os.path.join + os.path.exists): a listed file that is mapped to no
   folder stream is never written, and its absolute name is opened on the HOST *)
Definition h_bad : hdr :=
  {| h_entries := [ {| e_name := s "/etc/hostname.txt"; e_empty := false; e_attr := 0%N |} ];
     h_sizes := []; h_streams := [] |}.

Theorem C09_reads_subset_writes_refuted_orig :
  exists cwd base dec okd okw skip max_mem host h p,
    normal_base cwd base = true /\ fresh base host = true /\
    In p (reads (run_7z_orig cwd base dec okd okw skip max_mem host h)) /\
    ~ In p (writes (run_7z_orig cwd base dec okd okw skip max_mem host h)) /\
    confined_b base p = false.
Proof.
  exists (s "/"), (s "/var/tmp/r/tmpab12"), (fun _ => Some 0), (fun _ => true), (fun _ => true),
         (fun _ => false), 10485760, [s "/etc/hostname.txt"], h_bad, (s "/etc/hostname.txt").
  vm_compute. repeat split; try reflexivity; try (left; reflexivity). intros [].
Qed.
Print Assumptions C09_reads_subset_writes_refuted_orig.

(* ---- skip rules: a member that is not a regular file, is hidden, is a macOS resource entry,
   has an unsupported type, is a nested archive (by the extension table OR by the router's own
   dispatch), or is oversize (declared or actual) yields no result — for all routing tables,
   str.lower, MIME databases and member extractors *)
Theorem C09_skips :
  forall T lower mime NE ARCHIVE max_mem max_entry m,
    must_skip T lower mime NE ARCHIVE max_mem max_entry m = true ->
    member_results T lower mime NE ARCHIVE max_mem max_entry m = O.
Proof. exact skips_no_result. Qed.
Print Assumptions C09_skips.

Theorem C09_results_passed_all_rules :
  forall T lower mime NE ARCHIVE max_mem max_entry m,
    member_results T lower mime NE ARCHIVE max_mem max_entry m <> O ->
    must_skip T lower mime NE ARCHIVE max_mem max_entry m = false.
Proof. exact result_passed_all. Qed.
Print Assumptions C09_results_passed_all_rules.

(* ---- temporary directory life cycle, for every archive behaviour P and every consumer history *)
Theorem C09_tempdir_balance :
  forall P h, live 0 (snd (run P NotStarted h)) = if is_susp (fst (run P NotStarted h)) then 1 else 0.
Proof. exact tempdir_balance. Qed.
Print Assumptions C09_tempdir_balance.

(* close / drop / a BaseException thrown in: generator finished, directory gone *)
Theorem C09_tempdir_gone :
  forall P h a, terminal_action a = true ->
    fst (run P NotStarted (h ++ [a])) = Done /\ live 0 (snd (run P NotStarted (h ++ [a]))) = 0.
Proof. exact tempdir_gone_after_terminal. Qed.
Print Assumptions C09_tempdir_gone.

(* exhausted or failed (any way of reaching Done): directory gone *)
Theorem C09_tempdir_gone_when_done :
  forall P h, fst (run P NotStarted h) = Done -> live 0 (snd (run P NotStarted h)) = 0.
Proof. intros P h H. rewrite tempdir_balance, H. reflexivity. Qed.
Print Assumptions C09_tempdir_gone_when_done.

(* ---- call skeletons: a function whose calls pass the check makes no file-system call *)
Theorem C09_zip_tar_no_fs :
  forall calls, skel_no_fs calls = true -> forall c, In c calls -> fs_touching c = false.
Proof. exact skel_no_fs_spec. Qed.
Print Assumptions C09_zip_tar_no_fs.

Theorem C09_7z_paths_from_safe_join :
  forall pairs, path_calls_confined pairs = true ->
    forall c o, In (c, o) pairs -> fs_touching c = true -> o = s "_safe_join".
Proof. exact path_calls_spec. Qed.
Print Assumptions C09_7z_paths_from_safe_join.

(* ---- 7z FilesInfo: EmptyFile / Anti / Dummy / time stamps / unknown property records have no effect on
   what _build_file_list receives, wherever they stand in the property sequence *)
Theorem C09_ignored_props_inert :
  forall n ps, parse_files_info n ps = parse_files_info n (filter (fun p => negb (is_ignored p)) ps).
Proof. exact parse_files_info_ignored. Qed.
Print Assumptions C09_ignored_props_inert.

(* ---- entries WITHOUT a data stream (EmptyStream bit set: directories, zero-byte files, anti items) cause
   no file-system event at all: the whole run equals the run on the header with those entries removed —
   for every header, decoder, OS failure pattern, skip function and host *)
Theorem C09_streamless_entries_inert :
  forall cwd base dec okd okw skip max_mem host dsize h,
    run_7z cwd base dec okd okw skip max_mem host dsize h
    = run_7z cwd base dec okd okw skip max_mem host dsize (drop_streamless h).
Proof. exact run_7z_drop. Qed.
Print Assumptions C09_streamless_entries_inert.

(* hence: no write (or any other event) outside the private directory can come from them *)
Theorem C09_streamless_no_write_outside :
  forall cwd base dec okd okw skip max_mem host dsize h e,
    normal_base cwd base = true ->
    In e (run_7z cwd base dec okd okw skip max_mem host dsize h) ->
    In e (run_7z cwd base dec okd okw skip max_mem host dsize (drop_streamless h))
    /\ (confined_b base (ev_path e) = true \/ e = Mkdirs (dirname base)).
Proof.
  intros cwd base dec okd okw skip max_mem host dsize h e Hn H. split.
  - rewrite <- run_7z_drop. exact H.
  - exact (run_7z_events_ok _ _ _ _ _ _ _ _ _ _ _ Hn H).
Qed.
Print Assumptions C09_streamless_no_write_outside.

(* ---- size on disk: a path whose file on disk exceeds the limit is never opened for reading (hence its entry
   never produces a result) — whatever wrote the file: `dsize` is an arbitrary function, so this covers a
   same-named later entry overwriting an earlier one, and any other writer *)
Theorem C09_oversize_on_disk_never_read :
  forall cwd base dec okd okw skip max_mem host dsize h p,
    normal_base cwd base = true ->
    In p (reads (run_7z cwd base dec okd okw skip max_mem host dsize h)) -> dsize p <= max_mem.
Proof. exact run_7z_reads_within_limit. Qed.
Print Assumptions C09_oversize_on_disk_never_read.

(* ---- ZIP / TAR member loops: what is read into memory at all.
   TAR: a member handed to tf.extractfile is a regular-type member, passed _should_skip_file and is within the limit *)
Theorem C09_tar_reads_pass_all_rules :
  forall skipn max_mem REG ms i,
    In i (tar_reads skipn max_mem REG 0 ms) ->
    exists m, nth_error ms i = Some m /\ tar_isreg REG (a_type m) = true /\ skipn (a_name m) = false /\ a_size m <= max_mem.
Proof. exact tar_read_rules. Qed.
Print Assumptions C09_tar_reads_pass_all_rules.

(* hard links, symlinks, character/block devices, directories and fifos are never read, whatever their name, size or
   link target (reg_types_wf is re-decided for today's tarfile.REGULAR_TYPES in Inst.v) *)
Theorem C09_tar_links_devices_never_read :
  forall skipn max_mem REG ms i m,
    reg_types_wf REG = true -> nth_error ms i = Some m -> In (a_type m) TAR_SPECIAL ->
    ~ In i (tar_reads skipn max_mem REG 0 ms).
Proof. exact tar_special_never_read. Qed.
Print Assumptions C09_tar_links_devices_never_read.

(* ZIP: a member handed to zf.read is no directory, not encrypted, passed _should_skip_file and is within the limit *)
Theorem C09_zip_reads_pass_all_rules :
  forall skipn max_mem ms l i,
    zip_reads skipn max_mem ms = Some l -> In i l ->
    exists m, nth_error ms i = Some m /\ a_dir m = false /\ a_enc m = false /\ skipn (a_name m) = false /\ a_size m <= max_mem.
Proof. exact zip_read_rules. Qed.
Print Assumptions C09_zip_reads_pass_all_rules.

(* ZIP: one encrypted non-directory entry ANYWHERE in the listing (even one that would be skipped by name) makes the
   first pass raise before any member is read *)
Theorem C09_zip_encrypted_nothing_read :
  forall skipn max_mem ms i m,
    nth_error ms i = Some m -> a_dir m = false -> a_enc m = true -> zip_reads skipn max_mem ms = None.
Proof. exact zip_encrypted_nothing_read. Qed.
Print Assumptions C09_zip_encrypted_nothing_read.
