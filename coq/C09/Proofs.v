(* C09 — lemmas about the archive model. *)
From Coq Require Import ZArith List Bool Lia ZifyBool.
From S2T Require Import Lib.PyStr C09.Path C09.PathProofs C09.Model.
Open Scope Z_scope.

(* ------------------------------------------------------------------ _safe_join *)
Lemma safe_join_confined cwd base rel p :
  isabs cwd = true -> safe_join cwd base rel = Some p ->
  (rel = [] /\ p = base) \/
  (confined_b (abspath cwd base) p = true /\ no_dots p = true /\ isabs p = true).
Proof.
  intros Hc H. destruct (safe_join_some _ _ _ _ H) as [[A B]|[_ [_ [_ [E C]]]]]; [left; auto|right].
  split; [exact C|]. subst p. split; [apply abspath_no_dots | apply abspath_abs]; exact Hc.
Qed.

(* what lies below the base in a confined result has no '.' / '..' component *)
Lemma safe_join_below_plain cwd base rel r :
  isabs cwd = true -> safe_join cwd base rel = Some (abspath cwd base ++ SLASH :: r) ->
  rel <> [] -> forallb plain_comp (split_slash r) = true.
Proof.
  intros Hc H Hne. destruct (safe_join_confined _ _ _ _ Hc H) as [[A _]|[_ [N _]]]; [contradiction|].
  apply (confined_rest_plain _ _ N).
Qed.

Definition ev_ok (base : str) (e : ev) : Prop :=
  confined_b base (ev_path e) = true \/ e = Mkdirs (dirname base).

Lemma normal_base_spec cwd base :
  normal_base cwd base = true ->
  abspath cwd base = base /\ nonempty base = true /\ ends_slash base = false /\ isabs cwd = true.
Proof.
  unfold normal_base. rewrite !andb_true_iff, str_eqb_eq, negb_true_iff. tauto.
Qed.

Lemma confined_refl base : confined_b base base = true.
Proof. unfold confined_b. rewrite str_eqb_refl. reflexivity. Qed.

Lemma safe_join_normal cwd base rel p :
  normal_base cwd base = true -> safe_join cwd base rel = Some p -> confined_b base p = true.
Proof.
  intros Hn H. destruct (normal_base_spec _ _ Hn) as [A [_ [_ Hc]]].
  destruct (safe_join_confined _ _ _ _ Hc H) as [[_ ->]|[C _]]; [apply confined_refl|].
  rewrite A in C. exact C.
Qed.

Lemma dirname_ok cwd base p :
  normal_base cwd base = true -> confined_b base p = true ->
  confined_b base (dirname p) = true \/ dirname p = dirname base.
Proof.
  intros Hn C. destruct (normal_base_spec _ _ Hn) as [_ [B1 [B2 _]]].
  apply confined_b_spec in C as [->|[r ->]]; [right; reflexivity|left].
  apply dirname_confined; assumption.
Qed.

Section Events.
  Variables (cwd base : str) (dec : nat -> option Z) (okd okw : str -> bool).
  Hypothesis Hn : normal_base cwd base = true.

  Lemma write_files_ok fs off len e :
    In e (fst (write_files cwd base okd okw fs off len)) -> ev_ok base e.
  Proof.
    revert off; induction fs as [|f r IH]; intros off; simpl; [tauto|].
    destruct (f_dir f).
    - destruct (safe_join cwd base (f_name f)) as [d|] eqn:J; [|simpl; tauto].
      pose proof (safe_join_normal _ _ _ _ Hn J) as C.
      destruct (okd d).
      + destruct (write_files cwd base okd okw r off len) as [es ok] eqn:W. simpl.
        intros [<-|H]; [left; exact C|]. apply (IH off). rewrite W. exact H.
      + simpl. intros [<-|[]]. left; exact C.
    - destruct (f_size f <? 0); [simpl; tauto|].
      destruct (len <? off + f_size f); [simpl; tauto|].
      destruct (safe_join cwd base (f_name f)) as [p|] eqn:J; [|simpl; tauto].
      pose proof (safe_join_normal _ _ _ _ Hn J) as C.
      assert (D : forall e', In e' (if nonempty (dirname p) then [Mkdirs (dirname p)] else []) -> ev_ok base e').
      { destruct (nonempty (dirname p)); simpl; [|tauto]. intros e' [<-|[]].
        destruct (dirname_ok _ _ _ Hn C) as [H|H]; [left; exact H | right; rewrite H; reflexivity]. }
      destruct (nonempty (dirname p) && negb (okd (dirname p))); [simpl; exact (D e)|].
      destruct (okw p).
      + destruct (write_files cwd base okd okw r (off + f_size f) len) as [es ok] eqn:W. simpl.
        rewrite in_app_iff. intros [H|[<-|H]]; [exact (D e H) | left; exact C |].
        apply (IH (off + f_size f)). rewrite W. exact H.
      + simpl. rewrite in_app_iff. intros [H|[<-|[]]]; [exact (D e H) | left; exact C].
  Qed.

  Lemma extract_folders_ok fs a n k e :
    In e (fst (extract_folders cwd base dec okd okw fs a k n)) -> ev_ok base e.
  Proof.
    revert k; induction n as [|n IH]; intros k; cbn [extract_folders]; [simpl; tauto|].
    destruct (pick k fs a) as [|f0 mine] eqn:P; [apply IH|].
    destruct (dec k) as [len|]; [|simpl; tauto].
    pose proof (write_files_ok (f0 :: mine) 0 len) as Hes.
    destruct (write_files cwd base okd okw (f0 :: mine) 0 len) as [es ok] eqn:W.
    cbn [fst] in Hes.
    destruct ok; [|cbn [fst]; apply Hes].
    destruct (extract_folders cwd base dec okd okw fs a (S k) n) as [es2 ok2] eqn:X. cbn [fst].
    rewrite in_app_iff. intros [H|H]; [apply Hes; exact H|]. apply (IH (S k)). rewrite X. exact H.
  Qed.

  Lemma extractall_ok h e : In e (fst (extractall cwd base dec okd okw h)) -> ev_ok base e.
  Proof.
    unfold extractall.
    destruct (extract_folders _ _ _ _ _ _ _ _ _) as [es ok] eqn:X. simpl.
    intros [<-|H]; [left; apply confined_refl|].
    apply (extract_folders_ok (files_of h) (folder_of h) (List.length (h_streams h)) 0%nat). rewrite X. exact H.
  Qed.

  Lemma read_back_ok max_mem isfile dsize fs e :
    In e (read_back cwd base max_mem isfile dsize fs) -> confined_b base (ev_path e) = true.
  Proof.
    induction fs as [|f r IH]; simpl; [tauto|].
    destruct (safe_join cwd base (f_name f)) as [p|] eqn:J; [|exact IH].
    pose proof (safe_join_normal _ _ _ _ Hn J) as C.
    destruct (isfile p); [destruct (max_mem <? dsize p)|]; simpl; intuition (subst; simpl; auto).
  Qed.

  (* reads of the read-back are files for which isfile answered true and whose size on disk is within the limit *)
  Lemma read_back_reads max_mem isfile dsize fs p :
    In p (reads (read_back cwd base max_mem isfile dsize fs)) ->
    isfile p = true /\ confined_b base p = true /\ (max_mem <? dsize p) = false.
  Proof.
    induction fs as [|f r IH]; simpl; [tauto|].
    destruct (safe_join cwd base (f_name f)) as [q|] eqn:J; [|exact IH].
    pose proof (safe_join_normal _ _ _ _ Hn J) as C.
    destruct (isfile q) eqn:I; simpl; [|exact IH].
    destruct (max_mem <? dsize q) eqn:S; simpl; [exact IH|].
    intros [<-|H]; [repeat split; assumption | apply IH; exact H].
  Qed.

  Lemma write_files_no_reads fs off len : reads (fst (write_files cwd base okd okw fs off len)) = [].
  Proof.
    revert off; induction fs as [|f r IH]; intros off; simpl; [reflexivity|].
    destruct (f_dir f).
    - destruct (safe_join cwd base (f_name f)) as [d|]; [|reflexivity].
      destruct (okd d); [|reflexivity].
      specialize (IH off). destruct (write_files cwd base okd okw r off len) as [es ok]. simpl in *. exact IH.
    - destruct (f_size f <? 0); [reflexivity|].
      destruct (len <? off + f_size f); [reflexivity|].
      destruct (safe_join cwd base (f_name f)) as [p|]; [|reflexivity].
      assert (D : reads (if nonempty (dirname p) then [Mkdirs (dirname p)] else []) = []).
      { destruct (nonempty (dirname p)); reflexivity. }
      destruct (nonempty (dirname p) && negb (okd (dirname p))); [simpl; exact D|].
      destruct (okw p).
      + specialize (IH (off + f_size f)).
        destruct (write_files cwd base okd okw r (off + f_size f) len) as [es ok]. simpl in *.
        unfold reads in *. rewrite flat_map_app. rewrite D. simpl. exact IH.
      + simpl. unfold reads in *. rewrite flat_map_app, D. reflexivity.
  Qed.

  Lemma extract_folders_no_reads fs a n k : reads (fst (extract_folders cwd base dec okd okw fs a k n)) = [].
  Proof.
    revert k; induction n as [|n IH]; intros k; cbn [extract_folders]; [reflexivity|].
    destruct (pick k fs a) as [|f0 mine]; [apply IH|].
    destruct (dec k) as [len|]; [|reflexivity].
    pose proof (write_files_no_reads (f0 :: mine) 0 len) as W.
    destruct (write_files cwd base okd okw (f0 :: mine) 0 len) as [es ok]. cbn [fst] in W.
    destruct ok; [|exact W].
    specialize (IH (S k)). destruct (extract_folders cwd base dec okd okw fs a (S k) n) as [es2 ok2].
    cbn [fst] in *. unfold reads in *. rewrite flat_map_app, W, IH. reflexivity.
  Qed.

  Lemma extractall_no_reads h : reads (fst (extractall cwd base dec okd okw h)) = [].
  Proof.
    unfold extractall.
    pose proof (extract_folders_no_reads (files_of h) (folder_of h) (List.length (h_streams h)) 0%nat) as X.
    destruct (extract_folders _ _ _ _ _ _ _ _ _) as [es ok]. simpl in *. exact X.
  Qed.
End Events.

Lemma fresh_no_host base host p : fresh base host = true -> confined_b base p = true -> mem_str p host = false.
Proof.
  intros F C. destruct (mem_str p host) eqn:M; [|reflexivity].
  apply mem_str_In in M. unfold fresh in F. rewrite forallb_forall in F.
  specialize (F _ M). rewrite C in F. discriminate.
Qed.

Lemma run_7z_events_ok cwd base dec okd okw skip max_mem host dsize h e :
  normal_base cwd base = true ->
  In e (run_7z cwd base dec okd okw skip max_mem host dsize h) -> ev_ok base e.
Proof.
  intros Hn. unfold run_7z.
  pose proof (extractall_ok cwd base dec okd okw Hn h) as A.
  destruct (extractall cwd base dec okd okw h) as [es ok]. simpl in A.
  destruct ok; [|apply A].
  rewrite in_app_iff. intros [H|H]; [apply A; exact H|].
  left. exact (read_back_ok cwd base okd okw Hn _ _ _ _ _ H).
Qed.

Lemma run_7z_reads_written cwd base dec okd okw skip max_mem host dsize h p :
  normal_base cwd base = true -> fresh base host = true ->
  In p (reads (run_7z cwd base dec okd okw skip max_mem host dsize h)) ->
  In p (writes (run_7z cwd base dec okd okw skip max_mem host dsize h)) /\ confined_b base p = true.
Proof.
  intros Hn F. unfold run_7z.
  pose proof (extractall_no_reads cwd base dec okd okw h) as NR.
  destruct (extractall cwd base dec okd okw h) as [es ok]. simpl in NR.
  destruct ok; [|rewrite NR; simpl; tauto].
  unfold reads, writes. rewrite !flat_map_app. fold (reads es). rewrite NR. simpl.
  intro H. apply (read_back_reads cwd base okd okw Hn) in H as [I [C _]].
  split; [|exact C]. apply in_app_iff. left.
  rewrite (fresh_no_host _ _ _ F C), orb_false_r in I. apply mem_str_In. exact I.
Qed.

Lemma run_7z_reads_within_limit cwd base dec okd okw skip max_mem host dsize h p :
  normal_base cwd base = true ->
  In p (reads (run_7z cwd base dec okd okw skip max_mem host dsize h)) -> dsize p <= max_mem.
Proof.
  intros Hn. unfold run_7z.
  pose proof (extractall_no_reads cwd base dec okd okw h) as NR.
  destruct (extractall cwd base dec okd okw h) as [es ok]. simpl in NR.
  destruct ok; [|rewrite NR; simpl; tauto].
  unfold reads. rewrite flat_map_app. fold (reads es). rewrite NR. simpl.
  intro H. apply (read_back_reads cwd base okd okw Hn) in H as [_ [_ S]]. lia.
Qed.

(* ------------------------------------------------------------------ skip rules *)
Section SkipProofs.
  Variables (T : R.tables) (lower : str -> str) (mime : str -> option str) (NE : list str)
            (ARCHIVE : R.extractor) (max_mem max_entry : Z).

  Definition must_skip (m : member) : bool :=
    negb (m_regular m)
    || hidden (basename (m_name m))
    || macosx (m_name m)
    || unsupported T lower mime (basename (m_name m))
    || nested_ext lower NE (basename (m_name m))
    || routes_to_archive T lower mime ARCHIVE (basename (m_name m))
    || (max_mem <? m_declared m)
    || (max_entry <? m_datalen m).

  Lemma skips_no_result m :
    must_skip m = true -> member_results T lower mime NE ARCHIVE max_mem max_entry m = O.
  Proof.
    unfold must_skip, member_results, should_skip. intro H.
    destruct (negb (m_regular m)); [reflexivity|].
    destruct (hidden _); [reflexivity|]. destruct (macosx _); [reflexivity|]. simpl.
    destruct (unsupported _ _ _ _); [reflexivity|]. destruct (nested_ext _ _ _); [reflexivity|].
    destruct (routes_to_archive _ _ _ _ _); [reflexivity|]. simpl in H.
    destruct (max_mem <? m_declared m); [reflexivity|]. simpl in H. rewrite H. reflexivity.
  Qed.

  (* conversely a member that produces results passed every rule *)
  Lemma result_passed_all m :
    member_results T lower mime NE ARCHIVE max_mem max_entry m <> O -> must_skip m = false.
  Proof.
    intro H. destruct (must_skip m) eqn:E; [|reflexivity]. apply skips_no_result in E. contradiction.
  Qed.
End SkipProofs.

(* ------------------------------------------------------------------ life cycle *)
Definition b (st : gstate) : Z := if is_susp st then 1 else 0.

Lemma live_app n x y : live n (x ++ y) = live (live n x) y.
Proof. revert n; induction x as [|e x IH]; intro n; simpl; [reflexivity|]. destruct e; apply IH. Qed.

Lemma seek_shape ms : seek ms = Done \/ exists k r, seek ms = Susp k r.
Proof.
  induction ms as [|[|k] r IH]; simpl; [left; reflexivity | exact IH | right; eauto].
Qed.

Lemma live_leave n st : (st = Done \/ exists k r, st = Susp k r) -> live n (leave st) = n - 1 + b st.
Proof. intros [->|[k [r ->]]]; simpl; unfold b; simpl; lia. Qed.

Lemma step_live P st a n :
  live n (snd (step P st a)) = n - b st + b (fst (step P st a)).
Proof.
  destruct st as [|k rest|]; destruct a; try destruct k;
    cbn [step]; unfold b; cbn [fst snd is_susp live]; try lia;
    try (rewrite (live_leave n _ (seek_shape _)); unfold b; lia).
  destruct (pre_fail P); cbn [fst snd is_susp live]; [lia|].
  destruct (extract_fail P); cbn [fst snd is_susp live]; [lia|].
  rewrite (live_leave (n + 1) _ (seek_shape _)). unfold b. lia.
Qed.

Lemma run_live P h st n :
  live n (snd (run P st h)) = n - b st + b (fst (run P st h)).
Proof.
  revert st n; induction h as [|a h IH]; intros st n; simpl; [lia|].
  pose proof (step_live P st a n) as S1.
  destruct (step P st a) as [st' e]. simpl in S1.
  specialize (IH st' (live n e)).
  destruct (run P st' h) as [st'' e']. simpl in *. rewrite live_app. lia.
Qed.

Lemma run_app P h1 h2 st :
  run P st (h1 ++ h2) =
  let '(st1, e1) := run P st h1 in let '(st2, e2) := run P st1 h2 in (st2, e1 ++ e2).
Proof.
  revert st; induction h1 as [|a h IH]; intro st; simpl.
  - destruct (run P st h2); reflexivity.
  - destruct (step P st a) as [st' e]. rewrite IH.
    destruct (run P st' h) as [st1 e1]. destruct (run P st1 h2) as [st2 e2]. rewrite app_assoc. reflexivity.
Qed.

Lemma terminal_done P st a : terminal_action a = true -> fst (step P st a) = Done.
Proof. destruct st as [|k r|]; destruct a; try destruct k; simpl; try discriminate; reflexivity. Qed.

Lemma tempdir_balance P h :
  live 0 (snd (run P NotStarted h)) = if is_susp (fst (run P NotStarted h)) then 1 else 0.
Proof. rewrite run_live. unfold b. simpl. lia. Qed.

Lemma tempdir_gone_after_terminal P h a :
  terminal_action a = true ->
  fst (run P NotStarted (h ++ [a])) = Done /\ live 0 (snd (run P NotStarted (h ++ [a]))) = 0.
Proof.
  intro Ht.
  assert (D : fst (run P NotStarted (h ++ [a])) = Done).
  { rewrite run_app. destruct (run P NotStarted h) as [st1 e1]. simpl.
    pose proof (terminal_done P st1 a Ht) as S1. destruct (step P st1 a) as [st2 e2]. simpl in *. exact S1. }
  split; [exact D|]. rewrite tempdir_balance, D. reflexivity.
Qed.

(* ------------------------------------------------------------------ skeletons *)
Lemma skel_no_fs_spec calls : skel_no_fs calls = true -> forall c, In c calls -> fs_touching c = false.
Proof.
  unfold skel_no_fs. rewrite forallb_forall. intros H c Hc. apply negb_true_iff. exact (H c Hc).
Qed.

Lemma path_calls_spec pairs :
  path_calls_confined pairs = true ->
  forall c o, In (c, o) pairs -> fs_touching c = true -> o = s "_safe_join".
Proof.
  unfold path_calls_confined. rewrite forallb_forall. intros H c o Hc F.
  specialize (H _ Hc). simpl in H. rewrite F in H. apply str_eqb_eq. exact H.
Qed.

(* ------------------------------------------------------------------ 7z FilesInfo properties *)
Lemma fparse_ignored ps : forall st, fparse st ps = fparse st (filter (fun p => negb (is_ignored p)) ps).
Proof.
  induction ps as [|p r IH]; intro st; [reflexivity|].
  destruct p as [bits|ext names|d v|id]; cbn [filter is_ignored negb fparse fstep].
  - apply IH.
  - destruct ext; [reflexivity | apply IH].
  - apply IH.
  - apply IH.
Qed.

Lemma parse_files_info_ignored n ps :
  parse_files_info n ps = parse_files_info n (filter (fun p => negb (is_ignored p)) ps).
Proof. unfold parse_files_info. rewrite <- fparse_ignored. reflexivity. Qed.

Definition has_stream (e : entry) : bool := negb (e_empty e).

Lemma pick_drop k es : forall sizes fidx streams cnt,
  pick k (build_files es sizes) (assign (build_files es sizes) fidx streams cnt)
  = pick k (build_files (filter has_stream es) sizes)
           (assign (build_files (filter has_stream es) sizes) fidx streams cnt).
Proof.
  induction es as [|e r IH]; intros sizes fidx streams cnt; [reflexivity|].
  cbn [filter]. replace (has_stream e) with (negb (e_empty e)) by reflexivity. destruct (e_empty e) eqn:E; cbn [negb].
  - cbn [build_files]. rewrite E. cbn [orb]. destruct streams as [|ns s']; cbn [assign f_dir pick]; apply IH.
  - cbn [build_files]. rewrite E. cbn [orb].
    destruct (N.testbit (e_attr e) 4).
    + destruct streams as [|ns s']; cbn [assign f_dir pick]; apply IH.
    + destruct sizes as [|sz sizes']; destruct streams as [|ns s']; cbn [assign f_dir pick];
        try apply IH;
        destruct (ns <=? cnt + 1)%N; cbn [pick]; destruct (Nat.eqb fidx k); rewrite IH; reflexivity.
Qed.

Lemma extract_folders_ext cwd base dec okd okw fs a fs' a' n :
  (forall k, pick k fs a = pick k fs' a') ->
  forall k, extract_folders cwd base dec okd okw fs a k n = extract_folders cwd base dec okd okw fs' a' k n.
Proof.
  intro H. induction n as [|n IH]; intro k; cbn [extract_folders]; [reflexivity|].
  rewrite (H k). destruct (pick k fs' a'); [apply IH|].
  destruct (dec k); [|reflexivity]. destruct (write_files _ _ _ _ _ _ _) as [es ok].
  destruct ok; [rewrite IH|]; reflexivity.
Qed.

Lemma extractall_drop cwd base dec okd okw h :
  extractall cwd base dec okd okw h = extractall cwd base dec okd okw (drop_streamless h).
Proof.
  unfold extractall, files_of, folder_of, drop_streamless. cbn [h_entries h_sizes h_streams].
  rewrite (extract_folders_ext cwd base dec okd okw _ _
             (build_files (filter has_stream (h_entries h)) (h_sizes h))
             (assign (build_files (filter has_stream (h_entries h)) (h_sizes h)) 0 (h_streams h) 0%N)).
  - reflexivity.
  - intro k. apply pick_drop.
Qed.

Lemma to_process_drop skip max_mem es : forall sizes,
  filter (fun f => negb (f_dir f) && negb (skip (f_name f)) && negb (max_mem <? f_size f)) (build_files es sizes)
  = filter (fun f => negb (f_dir f) && negb (skip (f_name f)) && negb (max_mem <? f_size f))
           (build_files (filter has_stream es) sizes).
Proof.
  induction es as [|e r IH]; intro sizes; [reflexivity|].
  cbn [filter]. replace (has_stream e) with (negb (e_empty e)) by reflexivity. destruct (e_empty e) eqn:E; cbn [negb].
  - cbn [build_files]. rewrite E. cbn [orb filter f_dir negb andb]. apply IH.
  - cbn [build_files]. rewrite E. cbn [orb]. destruct (N.testbit (e_attr e) 4).
    + cbn [filter f_dir negb andb]. apply IH.
    + destruct sizes as [|sz sizes']; cbn [filter]; rewrite IH; reflexivity.
Qed.

Lemma run_7z_drop cwd base dec okd okw skip max_mem host dsize h :
  run_7z cwd base dec okd okw skip max_mem host dsize h
  = run_7z cwd base dec okd okw skip max_mem host dsize (drop_streamless h).
Proof.
  unfold run_7z. rewrite <- extractall_drop.
  assert (T : to_process skip max_mem h = to_process skip max_mem (drop_streamless h)).
  { unfold to_process, files_of, drop_streamless. cbn [h_entries h_sizes]. apply to_process_drop. }
  rewrite T. reflexivity.
Qed.

(* ------------------------------------------------------------------ ZIP / TAR member loops *)
Section LoopProofs.
  Variables (skipn : str -> bool) (max_mem : Z) (REG : list N).

  Lemma tar_reads_spec ms : forall k i,
    In i (tar_reads skipn max_mem REG k ms) ->
    (k <= i)%nat /\ exists m, nth_error ms (i - k) = Some m /\ tar_wanted skipn max_mem REG m = true.
  Proof.
    induction ms as [|m r IH]; intros k i; cbn [tar_reads]; [intros []|].
    destruct (tar_wanted skipn max_mem REG m) eqn:W.
    - intros [<-|H].
      + split; [lia|]. exists m. replace (k - k)%nat with O by lia. auto.
      + destruct (IH _ _ H) as [L [m' [N W']]]. split; [lia|]. exists m'.
        replace (i - k)%nat with (S (i - S k)) by lia. auto.
    - intro H. destruct (IH _ _ H) as [L [m' [N W']]]. split; [lia|]. exists m'.
      replace (i - k)%nat with (S (i - S k)) by lia. auto.
  Qed.

  Lemma tar_read_rules ms i :
    In i (tar_reads skipn max_mem REG 0 ms) ->
    exists m, nth_error ms i = Some m /\ tar_isreg REG (a_type m) = true /\ skipn (a_name m) = false /\ a_size m <= max_mem.
  Proof.
    intro H. destruct (tar_reads_spec _ _ _ H) as [_ [m [N W]]]. rewrite Nat.sub_0_r in N.
    exists m. unfold tar_wanted in W. rewrite !andb_true_iff, !negb_true_iff in W.
    destruct W as [[A B] C]. repeat split; auto. lia.
  Qed.

  Lemma tar_special_never_read ms i m :
    reg_types_wf REG = true -> nth_error ms i = Some m -> In (a_type m) TAR_SPECIAL ->
    ~ In i (tar_reads skipn max_mem REG 0 ms).
  Proof.
    intros WF N Sp H. destruct (tar_read_rules _ _ H) as [m' [N' [R _]]].
    rewrite N in N'. inversion N'; subst m'.
    unfold reg_types_wf in WF. apply andb_true_iff in WF as [WF _]. rewrite forallb_forall in WF.
    specialize (WF _ Sp). rewrite R in WF. discriminate.
  Qed.

  Lemma zip_scan_spec ms : forall k l i m,
    zip_scan skipn k ms = Some l -> In (i, m) l ->
    (k <= i)%nat /\ nth_error ms (i - k) = Some m /\ a_dir m = false /\ a_enc m = false /\ skipn (a_name m) = false.
  Proof.
    induction ms as [|x r IH]; intros k l i m; cbn [zip_scan].
    - intro H; inversion H; subst. intros [].
    - assert (Shift : forall l', zip_scan skipn (S k) r = Some l' -> In (i, m) l' ->
                (k <= i)%nat /\ nth_error (x :: r) (i - k) = Some m /\ a_dir m = false /\ a_enc m = false /\ skipn (a_name m) = false).
      { intros l' H1 H2. destruct (IH _ _ _ _ H1 H2) as [L [N R]]. split; [lia|].
        replace (i - k)%nat with (S (i - S k)) by lia. auto. }
      destruct (a_dir x) eqn:D; [intros H1 H2; exact (Shift _ H1 H2)|].
      destruct (a_enc x) eqn:E; [discriminate|].
      destruct (skipn (a_name x)) eqn:Sk; [intros H1 H2; exact (Shift _ H1 H2)|].
      destruct (zip_scan skipn (S k) r) as [l'|] eqn:Z; [|discriminate].
      intro H; inversion H; subst l. intros [Q|Q].
      + inversion Q; subst. split; [lia|]. replace (i - i)%nat with O by lia. auto.
      + exact (Shift _ eq_refl Q).
  Qed.

  Lemma zip_read_rules ms l i :
    zip_reads skipn max_mem ms = Some l -> In i l ->
    exists m, nth_error ms i = Some m /\ a_dir m = false /\ a_enc m = false /\ skipn (a_name m) = false /\ a_size m <= max_mem.
  Proof.
    unfold zip_reads. destruct (zip_scan skipn 0 ms) as [l0|] eqn:Z; [|discriminate].
    intro H; inversion H; subst l. intro I. apply in_map_iff in I as [[j m] [Ej F]]. cbn [fst] in Ej. subst j.
    apply filter_In in F as [F1 F2]. cbn [snd] in F2. apply negb_true_iff in F2.
    destruct (zip_scan_spec _ _ _ _ _ Z F1) as [_ [N R]]. rewrite Nat.sub_0_r in N.
    destruct R as [R1 [R2 R3]]. exists m. repeat split; auto. lia.
  Qed.

  Lemma zip_scan_encrypted ms : forall k i m,
    nth_error ms i = Some m -> a_dir m = false -> a_enc m = true -> zip_scan skipn k ms = None.
  Proof.
    induction ms as [|x r IH]; intros k i m N D E; [destruct i; discriminate|].
    cbn [zip_scan]. destruct i as [|i].
    - inversion N; subst x. rewrite D, E. reflexivity.
    - cbn [nth_error] in N. rewrite (IH (S k) _ _ N D E).
      destruct (a_dir x); [reflexivity|]. destruct (a_enc x); [reflexivity|]. destruct (skipn (a_name x)); reflexivity.
  Qed.

  Lemma zip_encrypted_nothing_read ms i m :
    nth_error ms i = Some m -> a_dir m = false -> a_enc m = true -> zip_reads skipn max_mem ms = None.
  Proof. intros N D E. unfold zip_reads. rewrite (zip_scan_encrypted _ _ _ _ N D E). reflexivity. Qed.
End LoopProofs.
