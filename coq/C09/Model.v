(* C09 — executable model of the confinement-relevant logic of
     sharepoint2text/parsing/extractors/archive_extractor.py
     sharepoint2text/parsing/extractors/util/sevenzip.py
   Definitions only.  Third-party / OS behaviour enters as Section variables (oracles):
   the parsed 7z header, the decoders, which OS calls fail, the host file system, str.lower,
   the MIME database, and how many results a member's extractor yields. *)
From Coq Require Import ZArith List Bool.
From S2T Require Export Lib.PyStr C09.Path.
From S2T Require C07.Model.
Module R := S2T.C07.Model.
Open Scope Z_scope.

(* ======================================================================== 7z bookkeeping *)
(* inputs of SevenZipReader._build_file_list, as left behind by the header parser (oracle) *)
Record entry := { e_name : str; e_empty : bool; e_attr : N }.
Record hdr := {
  h_entries : list entry;      (* names / empty_streams / attributes, one per listed file *)
  h_sizes   : list Z;          (* self._file_sizes *)
  h_streams : list N           (* folder.num_streams for each of self._folders *)
}.
Record finfo := { f_name : str; f_size : Z; f_dir : bool }.

(* first loop of _build_file_list: is_dir, size taken from _file_sizes while any are left *)
Fixpoint build_files (es : list entry) (sizes : list Z) : list finfo :=
  match es with
  | [] => []
  | e :: r =>
      if e_empty e || N.testbit (e_attr e) 4 then          (* attributes & 0x10 *)
        {| f_name := e_name e; f_size := 0; f_dir := true |} :: build_files r sizes
      else match sizes with
           | sz :: sizes' => {| f_name := e_name e; f_size := sz; f_dir := false |} :: build_files r sizes'
           | [] => {| f_name := e_name e; f_size := 0; f_dir := false |} :: build_files r []
           end
  end.

(* second loop: folder index of every listed file (None = directory, or no folder left).
   fidx = folder_idx, streams = num_streams of folders fidx.., cnt = file_in_folder *)
Fixpoint assign (fs : list finfo) (fidx : nat) (streams : list N) (cnt : N) : list (option nat) :=
  match fs with
  | [] => []
  | f :: r =>
      match streams with
      | [] => None :: assign r fidx streams cnt
      | ns :: streams' =>
          if f_dir f then None :: assign r fidx streams cnt
          else if (ns <=? cnt + 1)%N then Some fidx :: assign r (S fidx) streams' 0%N
               else Some fidx :: assign r fidx streams (cnt + 1)%N
      end
  end.

Definition files_of (h : hdr) : list finfo := build_files (h_entries h) (h_sizes h).
Definition folder_of (h : hdr) : list (option nat) := assign (files_of h) 0 (h_streams h) 0%N.

(* self._folder_to_files[k], in list order *)
Fixpoint pick (k : nat) (fs : list finfo) (a : list (option nat)) : list finfo :=
  match fs, a with
  | f :: fs', Some j :: a' => if Nat.eqb j k then f :: pick k fs' a' else pick k fs' a'
  | _ :: fs', None :: a' => pick k fs' a'
  | _, _ => []
  end.

(* ======================================================================== 7z FilesInfo properties *)
(* SevenZipReader._parse_files_info: the property records of the FilesInfo section in archive order.
   Only EmptyStream (0x0E), Names (0x11) and WinAttributes (0x15) have an effect; EmptyFile (0x0F),
   Anti (0x10), Dummy (0x19), the time stamps, StartPos and every unknown id are skipped over
   (`seek(end_pos)`).  A later record of the same kind replaces / overlays the earlier one. *)
Inductive fprop :=
| PEmptyStream (bits : list bool)                 (* _read_boolean_vector(num_files) *)
| PNames (external : bool) (names : list str)     (* external byte <> 0: Bad7zFile *)
| PAttrs (defined : list bool) (vals : list N)    (* uint32 per defined entry, in order *)
| PIgnored (id : N).                              (* EmptyFile / Anti / Dummy / CTime / ... *)

Record fstate := { st_empty : list bool; st_names : list str; st_attrs : list N }.

Definition finit (n : nat) : fstate :=
  {| st_empty := repeat false n; st_names := repeat [] n; st_attrs := repeat 0%N n |}.

(* attributes[i] = next value if defined[i], else unchanged *)
Fixpoint fill_attrs (defined : list bool) (vals : list N) (prev : list N) : list N :=
  match prev with
  | [] => []
  | a :: prev' =>
      match defined with
      | true :: d' => match vals with v :: vals' => v :: fill_attrs d' vals' prev' | [] => a :: fill_attrs d' [] prev' end
      | false :: d' => a :: fill_attrs d' vals prev'
      | [] => a :: prev'
      end
  end.

Definition fstep (st : fstate) (p : fprop) : option fstate :=
  match p with
  | PEmptyStream bits => Some {| st_empty := bits; st_names := st_names st; st_attrs := st_attrs st |}
  | PNames true _ => None
  | PNames false names => Some {| st_empty := st_empty st; st_names := names; st_attrs := st_attrs st |}
  | PAttrs d v => Some {| st_empty := st_empty st; st_names := st_names st; st_attrs := fill_attrs d v (st_attrs st) |}
  | PIgnored _ => Some st
  end.

Fixpoint fparse (st : fstate) (ps : list fprop) : option fstate :=
  match ps with
  | [] => Some st
  | p :: r => match fstep st p with Some st' => fparse st' r | None => None end
  end.

(* the arguments handed to _build_file_list: entry i = (names[i], empty_streams[i], attributes[i]) *)
Fixpoint mk_entries (n : nat) (i : nat) (st : fstate) : list entry :=
  match n with
  | O => []
  | S n' => {| e_name := nth i (st_names st) []; e_empty := nth i (st_empty st) false;
               e_attr := nth i (st_attrs st) 0%N |} :: mk_entries n' (S i) st
  end.

Definition parse_files_info (n : nat) (ps : list fprop) : option (list entry) :=
  match fparse (finit n) ps with Some st => Some (mk_entries n 0 st) | None => None end.

Definition is_ignored (p : fprop) : bool := match p with PIgnored _ => true | _ => false end.

(* a header without its stream-less entries *)
Definition drop_streamless (h : hdr) : hdr :=
  {| h_entries := filter (fun e => negb (e_empty e)) (h_entries h); h_sizes := h_sizes h; h_streams := h_streams h |}.

(* ======================================================================== file-system events *)
Inductive ev :=
| Mkdirs (p : str)      (* os.makedirs(p, exist_ok=True) *)
| OpenW (p : str)       (* open(p, "wb") *)
| Probe (p : str)       (* os.path.isfile(p) / os.path.exists(p) *)
| OpenR (p : str).      (* open(p, "rb") *)

Definition ev_path (e : ev) : str :=
  match e with Mkdirs p | OpenW p | Probe p | OpenR p => p end.

Section SevenZip.
  Variable cwd : str.                       (* os.getcwd() *)
  Variable base : str.                      (* temp_dir *)
  Variable dec : nat -> option Z.           (* len(_decompress_folder(folder k)); None = it raises *)
  Variable okd : str -> bool.               (* os.makedirs succeeds *)
  Variable okw : str -> bool.               (* open(p,"wb") + write succeeds *)

  (* _extract_files_from_folder: events, and whether it returned normally *)
  Fixpoint write_files (fs : list finfo) (off len : Z) : list ev * bool :=
    match fs with
    | [] => ([], true)
    | f :: r =>
        if f_dir f then
          match safe_join cwd base (f_name f) with
          | None => ([], false)
          | Some d => if okd d then let '(es, ok) := write_files r off len in (Mkdirs d :: es, ok)
                      else ([Mkdirs d], false)
          end
        else if f_size f <? 0 then ([], false)
        else if len <? off + f_size f then ([], false)
        else match safe_join cwd base (f_name f) with
             | None => ([], false)
             | Some p =>
                 let d := dirname p in
                 let evd := if nonempty d then [Mkdirs d] else [] in
                 if nonempty d && negb (okd d) then (evd, false)
                 else if okw p then
                        let '(es, ok) := write_files r (off + f_size f) len in (evd ++ OpenW p :: es, ok)
                      else (evd ++ [OpenW p], false)
             end
    end.

  (* extractall: folders k, k+1, … (n of them left) *)
  Fixpoint extract_folders (fs : list finfo) (a : list (option nat)) (k n : nat) : list ev * bool :=
    match n with
    | O => ([], true)
    | S n' =>
        match pick k fs a with
        | [] => extract_folders fs a (S k) n'                       (* folder_idx not in _folder_to_files *)
        | mine =>
            match dec k with
            | None => ([], false)
            | Some len =>
                let '(es, ok) := write_files mine 0 len in
                if ok then let '(es2, ok2) := extract_folders fs a (S k) n' in (es ++ es2, ok2)
                else (es, false)
            end
        end
    end.

  Definition extractall (h : hdr) : list ev * bool :=
    let '(es, ok) := extract_folders (files_of h) (folder_of h) 0 (List.length (h_streams h)) in
    (Mkdirs base :: es, ok).                                        (* os.makedirs(path, exist_ok=True) first *)

  (* files_to_process of _extract_from_7z_optimized: not directory, not skipped, not oversize *)
  Variable skip : str -> bool.              (* _should_skip_file(filename, basename(filename)) *)
  Variable max_mem : Z.                     (* _config.max_memory_size *)
  Definition to_process (h : hdr) : list finfo :=
    filter (fun f => negb (f_dir f) && negb (skip (f_name f)) && negb (max_mem <? f_size f)) (files_of h).

  (* _process_7z_files_sequential (repaired): path through _safe_join, isfile, open rb *)
  Variable isfile : str -> bool.            (* the file system after extractall *)
  Variable dsize : str -> Z.                (* os.path.getsize: size of what is on disk now, whatever wrote it *)
  Fixpoint read_back (fs : list finfo) : list ev :=
    match fs with
    | [] => []
    | f :: r =>
        match safe_join cwd base (f_name f) with
        | None => read_back r                                       (* Bad7zFile caught, continue *)
        | Some p =>
            if isfile p then
              if max_mem <? dsize p then Probe p :: read_back r     (* too large on disk: skipped, never opened *)
              else Probe p :: OpenR p :: read_back r
            else Probe p :: read_back r
        end
    end.

  (* the code before the repair: os.path.join + os.path.exists *)
  Variable exists_ : str -> bool.
  Fixpoint read_back_orig (fs : list finfo) : list ev :=
    match fs with
    | [] => []
    | f :: r =>
        let p := join2 base (f_name f) in
        if exists_ p then Probe p :: OpenR p :: read_back_orig r else Probe p :: read_back_orig r
    end.
End SevenZip.

(* the whole 7z run against a file system = files written by this run + host files *)
Definition writes (es : list ev) : list str :=
  flat_map (fun e => match e with OpenW p => [p] | _ => [] end) es.
Definition reads (es : list ev) : list str :=
  flat_map (fun e => match e with OpenR p => [p] | _ => [] end) es.

Section Run7z.
  Variables (cwd base : str) (dec : nat -> option Z) (okd okw : str -> bool)
            (skip : str -> bool) (max_mem : Z) (host : list str) (dsize : str -> Z).
  Definition run_7z (h : hdr) : list ev :=
    let '(es, ok) := extractall cwd base dec okd okw h in
    if ok then
      es ++ read_back cwd base max_mem (fun p => mem_str p (writes es) || mem_str p host) dsize (to_process skip max_mem h)
    else es.                                   (* ExtractionFailedError before any read *)
  Definition run_7z_orig (h : hdr) : list ev :=
    let '(es, ok) := extractall cwd base dec okd okw h in
    if ok then
      es ++ read_back_orig base (fun p => mem_str p (writes es) || mem_str p host) (to_process skip max_mem h)
    else es.
End Run7z.

(* the private directory is fresh: no host file is the directory or lies below it *)
Definition fresh (base : str) (host : list str) : bool :=
  forallb (fun q => negb (confined_b base q)) host.

(* tempfile returns a normalised absolute directory that does not end in '/' *)
Definition normal_base (cwd base : str) : bool :=
  str_eqb (abspath cwd base) base && nonempty base && negb (ends_slash base) && isabs cwd.

(* ======================================================================== skip rules *)
Definition extractor_eqb (a b : R.extractor) : bool := str_eqb (fst a) (fst b) && str_eqb (snd a) (snd b).

Section Skip.
  Variable T : R.tables.
  Variable lower : str -> str.
  Variable mime : str -> option str.
  Variable NE : list str.                   (* NESTED_ARCHIVE_EXTENSIONS *)
  Variable ARCHIVE : R.extractor.           (* (module, name) of read_archive *)

  Definition hidden (basename : str) : bool := startswith basename [DOT].
  Definition macosx (filename : str) : bool := startswith filename (s "__MACOSX/").
  Definition unsupported (basename : str) : bool := negb (R.is_supported_file T lower mime basename).
  Definition nested_ext (basename : str) : bool := existsb (endswith (lower basename)) NE.
  (* "nested archive" as the ROUTER defines it: the member would be dispatched to read_archive *)
  Definition routes_to_archive (basename : str) : bool :=
    match R.get_extractor T lower mime basename with
    | R.Extractor e => extractor_eqb e ARCHIVE
    | R.NotSupported => false
    end.

  (* _should_skip_file (repaired) *)
  Definition should_skip (filename basename : str) : bool :=
    if hidden basename || macosx filename then true
    else if unsupported basename then true
    else if nested_ext basename then true
    else if routes_to_archive basename then true
    else false.

  (* before the repair: no router test *)
  Definition should_skip_orig (filename basename : str) : bool :=
    if hidden basename || macosx filename then true
    else if unsupported basename then true
    else if nested_ext basename then true
    else false.

  (* one member in the ZIP / TAR / 7z loops *)
  Record member := {
    m_name : str;
    m_regular : bool;        (* not info.is_dir() / member.isreg() / not file_info.is_directory *)
    m_declared : Z;          (* info.file_size / member.size / file_info.uncompressed *)
    m_datalen : Z;           (* len(file_data) actually read *)
    m_yields : nat           (* results the member's extractor would yield (oracle) *)
  }.
  Variable max_mem : Z.      (* _config.max_memory_size *)
  Variable max_entry : Z.    (* MAX_ARCHIVE_FILE_SIZE *)

  Definition member_results (m : member) : nat :=
    if negb (m_regular m) then O
    else if should_skip (m_name m) (basename (m_name m)) then O
    else if max_mem <? m_declared m then O
    else if max_entry <? m_datalen m then O          (* _process_archive_entry *)
    else m_yields m.

  Definition member_results_orig (m : member) : nat :=
    if negb (m_regular m) then O
    else if should_skip_orig (m_name m) (basename (m_name m)) then O
    else if max_mem <? m_declared m then O
    else if max_entry <? m_datalen m then O
    else m_yields m.

  (* every extension-routed archive type is covered by the extension table *)
  Definition arch_type (ft : str) : bool :=
    match assoc ft (R.registry T) with Some e => extractor_eqb e ARCHIVE | None => false end.
  Definition covered (dotted_ext : str) : bool := existsb (endswith dotted_ext) NE.
  Definition nested_covers_router : bool :=
    forallb (fun kv => if extractor_eqb (snd kv) ARCHIVE then covered (DOT :: fst kv) else true) (R.registry T)
    && forallb (fun ab => if arch_type (snd ab) then covered (DOT :: fst ab) else true) (R.aliases T)
    && forallb (fun cf => if arch_type (snd cf) then covered (fst cf) else true) (R.compound T).
End Skip.

(* ======================================================================== generator life cycle *)
(* read_archive on a 7z: consumer alphabet and the states of the generator object *)
Inductive action :=
| Next            (* next(gen) *)
| Close           (* gen.close(): GeneratorExit at the suspended yield *)
| ThrowExc        (* gen.throw(e), e an Exception *)
| ThrowBase       (* gen.throw(e), e a BaseException that is no Exception (KeyboardInterrupt) *)
| Drop.           (* last reference dropped: CPython finalises = close() *)

Record prog := {
  pre_fail : bool;          (* an error is raised before the TemporaryDirectory is entered *)
  extract_fail : bool;      (* extractall raises inside the TemporaryDirectory *)
  yields : list nat         (* results of each processed member, in order *)
}.

Inductive gstate :=
| NotStarted
| Susp (k : nat) (rest : list nat)   (* suspended at a yield; k more from this member, then rest *)
| Done.

Inductive tev := MkTemp | RmTemp.

Fixpoint seek (ms : list nat) : gstate :=
  match ms with
  | [] => Done
  | O :: r => seek r
  | S k :: r => Susp k r
  end.

(* leaving the `with tempfile.TemporaryDirectory()` block, normally or by exception *)
Definition leave (st : gstate) : list tev := match st with Done => [RmTemp] | _ => [] end.

Definition step (P : prog) (st : gstate) (a : action) : gstate * list tev :=
  match st, a with
  | NotStarted, Next =>
      if pre_fail P then (Done, [])
      else if extract_fail P then (Done, [MkTemp; RmTemp])
      else let st' := seek (yields P) in (st', MkTemp :: leave st')
  | NotStarted, _ => (Done, [])                          (* body never runs *)
  | Susp (S k) rest, Next => (Susp k rest, [])
  | Susp O rest, Next => let st' := seek rest in (st', leave st')
  | Susp _ rest, ThrowExc =>                             (* swallowed by _process_archive_entry *)
      let st' := seek rest in (st', leave st')
  | Susp _ _, (Close | ThrowBase | Drop) => (Done, [RmTemp])
  | Done, _ => (Done, [])
  end.

Fixpoint run (P : prog) (st : gstate) (h : list action) : gstate * list tev :=
  match h with
  | [] => (st, [])
  | a :: h' => let '(st', e) := step P st a in let '(st'', e') := run P st' h' in (st'', e ++ e')
  end.

Fixpoint live (n : Z) (es : list tev) : Z :=
  match es with
  | [] => n
  | MkTemp :: r => live (n + 1) r
  | RmTemp :: r => live (n - 1) r
  end.

Definition is_susp (st : gstate) : bool := match st with Susp _ _ => true | _ => false end.
Definition terminal_action (a : action) : bool :=
  match a with Close | Drop | ThrowBase => true | _ => false end.

(* ======================================================================== call skeletons (X) *)
(* callee texts collected from the ast of the ZIP/TAR functions *)
Definition last_comp (callee : str) : str := rev (takeWhile (fun c => negb (N.eqb c DOT)) (rev callee)).

Definition FS_NAMES : list str := map s ([
  "open"; "extract"; "extractall"; "makedirs"; "mkdir"; "remove"; "unlink"; "rmdir"; "rename"; 
  "symlink"; "rmtree"; "copy2"; "copyfile"; "copytree"; "mkdtemp"; "mkstemp";
  "NamedTemporaryFile"; "TemporaryDirectory"; "TemporaryFile"; "SpooledTemporaryFile"; "write_bytes";
  "write_text"; "read_bytes"; "read_text"; "chmod"; "chown"; "truncate"; "utime"; "system";
  "popen"; "Popen"; "check_output"; "exec"; "eval"; "__import__"; "exists"; "isfile";
  "isdir"; "listdir"; "scandir"; "walk"; "glob"; "stat"; "lstat"; "readlink"; "realpath"; "chdir"; "mkfifo";
  "mknod"; "fdopen"; "sendfile"; "SevenZipFile"; "_extract_from_7z_optimized";
  "_process_7z_files_sequential"]%string).

Definition fs_touching (callee : str) : bool := mem_str (last_comp callee) FS_NAMES.
Definition skel_no_fs (calls : list str) : bool := forallb (fun c => negb (fs_touching c)) calls.
Definition skel_has (calls : list str) (c : str) : bool := mem_str c calls.

(* (callee, origin of its first argument) pairs of _process_7z_files_sequential: every path-taking
   call gets its path from _safe_join *)
Definition path_calls_confined (pairs : list (str * str)) : bool :=
  forallb (fun co => if fs_touching (fst co) then str_eqb (snd co) (s "_safe_join") else true) pairs.

(* ======================================================================== ZIP / TAR member loops *)
(* which members _extract_from_zip_optimized / _extract_from_tar_optimized READ into memory
   (zf.read(info) / tf.extractfile(member)); the member list as the container library reports it is an oracle *)
Record amember := {
  a_name : str;
  a_dir  : bool;      (* ZipInfo.is_dir() *)
  a_enc  : bool;      (* ZipInfo.flag_bits & 0x1 *)
  a_type : N;         (* TarInfo.type (one byte) *)
  a_size : Z          (* ZipInfo.file_size / TarInfo.size *)
}.

(* TarInfo.isreg(): self.type in REGULAR_TYPES *)
Definition tar_isreg (REG : list N) (ty : N) : bool := existsb (N.eqb ty) REG.

Section Loops.
  Variable skipn : str -> bool.            (* _should_skip_file(name, basename(name)) *)
  Variable max_mem : Z.
  Variable REG : list N.                   (* tarfile.REGULAR_TYPES *)

  Definition tar_wanted (m : amember) : bool :=
    tar_isreg REG (a_type m) && negb (skipn (a_name m)) && negb (max_mem <? a_size m).

  (* indices (in getmembers() order) handed to tf.extractfile *)
  Fixpoint tar_reads (i : nat) (ms : list amember) : list nat :=
    match ms with
    | [] => []
    | m :: r => if tar_wanted m then i :: tar_reads (S i) r else tar_reads (S i) r
    end.

  (* first pass of the ZIP function: None = ExtractionFileEncryptedError raised before anything is read *)
  Fixpoint zip_scan (i : nat) (ms : list amember) : option (list (nat * amember)) :=
    match ms with
    | [] => Some []
    | m :: r =>
        if a_dir m then zip_scan (S i) r
        else if a_enc m then None
        else if skipn (a_name m) then zip_scan (S i) r
        else match zip_scan (S i) r with Some l => Some ((i, m) :: l) | None => None end
    end.

  (* second pass: indices (in infolist() order) handed to zf.read *)
  Definition zip_reads (ms : list amember) : option (list nat) :=
    match zip_scan 0 ms with
    | None => None
    | Some l => Some (map fst (filter (fun im => negb (max_mem <? a_size (snd im))) l))
    end.
End Loops.

(* link, device, fifo and directory type flags of tarfile *)
Definition TAR_SPECIAL : list N := [49; 50; 51; 52; 53; 54]%N.     (* '1' LNK '2' SYM '3' CHR '4' BLK '5' DIR '6' FIFO *)
Definition reg_types_wf (REG : list N) : bool :=
  forallb (fun ty => negb (tar_isreg REG ty)) TAR_SPECIAL && tar_isreg REG 48%N.
