(* C09 — obligations re-decided by the kernel for the tables (Gen/C09Tables.v) and call skeletons
   (Gen/C09Skel.v) generated from the repo on this run. *)
From Coq Require Import ZArith List Bool.
From S2T Require Import Lib.PyStr C09.Path C09.Model Gen.C09Tables Gen.C09Skel.
Open Scope Z_scope.

Theorem C09_limits_wf : ((0 <? MAX_MEM) && (0 <? MAX_ENTRY) && (0 <? MAX_7Z)) = true.
Proof. vm_compute. reflexivity. Qed.
Print Assumptions C09_limits_wf.

(* every extension the router sends to read_archive (registry key, alias, compound suffix) is skipped by
   the modelled _should_skip_file for today's tables (ASCII lower-casing, empty MIME database) *)
Definition ascii_lower (x : str) : str :=
  map (fun c => if (65 <=? c)%N && (c <=? 90)%N then (c + 32)%N else c) x.
Definition archive_exts : list str :=
  map (fun kv => DOT :: fst kv) (filter (fun kv => extractor_eqb (snd kv) ARCHIVE) (R.registry T))
  ++ map (fun ab => DOT :: fst ab) (filter (fun ab => arch_type T ARCHIVE (snd ab)) (R.aliases T))
  ++ map fst (filter (fun cf => arch_type T ARCHIVE (snd cf)) (R.compound T)).
Theorem C09_routed_archive_exts_skipped :
  (negb (Nat.eqb (List.length archive_exts) 0)
   && forallb (fun e => should_skip T ascii_lower (fun _ => None) NE ARCHIVE (s "d/x" ++ e) (s "x" ++ e)) archive_exts) = true.
Proof. vm_compute. reflexivity. Qed.
Print Assumptions C09_routed_archive_exts_skipped.

(* read_archive is what the registry names (routes_to_archive is not vacuous) *)
Theorem C09_archive_registered : existsb (fun kv => extractor_eqb (snd kv) ARCHIVE) (R.registry T) = true.
Proof. vm_compute. reflexivity. Qed.
Print Assumptions C09_archive_registered.

(* ZIP/TAR path: no file-system call at all *)
Theorem C09_skel_zip_tar_no_fs : skel_no_fs zip_tar_calls = true.
Proof. vm_compute. reflexivity. Qed.
Print Assumptions C09_skel_zip_tar_no_fs.

(* members are read through zf.read / tf.extractfile, regular files only *)
Theorem C09_skel_zip_tar_reads_in_memory :
  (skel_has zip_tar_calls (s "zf.read") && skel_has zip_tar_calls (s "tf.extractfile") && tar_isreg_guard) = true.
Proof. vm_compute. reflexivity. Qed.
Print Assumptions C09_skel_zip_tar_reads_in_memory.

(* 7z read-back: every path-taking call receives the result of _safe_join *)
Theorem C09_skel_7z_paths_from_safe_join : path_calls_confined sevenz_pairs = true.
Proof. vm_compute. reflexivity. Qed.
Print Assumptions C09_skel_7z_paths_from_safe_join.

(* the skip rule before the repair (extension table as it was, no router test), with today's routing
   tables, ASCII lower-casing and an empty MIME database: x.gz is dispatched to read_archive, is not
   skipped, and produces results *)
Definition NE_orig : list str :=
  map s [".zip"; ".tar"; ".tar.gz"; ".tgz"; ".tar.bz2"; ".tbz2"; ".tar.xz"; ".txz"; ".7z"]%string.
Theorem C09_skips_refuted_orig :
  exists m : member,
    routes_to_archive T ascii_lower (fun _ => None) ARCHIVE (basename (m_name m)) = true /\
    member_results_orig T ascii_lower (fun _ => None) NE_orig MAX_MEM MAX_ENTRY m <> O.
Proof.
  exists {| m_name := s "d/x.gz"; m_regular := true; m_declared := 10; m_datalen := 10; m_yields := 1 |}.
  vm_compute. split; [reflexivity | discriminate].
Qed.
Print Assumptions C09_skips_refuted_orig.

(* today's tarfile.REGULAR_TYPES contains none of the link / device / directory / fifo type flags (premise of
   C09_tar_links_devices_never_read) *)
Theorem C09_tar_regular_types_wf : reg_types_wf TAR_REGULAR_TYPES = true.
Proof. vm_compute. reflexivity. Qed.
Print Assumptions C09_tar_regular_types_wf.
