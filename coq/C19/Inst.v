(* C19 — obligations re-decided by the kernel for the tables generated from /repo on this run, non-vacuity of the
   hypotheses of C19/Props.v, and the refutations of the same statements for the unrepaired variant `orig`
   (witnesses replayed on the real code by tools/props/c19.py). *)
From S2T Require Import Lib.PyStr C19.Model C19.Proofs C19.TextSpec C19.Depth C19.Formulas Gen.C19Tables.
From Coq Require Import List Bool NArith.
Import ListNotations.
Open Scope N_scope.

(* premise of C19_balanced *)
Theorem C19_tables_wf : wf T = true.
Proof. vm_compute. reflexivity. Qed.
Print Assumptions C19_tables_wf.

(* premises "not a skip tag" of the form theorems hold for every structural element name *)
Theorem C19_structural_not_skipped :
  forallb (fun n => negb (mem_str n (skip_tags T)))
    [s "t"; s "f"; s "sSup"; s "sSub"; s "sSubSup"; s "rad"; s "nary"; s "d"; s "m"; s "func"; s "bar"; s "acc";
     s "r"; s "e"; s "num"; s "den"; s "sub"; s "sup"; s "deg"; s "fName"; s "mr"; s "oMath"] = true.
Proof. vm_compute. reflexivity. Qed.
Print Assumptions C19_structural_not_skipped.

Definition E (name : string) (cs : list omml) : omml := Node (m_ns T ++ s name) [] None cs.
Definition run (x : str) : omml := E "r" [Node (m_ns T ++ s "t") [] (Some x) []].
Definition chr (name : string) (v : option str) : omml :=
  Node (m_ns T ++ s name) (match v with Some x => [(m_ns T ++ s "val", x)] | None => [] end) None [].

Definition w_nary_noval := E "oMath" [E "nary" [E "naryPr" [chr "chr" None]; E "sub" []; E "sup" []; E "e" [run (s "x")]]].
Definition w_two_radicals := E "oMath" [E "rad" [E "deg" []; E "e" [run (s "(")]]; E "rad" [E "deg" []; E "e" [run (s "(")]]; run (s "a)")].
Definition w_deg_order := E "oMath" [E "rad" [E "deg" [run (s "a)")]; E "e" [E "rad" [E "e" [run (s "(")]]]]].
Definition w_nested_nary := E "oMath" [E "nary" [E "sub" []; E "sup" []; E "e" [E "nary" [E "naryPr" [chr "chr" (Some [8719])]; E "e" [run (s "x")]]]]].
Definition w_nested_delim := E "oMath" [E "d" [E "dPr" []; E "e" [run (s "a+"); E "d" [E "dPr" [chr "begChr" (Some (s "[")); chr "endChr" (Some (s "]"))]; E "e" [run (s "b")]]]]].
Definition w_beg_noval := E "oMath" [E "d" [E "dPr" [chr "begChr" None]; E "e" [run (s "x")]]].

Definition out_of (r : result) : str := match r with Ok o => chars o | Raise c => s "RAISE:" ++ c end.

(* non-vacuity of C19_balanced's hypothesis, on the very trees that break the unrepaired code *)
Theorem C19_nobrace_witnesses : forallb nobrace [w_nary_noval; w_two_radicals; w_deg_order; w_nested_nary; w_nested_delim; w_beg_noval] = true.
Proof. vm_compute. reflexivity. Qed.
Print Assumptions C19_nobrace_witnesses.

(* ---- the statements are FALSE of the unrepaired code (variant orig) *)
Theorem C19_orig_total_refuted : exists t, convert T orig t = Raise (s "TypeError").
Proof. exists w_nary_noval. vm_compute. reflexivity. Qed.
Print Assumptions C19_orig_total_refuted.

Theorem C19_orig_balanced_refuted :
  exists t out, nobrace t = true /\ convert T orig t = Ok out /\ balanced (chars out) = false.
Proof. exists w_two_radicals. eexists. split; [vm_compute; reflexivity|]. split; vm_compute; reflexivity. Qed.
Print Assumptions C19_orig_balanced_refuted.

Theorem C19_orig_balanced_refuted_deg_order :
  exists t out, nobrace t = true /\ convert T orig t = Ok out /\ balanced (chars out) = false.
Proof. exists w_deg_order. eexists. split; [vm_compute; reflexivity|]. split; vm_compute; reflexivity. Qed.
Print Assumptions C19_orig_balanced_refuted_deg_order.

(* an n-ary / delimiter without own operator takes the one of a nested element *)
Theorem C19_orig_own_operator_refuted :
  out_of (convert T orig w_nested_nary) = s "\prod \prod x" /\ out_of (convert T orig w_nested_delim) = s "[a+[b]]".
Proof. split; vm_compute; reflexivity. Qed.
Print Assumptions C19_orig_own_operator_refuted.

Theorem C19_orig_none_rendered : out_of (convert T orig w_beg_noval) = s "Nonex)".
Proof. vm_compute. reflexivity. Qed.
Print Assumptions C19_orig_none_rendered.

(* ---- and the repaired code gives the intended results on the same trees *)
Theorem C19_known_witnesses_repaired :
  map (fun t => out_of (convert T fixed t)) [w_nary_noval; w_two_radicals; w_deg_order; w_nested_nary; w_nested_delim; w_beg_noval]
  = [s "\sum x"; s "\sqrt{\sqrt{a}}"; s "\sqrt[a)]{\sqrt{}}"; s "\sum \prod x"; s "(a+[b])"; s "(x)"].
Proof. vm_compute. reflexivity. Qed.
Print Assumptions C19_known_witnesses_repaired.

(* ---- premise of C19_texts_in_order_partial for today's tables, and non-vacuity of its tree hypothesis:
   a formula with fraction, radical with degree, n-ary with limits, delimiter, a matrix nested in a matrix cell,
   function, accent and Greek text satisfies texts_ok_root, and the equation's two sides are this string *)
Theorem C19_tables_wf_txt : wf_txt T = true.
Proof. vm_compute. reflexivity. Qed.
Print Assumptions C19_tables_wf_txt.

Definition w_texts := E "oMath"
  [E "f" [E "fPr" []; E "num" [run (s "a")]; E "den" [run [946]]];
   E "rad" [E "radPr" []; E "deg" [run (s "3")]; E "e" [run (s "x+1")]];
   E "nary" [E "naryPr" [chr "chr" (Some [8719])]; E "sub" [run (s "i")]; E "sup" [run (s "n")]; E "e" [run (s "p")]];
   E "d" [E "dPr" []; E "e" [run (s "u")]; E "e" [run (s "v")]];
   E "m" [E "mPr" []; E "mr" [E "e" [E "m" [E "mr" [E "e" [run (s "k")]; E "e" [run (s "l")]]]]; E "e" [run (s "w")]]];
   E "func" [E "fName" [run (s "sin")]; E "e" [run (s "y")]];
   E "acc" [E "accPr" [chr "chr" (Some [771])]; E "e" [run (s "z")]]].

Theorem C19_texts_ok_nonvacuous :
  texts_ok_root T w_texts = true
  /\ greek_str T (texts_root w_texts) = s "a\beta3x+1inpuvklwsinyz"
  /\ out_of (convert T fixed w_texts)
     = s "\frac{a}{\beta}\sqrt[3]{x+1}\prod_{i}^{n} p(u, v)\begin{matrix}\begin{matrix}k & l\end{matrix} & w\end{matrix}\sin{y}\tilde{z}".
Proof. repeat split; vm_compute; reflexivity. Qed.
Print Assumptions C19_texts_ok_nonvacuous.

(* ---- non-vacuity of C19_depth_equals_height_default and the depth of the sample formula *)
Fixpoint chain (n : nat) : omml := match n with O => E "e" [] | S k => E "box" [E "e" [chain k]] end.
Theorem C19_depth_examples :
  all_default T (chain 50) = true /\ rec_depth T (chain 50) = 101%nat /\ height (chain 50) = 101%nat
  /\ conv_depth T w_texts = 6%nat /\ height w_texts = 9%nat.
Proof. repeat split; vm_compute; reflexivity. Qed.
Print Assumptions C19_depth_examples.

(* ---- the formula collectors on a sample scope: a paragraph with an inline formula, a display paragraph with two
   m:oMath (the second is inline), a blank formula (dropped) *)
Definition w_scope := Node (s "body") [] None
  [Node (s "p") [] None [E "oMath" [run (s "a")]];
   Node (s "p") [] None [E "oMathPara" [E "oMathParaPr" []; E "oMath" [run (s "b")]; E "oMath" [run (s "c")]]];
   Node (s "p") [] None [E "oMath" [run (s " ")]]].
Theorem C19_formulas_example :
  collect T w_scope = [(s "b", true); (s "a", false); (s "c", false)]
  /\ map id_of (located T w_scope) = [[1; 0; 1]; [0; 0]; [1; 0; 2]; [2; 0]]%nat.
Proof. split; vm_compute; reflexivity. Qed.
Print Assumptions C19_formulas_example.
