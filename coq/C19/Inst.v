From S2T Require Import Lib.PyStr C19.Model C19.Proofs Gen.C19Tables.
