(* C19 — obligations re-decided by the kernel for the tables generated from /repo on this run, non-vacuity of the
   hypotheses of C19/Props.v, and the refutations of the same statements for the unrepaired variant `orig`
   (witnesses replayed on the real code by tools/props/c19.py). *)
From S2T Require Import Lib.PyStr C19.Model C19.Proofs Gen.C19Tables.
From Coq Require Import List Bool NArith.
Import ListNotations.
Open Scope N_scope.

(* premise of C19_balanced *)
Theorem C19_tables_wf : wf T = true.
Proof. vm_compute. reflexivity. Qed.
Print Assumptions C19_tables_wf.

(* premises "not a skip tag" of the form theorems hold for every structural element name *)
Theorem C19_structural_not_skipped :
  forallb (fun n => negb (mem_str n (skip_tags T)))
    [s "t"; s "f"; s "sSup"; s "sSub"; s "sSubSup"; s "rad"; s "nary"; s "d"; s "m"; s "func"; s "bar"; s "acc";
     s "r"; s "e"; s "num"; s "den"; s "sub"; s "sup"; s "deg"; s "fName"; s "mr"; s "oMath"] = true.
Proof. vm_compute. reflexivity. Qed.
Print Assumptions C19_structural_not_skipped.

Definition E (name : string) (cs : list omml) : omml := Node (m_ns T ++ s name) [] None cs.
Definition run (x : str) : omml := E "r" [Node (m_ns T ++ s "t") [] (Some x) []].
Definition chr (name : string) (v : option str) : omml :=
  Node (m_ns T ++ s name) (match v with Some x => [(m_ns T ++ s "val", x)] | None => [] end) None [].

Definition w_nary_noval := E "oMath" [E "nary" [E "naryPr" [chr "chr" None]; E "sub" []; E "sup" []; E "e" [run (s "x")]]].
Definition w_two_radicals := E "oMath" [E "rad" [E "deg" []; E "e" [run (s "(")]]; E "rad" [E "deg" []; E "e" [run (s "(")]]; run (s "a)")].
Definition w_deg_order := E "oMath" [E "rad" [E "deg" [run (s "a)")]; E "e" [E "rad" [E "e" [run (s "(")]]]]].
Definition w_nested_nary := E "oMath" [E "nary" [E "sub" []; E "sup" []; E "e" [E "nary" [E "naryPr" [chr "chr" (Some [8719])]; E "e" [run (s "x")]]]]].
Definition w_nested_delim := E "oMath" [E "d" [E "dPr" []; E "e" [run (s "a+"); E "d" [E "dPr" [chr "begChr" (Some (s "[")); chr "endChr" (Some (s "]"))]; E "e" [run (s "b")]]]]].
Definition w_beg_noval := E "oMath" [E "d" [E "dPr" [chr "begChr" None]; E "e" [run (s "x")]]].

Definition out_of (r : result) : str := match r with Ok o => chars o | Raise c => s "RAISE:" ++ c end.

(* non-vacuity of C19_balanced's hypothesis, on the very trees that break the unrepaired code *)
Theorem C19_nobrace_witnesses : forallb nobrace [w_nary_noval; w_two_radicals; w_deg_order; w_nested_nary; w_nested_delim; w_beg_noval] = true.
Proof. vm_compute. reflexivity. Qed.
Print Assumptions C19_nobrace_witnesses.

(* ---- the statements are FALSE of the unrepaired code (variant orig) *)
Theorem C19_orig_total_refuted : exists t, convert T orig t = Raise (s "TypeError").
Proof. exists w_nary_noval. vm_compute. reflexivity. Qed.
Print Assumptions C19_orig_total_refuted.

Theorem C19_orig_balanced_refuted :
  exists t out, nobrace t = true /\ convert T orig t = Ok out /\ balanced (chars out) = false.
Proof. exists w_two_radicals. eexists. split; [vm_compute; reflexivity|]. split; vm_compute; reflexivity. Qed.
Print Assumptions C19_orig_balanced_refuted.

Theorem C19_orig_balanced_refuted_deg_order :
  exists t out, nobrace t = true /\ convert T orig t = Ok out /\ balanced (chars out) = false.
Proof. exists w_deg_order. eexists. split; [vm_compute; reflexivity|]. split; vm_compute; reflexivity. Qed.
Print Assumptions C19_orig_balanced_refuted_deg_order.

(* an n-ary / delimiter without own operator takes the one of a nested element *)
Theorem C19_orig_own_operator_refuted :
  out_of (convert T orig w_nested_nary) = s "\prod \prod x" /\ out_of (convert T orig w_nested_delim) = s "[a+[b]]".
Proof. split; vm_compute; reflexivity. Qed.
Print Assumptions C19_orig_own_operator_refuted.

Theorem C19_orig_none_rendered : out_of (convert T orig w_beg_noval) = s "Nonex)".
Proof. vm_compute. reflexivity. Qed.
Print Assumptions C19_orig_none_rendered.

(* ---- and the repaired code gives the intended results on the same trees *)
Theorem C19_known_witnesses_repaired :
  map (fun t => out_of (convert T fixed t)) [w_nary_noval; w_two_radicals; w_deg_order; w_nested_nary; w_nested_delim; w_beg_noval]
  = [s "\sum x"; s "\sqrt{\sqrt{a}}"; s "\sqrt[a)]{\sqrt{}}"; s "\sum \prod x"; s "(a+[b])"; s "(x)"].
Proof. vm_compute. reflexivity. Qed.
Print Assumptions C19_known_witnesses_repaired.
