(* C19 — specification vocabulary for "every run's text exactly once, in source order" (definitions only).
   texts t        : the texts of all elements with local name `t` in the subtree, document (pre-)order
   texts_ok T t   : boolean hypothesis of C19_texts_in_order_partial — the tree is schema-shaped (twin of
                    schema_ok in tools/props/c19.py), run texts contain neither whitespace nor an opening
                    bracket of the malformed-radical test, and every radical has a radicand with text.
   wf_txt T       : what the theorem needs from the tables (re-decided in C19/Inst.v). *)
From S2T Require Import Lib.PyStr C19.Model.
From Coq Require Import List NArith Bool.
Import ListNotations.
Open Scope N_scope.

Fixpoint has_t (t : omml) {struct t} : bool :=
  match t with
  | Node tag _ _ cs => str_eqb (local_name tag) (s "t") || existsb has_t cs
  end.

Definition opt_text (x : option str) : str := match x with Some v => v | None => [] end.

Fixpoint texts (t : omml) {struct t} : str :=
  match t with
  | Node tag _ text cs =>
    (if str_eqb (local_name tag) (s "t") then opt_text text else []) ++ flat_map texts cs
  end.

Definition slot_texts (name : str) (cs : list omml) : str :=
  match find_child name cs with Some c => texts c | None => [] end.

(* slots strictly after the first occurrence of x *)
Fixpoint after (x : str) (ss : list str) : option (list str) :=
  match ss with
  | [] => None
  | y :: r => if str_eqb x y then Some r else after x r
  end.

Section Shape.
  Variable rec : omml -> bool.
  (* children carrying a slot tag appear at most once each and in slot order and satisfy rec; the others hold no text *)
  Fixpoint shape (all ss : list str) (cs : list omml) : bool :=
    match cs with
    | [] => true
    | c :: r => if mem_str (otag c) all
                then match after (otag c) ss with
                     | Some ss' => rec c && shape all ss' r
                     | None => false
                     end
                else negb (has_t c) && shape all ss r
    end.
End Shape.

Section Ok.
  Variable T : tables.

  Definition good (c : N) : bool :=
    negb (mem_N c (spaces T)) && negb (mem_N c (List.concat (open_brackets T))).

  Definition slots (names : list str) : list str := map (fun x => m_ns T ++ x) names.

  Fixpoint texts_ok (t : omml) {struct t} : bool :=
    match t with
    | Node tag attrs text cs =>
      let M := fun x => m_ns T ++ x in
      let lt := local_name tag in
      let sh := fun names => shape texts_ok (slots names) (slots names) cs in
      if mem_str lt (skip_tags T) then negb (str_eqb lt (s "t")) && negb (existsb has_t cs)
      else if str_eqb lt (s "t") then negb (existsb has_t cs) && forallb good (opt_text text)
      else if str_eqb lt (s "f") then sh [s "num"; s "den"]
      else if str_eqb lt (s "sSup") then sh [s "e"; s "sup"]
      else if str_eqb lt (s "sSub") then sh [s "e"; s "sub"]
      else if str_eqb lt (s "sSubSup") then sh [s "e"; s "sub"; s "sup"]
      else if str_eqb lt (s "rad") then
        sh [s "deg"; s "e"] && nonempty (slot_texts (M (s "e")) cs)
      else if str_eqb lt (s "nary") then sh [s "sub"; s "sup"; s "e"]
      else if str_eqb lt (s "d") then
        forallb (fun c => if str_eqb (otag c) (M (s "e")) then texts_ok c else negb (has_t c)) cs
      else if str_eqb lt (s "m") && nonempty (filter (fun c => str_eqb (otag c) (M (s "mr"))) cs) then
        forallb (fun c => if str_eqb (otag c) (M (s "mr"))
                          then negb (str_eqb (local_name (otag c)) (s "t")) &&
                               forallb (fun g => if str_eqb (otag g) (M (s "e")) then texts_ok g else negb (has_t g))
                                       (ochildren c)
                          else negb (has_t c)) cs
      else if str_eqb lt (s "func") then sh [s "fName"; s "e"]
      else if str_eqb lt (s "bar") then sh [s "e"]
      else if str_eqb lt (s "acc") then sh [s "e"]
      else forallb texts_ok cs
    end.

  (* the root's own tag is ignored by omml_to_latex: its children are converted *)
  Definition texts_ok_root (t : omml) : bool := forallb texts_ok (ochildren t).
  Definition texts_root (t : omml) : str := flat_map texts (ochildren t).

  Definition wf_txt : bool :=
    forallb (fun kv => forallb (fun c => negb (mem_N c (spaces T))) (snd kv) && existsb good (snd kv)) (greek T)
    && forallb (fun kv => str_eqb (snd kv) (92 :: fst kv)) (func_map T).
End Ok.
