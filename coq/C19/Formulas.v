(* C19 — the call sites that collect formulas: docx_extractor._extract_formulas_from_context and
   pptx_extractor._extract_formulas_from_element (identical logic): the first m:oMath child of every m:oMathPara
   (document order) is a display formula, every other m:oMath of the scope is an inline formula, formulas whose
   conversion is blank are dropped.  Python's id(element) is modelled by the element's path from the scope root.
   Definitions, then proofs. *)
From Coq Require Import List NArith Bool Lia PeanoNat.
From S2T Require Import Lib.PyStr C19.Model C19.Proofs.
Import ListNotations.
Local Open Scope nat_scope.
Local Open Scope list_scope.

Definition path := list nat.
Fixpoint path_eqb (a b : path) : bool :=
  match a, b with
  | [], [] => true
  | x :: a', y :: b' => Nat.eqb x y && path_eqb a' b'
  | _, _ => false
  end.

Section Iter.
  Variable rec : path -> omml -> list (path * omml).
  Fixpoint iter_list (p : path) (i : nat) (l : list omml) : list (path * omml) :=
    match l with
    | [] => []
    | c :: r => rec (p ++ [i]) c ++ iter_list p (S i) r
    end.
End Iter.
(* scope.iter(): the element itself and all descendants in document order, each with its path *)
Fixpoint iter_from (p : path) (t : omml) {struct t} : list (path * omml) :=
  match t with Node _ _ _ cs => (p, t) :: iter_list iter_from p O cs end.

(* para.find(M_OMATH) with the child's position *)
Fixpoint find_idx (name : str) (i : nat) (l : list omml) : option (nat * omml) :=
  match l with
  | [] => None
  | c :: r => if str_eqb (otag c) name then Some (i, c) else find_idx name (S i) r
  end.

Definition strip_s (T : tables) (x : str) : str :=
  rev (dropWhile (fun c => mem_N c (spaces T)) (rev (dropWhile (fun c => mem_N c (spaces T)) x))).

Section Collect.
  Variable T : tables.
  Definition OM : str := (m_ns T ++ s "oMath")%list.
  Definition PARA : str := (m_ns T ++ s "oMathPara")%list.

  Definition first_of (pe : path * omml) : list (path * omml) :=
    if str_eqb (otag (snd pe)) PARA
    then match find_idx OM O (ochildren (snd pe)) with
         | Some (j, c) => [((fst pe ++ [j])%list, c)]
         | None => []
         end
    else [].
  Definition firsts (scope : omml) : list (path * omml) := flat_map first_of (iter_from [] scope).
  Definition inlines (scope : omml) : list (path * omml) :=
    filter (fun pe => str_eqb (otag (snd pe)) OM
                      && negb (existsb (path_eqb (fst pe)) (map fst (firsts scope))))
           (iter_from [] scope).
  (* every formula element with its identity and the display flag, in the order of the result list *)
  Definition located (scope : omml) : list (path * omml * bool) :=
    (map (fun pe => (pe, true)) (firsts scope) ++ map (fun pe => (pe, false)) (inlines scope))%list.
  Definition latex (om : omml) : str := chars (snd (convert_l T fixed om)).
  Definition nonblank (x : str) : bool := nonempty (strip_s T x).
  (* the list of (latex, is_display) the extractors return *)
  Definition collect (scope : omml) : list (str * bool) :=
    filter (fun lb => nonblank (fst lb)) (map (fun x => (latex (snd (fst x)), snd x)) (located scope)).
End Collect.

(* ------------------------------------------------------------------ proofs *)
Lemma path_eqb_eq a : forall b, path_eqb a b = true <-> a = b.
Proof.
  induction a as [|x a IH]; destruct b as [|y b]; simpl; split; intro H; try reflexivity; try discriminate.
  - apply andb_true_iff in H as [H1 H2]. apply Nat.eqb_eq in H1. apply IH in H2. congruence.
  - inversion H; subst. rewrite Nat.eqb_refl. simpl. apply IH. reflexivity.
Qed.

Lemma nodup_app_disjoint (a b : list path) : NoDup a -> NoDup b -> (forall q, In q a -> ~ In q b) -> NoDup (a ++ b).
Proof.
  induction a as [|y ys IH]; intros Na Nb D; [exact Nb|]. simpl. inversion Na as [|? ? Hy Hys]; subst. constructor.
  - intro Hin. apply in_app_or in Hin as [Hin|Hin]; [contradiction | exact (D y (or_introl eq_refl) Hin)].
  - apply IH; [exact Hys | exact Nb | intros q Hq; apply D; right; exact Hq].
Qed.

Lemma existsb_path p l : existsb (path_eqb p) l = true <-> In p l.
Proof.
  rewrite existsb_exists. split.
  - intros (q & Hq & E). apply path_eqb_eq in E. subst. exact Hq.
  - intro H. exists p. split; [exact H | apply path_eqb_eq; reflexivity].
Qed.

(* every path produced below p extends p by at least one step >= the starting index *)
Lemma iter_prefix : forall t p q x, In (q, x) (iter_from p t) -> exists r, q = (p ++ r)%list.
Proof.
  apply (omml_ind' (fun t => forall p q x, In (q, x) (iter_from p t) -> exists r, q = (p ++ r)%list)).
  intros tag a tx cs IH p q x H. cbn [iter_from] in H. destruct H as [H|H].
  - inversion H; subst. exists []. rewrite app_nil_r. reflexivity.
  - assert (G : forall l i, Forall (fun t => forall p q x, In (q, x) (iter_from p t) -> exists r, q = (p ++ r)%list) l ->
                In (q, x) (iter_list iter_from p i l) -> exists r, q = (p ++ r)%list).
    { induction l as [|c l IHl]; intros i HF Hin; [contradiction|]. inversion HF; subst. simpl in Hin.
      apply in_app_or in Hin as [Hin|Hin]; [|exact (IHl (S i) H3 Hin)].
      destruct (H2 _ _ _ Hin) as [r Hr]. exists (i :: r). rewrite Hr, <- app_assoc. reflexivity. }
    exact (G cs O IH H).
Qed.

Lemma iter_list_step : forall l p i q x,
  In (q, x) (iter_list iter_from p i l) -> exists j r, (i <= j)%nat /\ q = (p ++ j :: r)%list.
Proof.
  induction l as [|c l IH]; intros p i q x H; [contradiction|]. simpl in H. apply in_app_or in H as [H|H].
  - destruct (iter_prefix _ _ _ _ H) as [r Hr]. exists i, r. split; [lia|]. rewrite Hr, <- app_assoc. reflexivity.
  - destruct (IH p (S i) q x H) as (j & r & Hj & Hq). exists j, r. split; [lia | exact Hq].
Qed.

Lemma iter_nodup : forall t p, NoDup (map fst (iter_from p t)).
Proof.
  apply (omml_ind' (fun t => forall p, NoDup (map fst (iter_from p t)))).
  intros tag a tx cs IH p. cbn [iter_from map fst]. constructor.
  - intro Hin. apply in_map_iff in Hin as ([q x] & Hq & Hin). simpl in Hq. subst q.
    destruct (iter_list_step _ _ _ _ _ Hin) as (j & r & _ & E).
    apply (f_equal (@List.length nat)) in E. rewrite app_length in E. simpl in E. lia.
  - assert (G : forall l i, Forall (fun t => forall p, NoDup (map fst (iter_from p t))) l ->
                NoDup (map fst (iter_list iter_from p i l))).
    { induction l as [|c l IHl]; intros i HF; [constructor|]. inversion HF as [|? ? Hc Hl]; subst. simpl. rewrite map_app.
      assert (D : forall q, In q (map fst (iter_from (p ++ [i]) c)) -> ~ In q (map fst (iter_list iter_from p (S i) l))).
      { intros q G1 G4. apply in_map_iff in G1 as ([q1 x1] & E1 & G1). apply in_map_iff in G4 as ([q2 x2] & E2 & G4).
        simpl in *. subst q1 q2. destruct (iter_prefix _ _ _ _ G1) as [r1 R1].
        destruct (iter_list_step _ _ _ _ _ G4) as (j & r2 & Hj & R2). rewrite R1, <- app_assoc in R2.
        apply app_inv_head in R2. simpl in R2. inversion R2. lia. }
      specialize (Hc (p ++ [i])%list). specialize (IHl (S i) Hl). clear HF Hl.
      induction (map fst (iter_from (p ++ [i]) c)) as [|y ys IHy]; [exact IHl|].
      simpl. inversion Hc as [|? ? Hy Hys]; subst. constructor.
      - intro Hin. apply in_app_or in Hin as [Hin|Hin]; [contradiction | exact (D y (or_introl eq_refl) Hin)].
      - apply IHy; [exact Hys | intros q Hq; apply D; right; exact Hq]. }
    exact (G cs O IH).
Qed.

Lemma find_idx_spec name : forall l i j c, find_idx name i l = Some (j, c) ->
  exists k, j = (i + k)%nat /\ nth_error l k = Some c /\ otag c = name.
Proof.
  induction l as [|d l IH]; intros i j c H; simpl in H; [discriminate|].
  destruct (str_eqb (otag d) name) eqn:E.
  - inversion H; subst. exists O. apply str_eqb_eq in E. repeat split; [lia | assumption].
  - destruct (IH (S i) j c H) as (k & Hj & Hn & Ht). exists (S k). repeat split; [lia | exact Hn | exact Ht].
Qed.

Lemma iter_child : forall l p i k c, nth_error l k = Some c -> In ((p ++ [i + k])%list, c) (iter_list iter_from p i l).
Proof.
  induction l as [|d l IH]; intros p i k c H; destruct k; simpl in H; try discriminate.
  - inversion H; subst. simpl. apply in_or_app. left. rewrite Nat.add_0_r. destruct c. left. reflexivity.
  - simpl. apply in_or_app. right. replace (i + S k)%nat with (S i + k)%nat by lia. apply IH. exact H.
Qed.

(* the descendants of an enumerated element are enumerated with extended paths *)
Lemma iter_sub : forall t p q x c j, In (q, x) (iter_from p t) ->
  nth_error (ochildren x) j = Some c -> In ((q ++ [j])%list, c) (iter_from p t).
Proof.
  apply (omml_ind' (fun t => forall p q x c j, In (q, x) (iter_from p t) ->
            nth_error (ochildren x) j = Some c -> In ((q ++ [j])%list, c) (iter_from p t))).
  intros tag a tx cs IH p q x c j H Hn. cbn [iter_from] in H |- *. destruct H as [H|H].
  - inversion H; subst. right. cbn [ochildren] in Hn. exact (iter_child cs q O j c Hn).
  - right. revert H. generalize O. induction cs as [|d l IHl]; intros i H; [contradiction|].
    inversion IH; subst. simpl in H |- *. apply in_app_or in H as [H|H]; apply in_or_app.
    + left. exact (H2 _ _ _ _ _ H Hn).
    + right. exact (IHl H3 (S i) H).
Qed.

Section Thms.
  Variable T : tables.

  Lemma firsts_spec scope q c : In (q, c) (firsts T scope) <->
    exists p para j, In (p, para) (iter_from [] scope) /\ otag para = PARA T
                     /\ find_idx (OM T) O (ochildren para) = Some (j, c) /\ q = (p ++ [j])%list.
  Proof.
    unfold firsts. rewrite in_flat_map. split.
    - intros ([p para] & Hin & Hf). unfold first_of in Hf. simpl in Hf.
      destruct (str_eqb (otag para) (PARA T)) eqn:E; [|contradiction].
      destruct (find_idx (OM T) O (ochildren para)) as [[j c']|] eqn:F; [|contradiction].
      destruct Hf as [Hf|[]]. inversion Hf; subst. exists p, para, j. apply str_eqb_eq in E. auto.
    - intros (p & para & j & Hin & Ht & F & ->). exists (p, para). split; [exact Hin|].
      unfold first_of. simpl. rewrite Ht, str_eqb_refl, F. left. reflexivity.
  Qed.

  Lemma firsts_in_iter scope q c : In (q, c) (firsts T scope) -> In (q, c) (iter_from [] scope) /\ otag c = OM T.
  Proof.
    intro H. apply firsts_spec in H as (p & para & j & Hin & _ & F & ->).
    destruct (find_idx_spec _ _ _ _ _ F) as (k & Hj & Hn & Ht). simpl in Hj. subst j.
    split; [exact (iter_sub scope [] p para c k Hin Hn) | exact Ht].
  Qed.

  Lemma firsts_nodup scope : NoDup (map fst (firsts T scope)).
  Proof.
    unfold firsts. pose proof (iter_nodup scope []) as N.
    induction (iter_from [] scope) as [|[p e] l IH]; [constructor|].
    simpl in N. inversion N as [|? ? Hp Hl]; subst. simpl. rewrite map_app. specialize (IH Hl).
    unfold first_of at 1. simpl. destruct (str_eqb (otag e) (PARA T)); [|exact IH].
    destruct (find_idx (OM T) O (ochildren e)) as [[j c]|]; [|exact IH]. simpl. constructor; [|exact IH].
    intro Hin. apply in_map_iff in Hin as ([q x] & E & Hin). simpl in E. subst q.
    apply in_flat_map in Hin as ([p2 e2] & Hin2 & Hf). unfold first_of in Hf. simpl in Hf.
    destruct (str_eqb (otag e2) (PARA T)); [|contradiction].
    destruct (find_idx (OM T) O (ochildren e2)) as [[j2 c2]|]; [|contradiction].
    destruct Hf as [Hf|[]]. inversion Hf. apply app_inj_tail in H0 as [E _]. subst p2.
    apply Hp. apply in_map_iff. exists (p, e2). split; [reflexivity | exact Hin2].
  Qed.

  Definition id_of (x : path * omml * bool) : path := fst (fst x).

  (* nothing lost: every m:oMath of the scope is located *)
  Lemma located_complete scope p om : In (p, om) (iter_from [] scope) -> otag om = OM T ->
    In p (map id_of (located T scope)).
  Proof.
    intros Hin Ht. unfold located. rewrite map_app, !map_map. apply in_or_app.
    destruct (existsb (path_eqb p) (map fst (firsts T scope))) eqn:E.
    - left. apply existsb_path in E. apply in_map_iff in E as (pe & E1 & E2). apply in_map_iff. exists pe. auto.
    - right. apply in_map_iff. exists (p, om). split; [reflexivity|]. unfold inlines. apply filter_In.
      split; [exact Hin|]. simpl. rewrite Ht, str_eqb_refl, E. reflexivity.
  Qed.

  (* nothing invented *)
  Lemma located_sound scope p om b : In (p, om, b) (located T scope) ->
    In (p, om) (iter_from [] scope) /\ otag om = OM T.
  Proof.
    unfold located. intro H. apply in_app_or in H as [H|H]; apply in_map_iff in H as (pe & E & H); inversion E; subst.
    - exact (firsts_in_iter scope p om H).
    - unfold inlines in H. apply filter_In in H as [H1 H2]. simpl in H2. apply andb_true_iff in H2 as [H2 _].
      apply str_eqb_eq in H2. auto.
  Qed.

  (* each at most once *)
  Lemma located_nodup scope : NoDup (map id_of (located T scope)).
  Proof.
    unfold located. rewrite map_app, !map_map. simpl.
    assert (E1 : map (fun x : path * omml => id_of (x, true)) (firsts T scope) = map fst (firsts T scope)) by reflexivity.
    assert (E2 : map (fun x : path * omml => id_of (x, false)) (inlines T scope) = map fst (inlines T scope)) by reflexivity.
    rewrite E1, E2.
    assert (N2 : NoDup (map fst (inlines T scope))).
    { unfold inlines. pose proof (iter_nodup scope []) as N. induction (iter_from [] scope) as [|pe l IH]; [constructor|].
      simpl in N. inversion N; subst. simpl. destruct (_ && _); [|exact (IH H2)]. simpl. constructor; [|exact (IH H2)].
      intro Hin. apply H1. apply in_map_iff in Hin as (x & E & Hx). apply filter_In in Hx as [Hx _].
      apply in_map_iff. exists x. auto. }
    assert (D : forall q, In q (map fst (firsts T scope)) -> ~ In q (map fst (inlines T scope))).
    { intros q H1 H2. apply in_map_iff in H2 as (pe & E & H2). unfold inlines in H2. apply filter_In in H2 as [_ H2].
      apply andb_true_iff in H2 as [_ H2]. apply negb_true_iff in H2. subst q.
      apply existsb_path in H1. congruence. }
    exact (nodup_app_disjoint _ _ (firsts_nodup scope) N2 D).
  Qed.

  Lemma collect_unfold scope : collect T scope =
    filter (fun lb => nonblank T (fst lb))
           (map (fun pe => (latex T (snd pe), true)) (firsts T scope) ++ map (fun pe => (latex T (snd pe), false)) (inlines T scope)).
  Proof. unfold collect, located. rewrite map_app, !map_map. reflexivity. Qed.

  (* display exactly for the first m:oMath child of an m:oMathPara of the scope *)
  Lemma located_display scope p om : In (p, om, true) (located T scope) <->
    exists q para j, In (q, para) (iter_from [] scope) /\ otag para = PARA T
                     /\ find_idx (OM T) O (ochildren para) = Some (j, om) /\ p = (q ++ [j])%list.
  Proof.
    rewrite <- firsts_spec. unfold located. split.
    - intro H. apply in_app_or in H as [H|H]; apply in_map_iff in H as (pe & E & H); inversion E; subst; exact H.
    - intro H. apply in_or_app. left. apply in_map_iff. exists (p, om). auto.
  Qed.
End Thms.
