(* C19 — property theorems about the model of omml_to_latex with fixes/C19-*.patch applied (variant `fixed`),
   parametric in the tables T (today's tables: Gen/C19Tables.v; `wf T` is re-decided in C19/Inst.v).
   Only statements closed by `exact`, each followed by Print Assumptions.
   `chars out` is the LaTeX string the implementation returns; trees are arbitrary (no size bound). *)
From S2T Require Import Lib.PyStr C19.Model C19.Proofs C19.TextSpec C19.Texts C19.Depth C19.Formulas.
From Coq Require Import List Bool.
Import ListNotations.

(* converting ANY tree (or None) never raises *)
Theorem C19_total : forall (T : tables) (t : option omml), exists out, convert_opt T fixed t = Ok out.
Proof. intros T [t|]; [exact (convert_total T t) | exact (ex_intro _ [] eq_refl)]. Qed.
Print Assumptions C19_total.

(* the result is a function of the tree alone (no state survives a call) *)
Theorem C19_deterministic : forall T V t r1 r2, convert T V t = r1 -> convert T V t = r2 -> r1 = r2.
Proof. intros T V t r1 r2 H1 H2. exact (eq_trans (eq_sym H1) H2). Qed.
Print Assumptions C19_deterministic.

(* trees without literal braces in texts/attribute values give properly nested braces *)
Theorem C19_balanced : forall T t out, wf T = true -> nobrace t = true ->
  convert T fixed t = Ok out -> balanced (chars out) = true.
Proof. intros T t out H1 H2 H3. exact (convert_balanced T t out H1 H2 H3). Qed.
Print Assumptions C19_balanced.

(* ---- documented LaTeX form of each structural element, operands in place, state threaded in source order.
   Hypotheses: the element's local name, the name not being a skip tag, the slot tags of the operand nodes. *)
Theorem C19_form_frac : forall T V q tag attrs text n d,
  local_name tag = s "f" -> mem_str (s "f") (skip_tags T) = false ->
  otag n = m_ns T ++ s "num" -> otag d = m_ns T ++ s "den" ->
  process T V q (Node tag attrs text [n; d]) =
  let (q1, a) := process T V q n in let (q2, b) := process T V q1 d in
  (q2, lit (s "\frac{") ++ a ++ lit (s "}{") ++ b ++ lit (s "}")).
Proof. intros T V q tag attrs text n d. exact (form_frac T V q tag attrs text n d). Qed.
Print Assumptions C19_form_frac.

Theorem C19_form_sSup : forall T V q tag attrs text e p,
  local_name tag = s "sSup" -> mem_str (s "sSup") (skip_tags T) = false ->
  otag e = m_ns T ++ s "e" -> otag p = m_ns T ++ s "sup" ->
  process T V q (Node tag attrs text [e; p]) =
  let (q1, a) := process T V q e in let (q2, b) := process T V q1 p in (q2, a ++ lit (s "^{") ++ b ++ lit (s "}")).
Proof. intros T V q tag attrs text e p. exact (form_sSup T V q tag attrs text e p). Qed.
Print Assumptions C19_form_sSup.

Theorem C19_form_sSub : forall T V q tag attrs text e p,
  local_name tag = s "sSub" -> mem_str (s "sSub") (skip_tags T) = false ->
  otag e = m_ns T ++ s "e" -> otag p = m_ns T ++ s "sub" ->
  process T V q (Node tag attrs text [e; p]) =
  let (q1, a) := process T V q e in let (q2, b) := process T V q1 p in (q2, a ++ lit (s "_{") ++ b ++ lit (s "}")).
Proof. intros T V q tag attrs text e p. exact (form_sSub T V q tag attrs text e p). Qed.
Print Assumptions C19_form_sSub.

Theorem C19_form_sSubSup : forall T V q tag attrs text e b p,
  local_name tag = s "sSubSup" -> mem_str (s "sSubSup") (skip_tags T) = false ->
  otag e = m_ns T ++ s "e" -> otag b = m_ns T ++ s "sub" -> otag p = m_ns T ++ s "sup" ->
  process T V q (Node tag attrs text [e; b; p]) =
  let (q1, x) := process T V q e in let (q2, y) := process T V q1 b in let (q3, z) := process T V q2 p in
  (q3, x ++ lit (s "_{") ++ y ++ lit (s "}^{") ++ z ++ lit (s "}")).
Proof. intros T V q tag attrs text e b p. exact (form_sSubSup T V q tag attrs text e b p). Qed.
Print Assumptions C19_form_sSubSup.

(* radical: \sqrt[deg]{e}, \sqrt{e} when the degree is blank; a radicand that is a lone opening bracket opens a
   pending radical whose closer is pushed on the stack *)
Theorem C19_form_rad : forall T q tag attrs text g e,
  local_name tag = s "rad" -> mem_str (s "rad") (skip_tags T) = false ->
  otag g = m_ns T ++ s "deg" -> otag e = m_ns T ++ s "e" ->
  process T fixed q (Node tag attrs text [g; e]) =
  let (q1, d0) := process T fixed q g in let (q2, c) := process T fixed q1 e in
  let d := strip_l T d0 in
  let key := chars (strip_l T c) in
  if mem_str key (open_brackets T)
  then (set_pend (closer T key :: pend q2) q2,
        if nonempty d then lit (s "\sqrt[") ++ d ++ lit (s "]{") else lit (s "\sqrt{"))
  else (q2, if nonempty d then lit (s "\sqrt[") ++ d ++ lit (s "]{") ++ c ++ lit (s "}")
            else lit (s "\sqrt{") ++ c ++ lit (s "}")).
Proof. intros T q tag attrs text g e. exact (form_rad T q tag attrs text g e). Qed.
Print Assumptions C19_form_rad.

Theorem C19_form_nary : forall T q tag attrs text pa ca ct cc o b p e,
  local_name tag = s "nary" -> mem_str (s "nary") (skip_tags T) = false ->
  otag b = m_ns T ++ s "sub" -> otag p = m_ns T ++ s "sup" -> otag e = m_ns T ++ s "e" ->
  assoc (m_ns T ++ s "val") ca = Some o ->
  process T fixed q (Node tag attrs text
     [Node (m_ns T ++ s "naryPr") pa None [Node (m_ns T ++ s "chr") ca ct cc]; b; p; e]) =
  let (q1, x) := process T fixed q b in let (q2, y) := process T fixed q1 p in let (q3, z) := process T fixed q2 e in
  (q3, nary_op T o
       ++ (if nonempty (strip_l T x) then lit (s "_{") ++ x ++ lit (s "}") else [])
       ++ (if nonempty (strip_l T y) then lit (s "^{") ++ y ++ lit (s "}") else [])
       ++ lit (s " ") ++ z).
Proof. intros T q tag attrs text pa ca ct cc o b p e. exact (form_nary T q tag attrs text pa ca ct cc o b p e). Qed.
Print Assumptions C19_form_nary.

Theorem C19_form_delim : forall T q tag attrs text pa ba bt bc l ea et ec r e1 e2,
  local_name tag = s "d" -> mem_str (s "d") (skip_tags T) = false ->
  otag e1 = m_ns T ++ s "e" -> otag e2 = m_ns T ++ s "e" ->
  assoc (m_ns T ++ s "val") ba = Some l -> assoc (m_ns T ++ s "val") ea = Some r ->
  process T fixed q (Node tag attrs text
     [Node (m_ns T ++ s "dPr") pa None [Node (m_ns T ++ s "begChr") ba bt bc; Node (m_ns T ++ s "endChr") ea et ec]; e1; e2]) =
  let (q1, x) := process T fixed q e1 in let (q2, y) := process T fixed q1 e2 in
  (q2, lab OAttr l ++ (x ++ lit (s ", ") ++ y) ++ lab OAttr r).
Proof.
  intros T q tag attrs text pa ba bt bc l ea et ec r e1 e2.
  exact (form_delim T q tag attrs text pa ba bt bc l ea et ec r e1 e2).
Qed.
Print Assumptions C19_form_delim.

Theorem C19_form_matrix : forall T q tag attrs text ra rt c1 c2,
  local_name tag = s "m" -> mem_str (s "m") (skip_tags T) = false ->
  otag c1 = m_ns T ++ s "e" -> otag c2 = m_ns T ++ s "e" ->
  process T fixed q (Node tag attrs text [Node (m_ns T ++ s "mr") ra rt [c1; c2]]) =
  let (q1, x) := process T fixed q c1 in let (q2, y) := process T fixed q1 c2 in
  (q2, lit (s "\begin{matrix}") ++ (x ++ lit (s " & ") ++ y) ++ lit (s "\end{matrix}")).
Proof. intros T q tag attrs text ra rt c1 c2. exact (form_matrix T q tag attrs text ra rt c1 c2). Qed.
Print Assumptions C19_form_matrix.

Theorem C19_form_func : forall T V q tag attrs text f e,
  local_name tag = s "func" -> mem_str (s "func") (skip_tags T) = false ->
  otag f = m_ns T ++ s "fName" -> otag e = m_ns T ++ s "e" ->
  process T V q (Node tag attrs text [f; e]) =
  let (q1, name) := process T V q f in let (q2, a) := process T V q1 e in
  let key := strip_l T name in
  (q2, match assoc (chars key) (func_map T) with
       | Some v => if str_eqb v (92 :: chars key) then lit [92%N] ++ key else lit v
       | None => name
       end ++ lit (s "{") ++ a ++ lit (s "}")).
Proof. intros T V q tag attrs text f e. exact (form_func T V q tag attrs text f e). Qed.
Print Assumptions C19_form_func.

Theorem C19_form_bar : forall T V q tag attrs text e,
  local_name tag = s "bar" -> mem_str (s "bar") (skip_tags T) = false -> otag e = m_ns T ++ s "e" ->
  process T V q (Node tag attrs text [e]) =
  let (q1, a) := process T V q e in (q1, lit (s "\overline{") ++ a ++ lit (s "}")).
Proof. intros T V q tag attrs text e. exact (form_bar T V q tag attrs text e). Qed.
Print Assumptions C19_form_bar.

Theorem C19_form_acc : forall T q tag attrs text pa ca ct cc a e,
  local_name tag = s "acc" -> mem_str (s "acc") (skip_tags T) = false ->
  otag e = m_ns T ++ s "e" -> assoc (m_ns T ++ s "val") ca = Some a ->
  process T fixed q (Node tag attrs text [Node (m_ns T ++ s "accPr") pa None [Node (m_ns T ++ s "chr") ca ct cc]; e]) =
  let (q1, x) := process T fixed q e in
  (q1, lab OAttr (match assoc a (accent_map T) with Some v => v | None => hat end)
       ++ lit (s "{") ++ x ++ lit (s "}")).
Proof. intros T q tag attrs text pa ca ct cc a e. exact (form_acc T q tag attrs text pa ca ct cc a e). Qed.
Print Assumptions C19_form_acc.

(* an n-ary operator / delimiter / accent WITHOUT an own property child uses the default character, whatever
   operators occur inside its operands (ANY children list cs) *)
Theorem C19_own_operator : forall T q tag attrs text cs,
  (local_name tag = s "nary" -> mem_str (s "nary") (skip_tags T) = false ->
   forallb (fun c => negb (str_eqb (otag c) (m_ns T ++ s "naryPr"))) cs = true ->
   exists rest, snd (process T fixed q (Node tag attrs text cs)) = nary_op T sum_char ++ rest)
  /\ (local_name tag = s "d" -> mem_str (s "d") (skip_tags T) = false ->
      forallb (fun c => negb (str_eqb (otag c) (m_ns T ++ s "dPr"))) cs = true ->
      exists parts, snd (process T fixed q (Node tag attrs text cs)) =
                    lab OAttr (s "(") ++ join (lit (s ", ")) parts ++ lab OAttr (s ")"))
  /\ (local_name tag = s "acc" -> mem_str (s "acc") (skip_tags T) = false ->
      mem_str (s "m") (skip_tags T) = false ->
      forallb (fun c => negb (str_eqb (otag c) (m_ns T ++ s "accPr"))) cs = true ->
      exists a, snd (process T fixed q (Node tag attrs text cs)) =
                lab OAttr (match assoc (s "^") (accent_map T) with Some v => v | None => hat end)
                ++ lit (s "{") ++ a ++ lit (s "}")).
Proof.
  intros T q tag attrs text cs.
  exact (conj (own_nary T q tag attrs text cs) (conj (own_delim T q tag attrs text cs) (own_acc T q tag attrs text cs))).
Qed.
Print Assumptions C19_own_operator.

(* every run's mapped text exactly once, in source order — for the fragment `texts_ok_root` (C19/TextSpec.v):
   schema-shaped trees (slot children at most once and in schema order, no text inside property/skip elements),
   run texts without whitespace and without an opening bracket of the malformed-radical test, every radical with
   a radicand that contains text.  `txt_of out` are exactly the output characters that stem from run texts;
   the right-hand side is convert_greek_and_symbols of all m:t texts in document order.
   Outside the fragment the exact equation is false by design (stripped degree whitespace, blank limits, the
   lone-bracket radical consumes its bracket); there the check's marker oracle tests "once, in order". *)
Theorem C19_texts_in_order_partial : forall T t out,
  wf_txt T = true -> texts_ok_root T t = true -> convert T fixed t = Ok out ->
  txt_of out = greek_str T (texts_root t).
Proof. intros T t out H1 H2 H3. exact (convert_texts T H1 t out H2 H3). Qed.
Print Assumptions C19_texts_in_order_partial.

(* ---- recursion depth (C19/Depth.v).  conv_depth T t is the maximal number of nested process_element frames during
   omml_to_latex(t) (tied to the code by measuring the real frames on every generated tree); it never exceeds the
   height of the tree, so the conversion needs at most height(t) interpreter frames: no other source of depth. *)
Theorem C19_depth_bounded : forall T t,
  (conv_depth T t <= height t)%nat /\ (rec_depth T t <= S (height t))%nat.
Proof. intros T t. exact (conj (conv_depth_bd T t) (proj1 (rec_depth_bd T t))). Qed.
Print Assumptions C19_depth_bounded.

(* ... and for plain containers (every element on the default branch) the recursion depth EQUALS the tree depth,
   so the bound is attained: a chain of n nested containers needs n frames *)
Theorem C19_depth_equals_height_default : forall T t,
  (all_default T t = true -> rec_depth T t = height t)
  /\ (forallb (all_default T) (ochildren t) = true -> conv_depth T t = hmax (ochildren t)).
Proof. intros T t. exact (conj (rec_depth_default T t) (conv_depth_default T t)). Qed.
Print Assumptions C19_depth_equals_height_default.

(* ---- the formula collectors docx_extractor._extract_formulas_from_context / pptx_extractor._extract_formulas_from_element
   (C19/Formulas.v; an element's identity id(e) is its path from the scope root).  For EVERY scope tree:
   every m:oMath element of the scope is located (nothing lost), only m:oMath elements of the scope are located
   (nothing invented), none twice, and the display flag is set exactly for the first m:oMath child of an m:oMathPara. *)
Theorem C19_formulas_each_once : forall T scope,
  (forall p om, In (p, om) (iter_from [] scope) -> otag om = OM T -> In p (map id_of (located T scope)))
  /\ (forall p om b, In (p, om, b) (located T scope) -> In (p, om) (iter_from [] scope) /\ otag om = OM T)
  /\ NoDup (map id_of (located T scope))
  /\ (forall p om, In (p, om, true) (located T scope) <->
       exists q para j, In (q, para) (iter_from [] scope) /\ otag para = PARA T
                        /\ find_idx (OM T) O (ochildren para) = Some (j, om) /\ p = (q ++ [j])%list).
Proof.
  intros T scope.
  exact (conj (located_complete T scope) (conj (located_sound T scope) (conj (located_nodup T scope) (located_display T scope)))).
Qed.
Print Assumptions C19_formulas_each_once.

(* the returned list: the conversions of the located formulas, display formulas first, each group in document
   order, formulas whose conversion is blank dropped *)
Theorem C19_formulas_result : forall T scope,
  collect T scope =
  filter (fun lb => nonblank T (fst lb))
         (map (fun pe => (latex T (snd pe), true)) (firsts T scope) ++ map (fun pe => (latex T (snd pe), false)) (inlines T scope)).
Proof. intros T scope. exact (collect_unfold T scope). Qed.
Print Assumptions C19_formulas_result.
