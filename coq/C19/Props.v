From S2T Require Import Lib.PyStr C19.Model C19.Proofs.
Theorem C19_deterministic : forall T V t r1 r2, convert T V t = r1 -> convert T V t = r2 -> r1 = r2.
Proof. intros; congruence. Qed.
Print Assumptions C19_deterministic.
