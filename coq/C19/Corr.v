(* C19 — boolean case checkers used by the differential correspondence. *)
From S2T Require Import Lib.PyStr C19.Model.
From Coq Require Import List NArith Bool.
Import ListNotations.

(* a case: the tree ET.fromstring returned, the implementation's answer (Some output string | None = raised)
   and the exception class name ("" when none) *)
Definition corr_case (T : tables) (V : variant) (c : omml * option str * str) : bool :=
  match c with
  | (t, expected, exc) =>
    match convert T V t, expected with
    | Ok o, Some e => str_eqb (chars o) e
    | Raise cls, None => str_eqb cls exc
    | _, _ => false
    end
  end.
