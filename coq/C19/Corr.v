(* C19 — boolean case checkers used by the differential correspondence. *)
From S2T Require Import Lib.PyStr C19.Model C19.Proofs C19.Depth C19.Formulas.
From Coq Require Import List NArith Bool PeanoNat.
Import ListNotations.

(* a case: the tree ET.fromstring returned, the implementation's answer (Some output string | None = raised)
   and the exception class name ("" when none) *)
Definition corr_case (T : tables) (V : variant) (c : omml * option str * str) : bool :=
  match c with
  | (t, expected, exc) =>
    match convert T V t, expected with
    | Ok o, Some e => str_eqb (chars o) e
    | Raise cls, None => str_eqb cls exc
    | _, _ => false
    end
  end.

(* the same plus the measured maximal number of nested process_element frames (0 = not measured) *)
Definition corr_case_d (T : tables) (V : variant) (c : omml * option str * str * nat) : bool :=
  match c with
  | (t, expected, exc, d) =>
    corr_case T V (t, expected, exc)
    && match d with O => true | _ => Nat.eqb (conv_depth T t) d end
  end.

(* formula collectors of docx_extractor / pptx_extractor: scope tree and the returned (latex, is_display) list *)
Fixpoint res_eqb (a b : list (str * bool)) : bool :=
  match a, b with
  | [], [] => true
  | (x, d) :: a', (y, e) :: b' => str_eqb x y && Bool.eqb d e && res_eqb a' b'
  | _, _ => false
  end.
Definition formulas_case (T : tables) (c : omml * list (str * bool)) : bool :=
  res_eqb (collect T (fst c)) (snd c).
