(* C19 — recursion depth of process_element (definitions + proofs).
   rec_depth T t  = number of nested process_element frames while element t is processed (a call on a missing
                    operand, process_element(None), is one frame that returns at once);
   conv_depth T t = the same for omml_to_latex(t) (the root itself is not processed, its children are);
   height t       = number of nodes on the longest root-to-leaf path.
   Which children are visited depends on tags only, never on the pending-radical state, so the depth is static. *)
From Coq Require Import List NArith Bool Lia PeanoNat.
From S2T Require Import Lib.PyStr C19.Model C19.Proofs.
Import ListNotations.

Definition hmax_with (h : omml -> nat) (l : list omml) : nat := fold_right (fun c m => Nat.max (h c) m) O l.

Fixpoint height (t : omml) {struct t} : nat :=
  match t with Node _ _ _ cs => S (fold_right (fun c m => Nat.max (height c) m) O cs) end.
Definition hmax (l : list omml) : nat := hmax_with height l.

Section DepthHelpers.
  Variable rec : omml -> nat.
  (* process_element(elem.find(name)) *)
  Fixpoint dfirst (name : str) (l : list omml) : nat :=
    match l with
    | [] => 1%nat
    | c :: r => if str_eqb (otag c) name then rec c else dfirst name r
    end.
  Fixpoint dall (name : str) (l : list omml) : nat :=
    match l with
    | [] => O
    | c :: r => if str_eqb (otag c) name then Nat.max (rec c) (dall name r) else dall name r
    end.
  Fixpoint deach (l : list omml) : nat :=
    match l with [] => O | c :: r => Nat.max (rec c) (deach r) end.
  Fixpoint drows (mr e : str) (l : list omml) : nat :=
    match l with
    | [] => O
    | c :: r => if str_eqb (otag c) mr then Nat.max (dall e (ochildren c)) (drows mr e r) else drows mr e r
    end.
End DepthHelpers.

Fixpoint rec_depth (T : tables) (t : omml) {struct t} : nat :=
  match t with
  | Node tag attrs text cs =>
    let M := fun x => (m_ns T ++ x)%list in
    let D := rec_depth T in
    let tg := local_name tag in
    let f := fun n => dfirst D (M n) cs in
    if mem_str tg (skip_tags T) then 1%nat
    else if str_eqb tg (s "t") then 1%nat
    else S (
      if str_eqb tg (s "f") then Nat.max (f (s "num")) (f (s "den"))
      else if str_eqb tg (s "sSup") then Nat.max (f (s "e")) (f (s "sup"))
      else if str_eqb tg (s "sSub") then Nat.max (f (s "e")) (f (s "sub"))
      else if str_eqb tg (s "sSubSup") then Nat.max (f (s "e")) (Nat.max (f (s "sub")) (f (s "sup")))
      else if str_eqb tg (s "rad") then Nat.max (f (s "deg")) (f (s "e"))
      else if str_eqb tg (s "nary") then Nat.max (f (s "sub")) (Nat.max (f (s "sup")) (f (s "e")))
      else if str_eqb tg (s "d") then dall D (M (s "e")) cs
      else if str_eqb tg (s "m") && nonempty (filter (fun c => str_eqb (otag c) (M (s "mr"))) cs)
           then drows D (M (s "mr")) (M (s "e")) cs
      else if str_eqb tg (s "func") then Nat.max (f (s "fName")) (f (s "e"))
      else if str_eqb tg (s "bar") then f (s "e")
      else if str_eqb tg (s "acc") then f (s "e")
      else deach D cs)
  end.

Definition conv_depth (T : tables) (t : omml) : nat := deach (rec_depth T) (ochildren t).

(* every element takes the default branch (plain containers: r, e, num, box, oMath, ...) *)
Definition structural_names : list str :=
  [s "t"; s "f"; s "sSup"; s "sSub"; s "sSubSup"; s "rad"; s "nary"; s "d"; s "m"; s "func"; s "bar"; s "acc"].
Fixpoint all_default (T : tables) (t : omml) {struct t} : bool :=
  match t with
  | Node tag _ _ cs =>
    negb (mem_str (local_name tag) (skip_tags T)) && negb (mem_str (local_name tag) structural_names)
    && forallb (all_default T) cs
  end.

(* ------------------------------------------------------------------ proofs *)
Lemma height_eq tag a x cs : height (Node tag a x cs) = S (hmax cs).
Proof. reflexivity. Qed.

Lemma hmax_cons c r : hmax (c :: r) = Nat.max (height c) (hmax r).
Proof. reflexivity. Qed.

Section Bound.
  Variable rec : omml -> nat.
  Definition Bd (c : omml) : Prop := (rec c <= S (height c))%nat.

  Lemma dfirst_bd name l : Forall Bd l -> (dfirst rec name l <= S (hmax l))%nat.
  Proof.
    induction l as [|c r IH]; intro H; cbn [dfirst dall deach drows]; [unfold hmax, hmax_with; simpl; lia|]. inversion H as [|? ? Hc Hr]; subst.
    rewrite hmax_cons. specialize (IH Hr). unfold Bd in Hc. destruct (str_eqb (otag c) name); lia.
  Qed.
  Lemma dall_bd name l : Forall Bd l -> (dall rec name l <= S (hmax l))%nat.
  Proof.
    induction l as [|c r IH]; intro H; cbn [dfirst dall deach drows]; [unfold hmax, hmax_with; simpl; lia|]. inversion H as [|? ? Hc Hr]; subst.
    rewrite hmax_cons. specialize (IH Hr). unfold Bd in Hc. destruct (str_eqb (otag c) name); lia.
  Qed.
  Lemma deach_bd l : Forall Bd l -> (deach rec l <= S (hmax l))%nat.
  Proof.
    induction l as [|c r IH]; intro H; cbn [dfirst dall deach drows]; [unfold hmax, hmax_with; simpl; lia|]. inversion H as [|? ? Hc Hr]; subst.
    rewrite hmax_cons. specialize (IH Hr). unfold Bd in Hc. lia.
  Qed.
  Lemma drows_bd mr e l : Forall (fun c => Forall Bd (ochildren c)) l -> (drows rec mr e l <= S (hmax l))%nat.
  Proof.
    induction l as [|c r IH]; intro H; cbn [dfirst dall deach drows]; [unfold hmax, hmax_with; simpl; lia|]. inversion H as [|? ? Hc Hr]; subst.
    rewrite hmax_cons. specialize (IH Hr). pose proof (dall_bd e (ochildren c) Hc) as Hd.
    assert (Hh : height c = S (hmax (ochildren c))) by (destruct c; reflexivity).
    destruct (str_eqb (otag c) mr); lia.
  Qed.
End Bound.

Lemma rec_depth_bd T : forall t, Bd (rec_depth T) t /\ Forall (Bd (rec_depth T)) (ochildren t).
Proof.
  apply omml_ind'. intros tag attrs text cs IH.
  assert (IHc : Forall (Bd (rec_depth T)) cs) by (eapply Forall_impl; [|exact IH]; intros a [Ha _]; exact Ha).
  assert (IHg : Forall (fun c => Forall (Bd (rec_depth T)) (ochildren c)) cs)
    by (eapply Forall_impl; [|exact IH]; intros a [_ Ha]; exact Ha).
  split; [|exact IHc]. unfold Bd. rewrite height_eq. cbn [rec_depth].
  set (D := rec_depth T) in *.
  pose proof (fun n => dfirst_bd D n cs IHc) as F.
  pose proof (dall_bd D (m_ns T ++ s "e") cs IHc) as A.
  pose proof (deach_bd D cs IHc) as E.
  pose proof (drows_bd D (m_ns T ++ s "mr") (m_ns T ++ s "e") cs IHg) as Rw.
  pose proof (F (m_ns T ++ s "num")%list). pose proof (F (m_ns T ++ s "den")%list).
  pose proof (F (m_ns T ++ s "e")%list). pose proof (F (m_ns T ++ s "sup")%list).
  pose proof (F (m_ns T ++ s "sub")%list). pose proof (F (m_ns T ++ s "deg")%list).
  pose proof (F (m_ns T ++ s "fName")%list).
  repeat match goal with |- context [if ?c then _ else _] => destruct c end; lia.
Qed.

Lemma conv_depth_bd T t : (conv_depth T t <= height t)%nat.
Proof.
  unfold conv_depth. pose proof (deach_bd (rec_depth T) (ochildren t) (proj2 (rec_depth_bd T t))) as H.
  destruct t as [g a x cs]. rewrite height_eq. exact H.
Qed.

(* plain containers: the depth is exactly the height *)
Lemma deach_exact (rec : omml -> nat) l : Forall (fun c => rec c = height c) l -> deach rec l = hmax l.
Proof.
  induction l as [|c r IH]; intro H; [reflexivity|]. inversion H as [|? ? Hc Hr]; subst.
  cbn [deach]. rewrite hmax_cons, Hc, (IH Hr). reflexivity.
Qed.

Lemma rec_depth_default T : forall t, all_default T t = true -> rec_depth T t = height t.
Proof.
  apply (omml_ind' (fun t => all_default T t = true -> rec_depth T t = height t)).
  intros tag attrs text cs IH H. cbn [all_default] in H. apply andb_true_iff in H as [H Hcs].
  apply andb_true_iff in H as [Hk Hn]. apply negb_true_iff in Hk, Hn.
  rewrite height_eq. cbn [rec_depth]. rewrite Hk.
  unfold structural_names in Hn. cbn [mem_str] in Hn.
  repeat (apply orb_false_iff in Hn as [?E Hn]). rewrite E, E0, E1, E2, E3, E4, E5, E6, E7, E8, E9, E10.
  cbn [andb]. f_equal. apply deach_exact.
  rewrite forallb_forall in Hcs. rewrite Forall_forall in *. intros c Hc. apply (IH c Hc). apply Hcs. exact Hc.
Qed.

Lemma conv_depth_default T t : forallb (all_default T) (ochildren t) = true -> conv_depth T t = hmax (ochildren t).
Proof.
  intro H. unfold conv_depth. apply deach_exact. rewrite forallb_forall in H. rewrite Forall_forall.
  intros c Hc. apply rec_depth_default. apply H. exact Hc.
Qed.
