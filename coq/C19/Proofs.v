(* C19 — lemmas about the model of omml_to_latex. *)
From Coq Require Import ZArith List Bool Lia ZifyBool.
From S2T Require Import Lib.PyStr C19.Model.
Import ListNotations.
Open Scope N_scope.

(* ------------------------------------------------------------------ induction principle for the nested type *)
Section OmmlInd.
  Variable P : omml -> Prop.
  Hypothesis H : forall tag attrs text cs, Forall P cs -> P (Node tag attrs text cs).
  Fixpoint omml_ind' (t : omml) : P t :=
    match t with
    | Node tag attrs text cs =>
      H tag attrs text cs
        ((fix go (l : list omml) : Forall P l :=
            match l with [] => Forall_nil P | c :: r => Forall_cons c (omml_ind' c) (go r) end) cs)
    end.
End OmmlInd.

(* ------------------------------------------------------------------ small list facts *)
Lemma chars_app a b : chars (a ++ b) = chars a ++ chars b.
Proof. apply map_app. Qed.
Lemma chars_lab o x : chars (lab o x) = x.
Proof. unfold chars, lab. rewrite map_map. simpl. apply map_id. Qed.
Lemma chars_lit x : chars (lit x) = x.
Proof. apply chars_lab. Qed.

Lemma join_cons {A} (sep : list A) x r :
  join sep (x :: r) = x ++ match r with [] => [] | _ => sep ++ join sep r end.
Proof. destruct r; simpl; [rewrite app_nil_r|]; reflexivity. Qed.

Lemma join_cons_l (sep x : lstr) (r : list lstr) :
  join sep (x :: r) = x ++ match r with [] => [] | _ => sep ++ join sep r end.
Proof. destruct r; simpl; [rewrite app_nil_r|]; reflexivity. Qed.

Lemma forallb_rev {A} (f : A -> bool) l : forallb f (rev l) = forallb f l.
Proof.
  destruct (forallb f l) eqn:E.
  - rewrite forallb_forall in *. intros x Hx. apply E. apply in_rev. exact Hx.
  - destruct (forallb f (rev l)) eqn:E2; [|reflexivity].
    rewrite forallb_forall in E2. assert (forallb f l = true); [|congruence].
    apply forallb_forall. intros x Hx. apply E2. apply in_rev. rewrite rev_involutive. exact Hx.
Qed.

(* str.strip keeps a contiguous middle part and removes only whitespace *)
Lemma strip_decomp T l :
  exists a b, l = a ++ strip_l T l ++ b /\ forallb (is_ws T) a = true /\ forallb (is_ws T) b = true.
Proof.
  unfold strip_l, lstrip_l.
  exists (takeWhile (is_ws T) l), (rev (takeWhile (is_ws T) (rev (dropWhile (is_ws T) l)))).
  split; [|split].
  - rewrite <- rev_app_distr, takeWhile_dropWhile, rev_involutive, takeWhile_dropWhile. reflexivity.
  - apply takeWhile_all.
  - rewrite forallb_rev. apply takeWhile_all.
Qed.

Lemma strip_empty_ws T l : strip_l T l = [] -> forallb (is_ws T) l = true.
Proof.
  intro E. destruct (strip_decomp T l) as (a & b & Hl & Ha & Hb). rewrite E in Hl. simpl in Hl.
  rewrite Hl, forallb_app, Ha, Hb. reflexivity.
Qed.

Lemma nonempty_false {A} (l : list A) : nonempty l = false -> l = [].
Proof. destruct l; [reflexivity | discriminate]. Qed.

(* ------------------------------------------------------------------ depth_ok *)
Lemma depth_app a : forall d b,
  depth_ok d (a ++ b) = match depth_ok d a with Some d' => depth_ok d' b | None => None end.
Proof.
  induction a as [|c a IH]; intros d b; simpl; [reflexivity|].
  destruct (N.eqb c 123); [apply IH|]. destruct (N.eqb c 125); [|apply IH].
  destruct d; [reflexivity | apply IH].
Qed.

Lemma depth_mono x : forall a b, depth_ok a x = Some b -> forall k, depth_ok (k + a) x = Some (k + b)%nat.
Proof.
  induction x as [|c x IH]; intros a b Hd k; simpl in *.
  - inversion Hd; reflexivity.
  - destruct (N.eqb c 123).
    + rewrite <- Nat.add_succ_r. apply IH. exact Hd.
    + destruct (N.eqb c 125); [|apply IH; exact Hd].
      destruct a as [|a]; [discriminate|]. rewrite Nat.add_succ_r. apply IH. exact Hd.
Qed.

Lemma depth_nb x : nb_str x = true -> forall d, depth_ok d x = Some d.
Proof.
  induction x as [|c x IH]; intros Hn d; simpl in *; [reflexivity|].
  apply andb_true_iff in Hn as [Hc Hx]. unfold nb in Hc. apply andb_true_iff in Hc as [H1 H2].
  apply negb_true_iff in H1, H2. rewrite H1, H2. apply IH. exact Hx.
Qed.

Definition DS (n n' : nat) (x : str) : Prop := forall k, depth_ok (k + n) x = Some (k + n')%nat.

Lemma DS_nil n : DS n n [].
Proof. intro k. reflexivity. Qed.
Lemma DS_app n n1 n2 a b : DS n n1 a -> DS n1 n2 b -> DS n n2 (a ++ b).
Proof. intros Ha Hb k. rewrite depth_app, Ha. apply Hb. Qed.
Lemma DS_nb n x : nb_str x = true -> DS n n x.
Proof. intros Hx k. apply depth_nb. exact Hx. Qed.
Lemma DS_open n : DS n (S n) [123].
Proof. intro k. simpl. rewrite Nat.add_succ_r. reflexivity. Qed.
Lemma DS_close n : DS (S n) n [125].
Proof. intro k. rewrite Nat.add_succ_r. reflexivity. Qed.
Lemma DS_shift e n n' x : DS n n' x -> DS (e + n) (e + n') x.
Proof. intros Hx k. rewrite !Nat.add_assoc. apply Hx. Qed.
Lemma DS_shift_r e n n' x : DS n n' x -> DS (n + e) (n' + e) x.
Proof. intros Hx. rewrite (Nat.add_comm n e), (Nat.add_comm n' e). apply DS_shift. exact Hx. Qed.
Lemma DS_S n n' x : DS n n' x -> DS (S n) (S n') x.
Proof. apply (DS_shift 1). Qed.
Lemma DS_closed x n : depth_ok 0 x = Some O -> DS n n x.
Proof. intros Hx k. pose proof (depth_mono x 0 0 Hx (k + n)) as Hm. rewrite !Nat.add_0_r in Hm. exact Hm. Qed.
Lemma DS_unique n n1 n2 x : DS n n1 x -> DS n n2 x -> n1 = n2.
Proof. intros H1 H2. specialize (H1 O). specialize (H2 O). simpl in *. congruence. Qed.
Lemma DS_split n n' a b : DS n n' (a ++ b) -> exists m, DS n m a /\ DS m n' b.
Proof.
  intro Hab. pose proof (Hab O) as H0. simpl in H0. rewrite depth_app in H0.
  destruct (depth_ok n a) as [m|] eqn:Ea; [|discriminate]. exists m. split.
  - intro k. apply depth_mono. exact Ea.
  - intro k. specialize (Hab k). rewrite depth_app in Hab.
    rewrite (depth_mono a n m Ea k) in Hab. exact Hab.
Qed.
(* opening / closing literals *)
Lemma DS_lit_open n x : nb_str x = true -> DS n (S n) (x ++ [123]).
Proof. intro Hx. eapply DS_app; [apply DS_nb; exact Hx | apply DS_open]. Qed.

(* whitespace is never a brace (from wf), so strip does not change the depth profile *)
Section Bal.
  Variable T : tables.
  Hypothesis WF : wf T = true.

  Lemma wf_parts :
    forallb (fun kv => value_ok T (snd kv)) (greek T) = true
    /\ forallb (fun kv => value_ok T (snd kv)) (op_map T) = true
    /\ forallb (fun kv => value_ok T (snd kv)) (accent_map T) = true
    /\ forallb (fun kv => value_ok T (snd kv) && nb_str (fst kv)) (func_map T) = true
    /\ forallb (open_ok T) (open_brackets T) = true
    /\ forallb (fun c => negb (mem_N c (spaces T))) [92; 94; 95; 123; 125] = true.
  Proof. unfold wf in WF. repeat (apply andb_true_iff in WF as [WF ?]). repeat split; assumption. Qed.

  Lemma vis c : In c [92; 94; 95; 123; 125] -> mem_N c (spaces T) = false.
  Proof.
    intro Hc. destruct wf_parts as (_ & _ & _ & _ & _ & Hs).
    rewrite forallb_forall in Hs. apply negb_true_iff. apply Hs. exact Hc.
  Qed.

  Lemma mem_N_In x l : mem_N x l = true <-> In x l.
  Proof.
    induction l as [|y l IH]; simpl; [split; [discriminate | tauto]|].
    rewrite orb_true_iff, IH, N.eqb_eq. split; intros [H|H]; auto.
  Qed.

  Lemma ws_nb l : forallb (is_ws T) l = true -> nb_str (chars l) = true.
  Proof.
    induction l as [|c l IH]; simpl; [reflexivity|]. intro H. apply andb_true_iff in H as [Hc Hl].
    rewrite (IH Hl), andb_true_r. unfold is_ws in Hc. unfold nb.
    destruct (N.eqb (snd c) 123) eqn:E1.
    { apply N.eqb_eq in E1. rewrite E1, vis in Hc; [discriminate | simpl; tauto]. }
    destruct (N.eqb (snd c) 125) eqn:E2; [|reflexivity].
    apply N.eqb_eq in E2. rewrite E2, vis in Hc; [discriminate | simpl; tauto].
  Qed.

  Lemma DS_strip n n' l : DS n n' (chars l) -> DS n n' (chars (strip_l T l)).
  Proof.
    intro Hl. destruct (strip_decomp T l) as (a & b & E & Ha & Hb).
    rewrite E, !chars_app in Hl. intro k. specialize (Hl k).
    rewrite depth_app, (depth_nb _ (ws_nb a Ha)), depth_app in Hl.
    destruct (depth_ok (k + n) (chars (strip_l T l))) as [d|]; [|discriminate].
    rewrite (depth_nb _ (ws_nb b Hb)) in Hl. exact Hl.
  Qed.

  (* ---------------- lone_ok *)
  Lemma lone_nb x : nb_str x = true -> lone_ok T x = true.
  Proof.
    intro Hx. unfold lone_ok. apply orb_true_iff. left. apply negb_true_iff.
    destruct (existsb (N.eqb 123) x) eqn:E; [|reflexivity].
    apply existsb_exists in E as (c & Hc & Ec). apply N.eqb_eq in Ec. subst c.
    unfold nb_str in Hx. rewrite forallb_forall in Hx. specialize (Hx _ Hc). discriminate.
  Qed.

  Lemma lone_wit a c b : visible T c = true -> lone_ok T (a ++ c :: b) = true.
  Proof.
    intro Hc. unfold lone_ok. apply orb_true_iff. right. apply existsb_exists.
    exists c. split; [apply in_or_app; right; left; reflexivity | exact Hc].
  Qed.

  Lemma lone_app a b : lone_ok T a = true -> lone_ok T b = true -> lone_ok T (a ++ b) = true.
  Proof.
    unfold lone_ok. rewrite !existsb_app. intros Ha Hb.
    destruct (existsb (visible T) a); [rewrite orb_true_r; reflexivity|].
    destruct (existsb (visible T) b); [rewrite !orb_true_r; reflexivity|].
    rewrite orb_false_r in *. apply negb_true_iff in Ha, Hb. rewrite Ha, Hb. reflexivity.
  Qed.

  Lemma vis92 : visible T 92 = true. Proof. unfold visible. rewrite vis; [reflexivity | simpl; tauto]. Qed.
  Lemma vis94 : visible T 94 = true. Proof. unfold visible. rewrite vis; [reflexivity | simpl; tauto]. Qed.
  Lemma vis95 : visible T 95 = true. Proof. unfold visible. rewrite vis; [reflexivity | simpl; tauto]. Qed.
  Lemma vis125 : visible T 125 = true. Proof. unfold visible. rewrite vis; [reflexivity | simpl; tauto]. Qed.

  Lemma lone_end x : lone_ok T (x ++ [125]) = true.
  Proof. apply lone_wit. apply vis125. Qed.

  Lemma lone_strip l : lone_ok T (chars l) = true -> lone_ok T (chars (strip_l T l)) = true.
  Proof.
    intro Hl. destruct (strip_decomp T l) as (a & b & E & Ha & Hb).
    unfold lone_ok in *. apply orb_true_iff in Hl as [Hl|Hl].
    - apply orb_true_iff. left. apply negb_true_iff. apply negb_true_iff in Hl.
      rewrite E, !chars_app, !existsb_app in Hl. apply orb_false_iff in Hl as [_ Hl].
      apply orb_false_iff in Hl as [Hl _]. exact Hl.
    - apply orb_true_iff. right. rewrite E, !chars_app, !existsb_app in Hl.
      assert (Hw : forall w, forallb (is_ws T) w = true -> existsb (visible T) (chars w) = false).
      { induction w as [|c w IH]; simpl; [reflexivity|]. intro H. apply andb_true_iff in H as [Hc Hw].
        rewrite (IH Hw), orb_false_r. unfold visible, is_ws in *. rewrite Hc. apply andb_false_r. }
      rewrite (Hw a Ha), (Hw b Hb), orb_false_r in Hl. exact Hl.
  Qed.

  Lemma value_ok_DS v n : value_ok T v = true -> DS n n v.
  Proof.
    unfold value_ok. intro Hv. apply DS_closed.
    destruct (depth_ok 0 v) as [[|d]|]; [reflexivity | discriminate | discriminate].
  Qed.
  Lemma value_ok_lone v : value_ok T v = true -> lone_ok T v = true.
  Proof. unfold value_ok. destruct (depth_ok 0 v) as [[|d]|]; [tauto | discriminate | discriminate]. Qed.

  Lemma table_value {A} (f : A -> bool) k (tab : list (str * A)) v :
    forallb (fun kv => f (snd kv)) tab = true -> assoc k tab = Some v -> f v = true.
  Proof. intros Hf Ha. apply assoc_In in Ha. rewrite forallb_forall in Hf. apply (Hf _ Ha). Qed.

  Lemma greek_char_ok c : nb c = true -> value_ok T (greek_char T c) = true.
  Proof.
    intro Hc. unfold greek_char. destruct (assoc [c] (greek T)) as [v|] eqn:E.
    - destruct wf_parts as (Hg & _). exact (table_value _ _ _ _ Hg E).
    - assert (Hn : nb_str [c] = true) by (simpl; rewrite Hc; reflexivity).
      unfold value_ok. rewrite (depth_nb _ Hn). apply lone_nb. exact Hn.
  Qed.

  Lemma greek_DS x : nb_str x = true -> forall n, DS n n (greek_str T x).
  Proof.
    induction x as [|c x IH]; intros Hx n; simpl in *; [apply DS_nil|].
    apply andb_true_iff in Hx as [Hc Hx]. eapply DS_app; [|apply IH; exact Hx].
    apply value_ok_DS. apply greek_char_ok. exact Hc.
  Qed.
  Lemma greek_lone x : nb_str x = true -> lone_ok T (greek_str T x) = true.
  Proof.
    induction x as [|c x IH]; intro Hx; simpl in *; [reflexivity|].
    apply andb_true_iff in Hx as [Hc Hx]. apply lone_app; [|apply IH; exact Hx].
    apply value_ok_lone. apply greek_char_ok. exact Hc.
  Qed.

  (* ---------------- pending closers *)
  Definition pend_ok (p : list str) : bool := forallb single_nb p.

  Lemma find_sub_single c : forall hay i, find_sub [c] hay = Some i ->
    exists a b : str, hay = (a ++ c :: b)%list /\ List.length a = i.
  Proof.
    induction hay as [|h hay IH]; intros i Hf; simpl in Hf; [discriminate|].
    destruct (N.eqb c h) eqn:E.
    - simpl in Hf. inversion Hf; subst. apply N.eqb_eq in E. subst h. exists [], hay. split; reflexivity.
    - simpl in Hf. destruct (find_sub [c] hay) as [j|] eqn:Ej; [|discriminate]. inversion Hf; subst.
      destruct (IH j eq_refl) as (a & b & Hh & Hl). exists (h :: a), b. split; simpl; congruence.
  Qed.

  Lemma split_at (l : lstr) a c b : chars l = a ++ c :: b ->
    chars (firstn (List.length a) l) = a /\ chars (skipn (S (List.length a)) l) = b.
  Proof.
    revert l. induction a as [|x a IH]; intros l Hl; destruct l as [|y l]; simpl in *; try discriminate.
    - inversion Hl. split; reflexivity.
    - inversion Hl. destruct (IH l H1) as [H2 H3]. simpl in H3. split; [f_equal; assumption | assumption].
  Qed.

  Lemma close_pending_ok : forall p l n n', pend_ok p = true -> DS n n' (chars l) ->
    let r := close_pending p l in
    pend_ok (fst r) = true /\ DS (n + List.length p) (n' + List.length (fst r)) (chars (snd r))
    /\ (lone_ok T (chars l) = true -> lone_ok T (chars (snd r)) = true).
  Proof.
    induction p as [|c p IH]; intros l n n' Hp Hl; cbn [close_pending].
    - cbn [fst snd List.length]. split; [reflexivity|]. split; [|tauto]. rewrite !Nat.add_0_r. exact Hl.
    - simpl in Hp. apply andb_true_iff in Hp as [Hc Hp].
      destruct c as [|x [|y c']]; try discriminate. simpl in Hc.
      destruct (find_sub [x] (chars l)) as [i|] eqn:Ef.
      + destruct (find_sub_single x _ _ Ef) as (a & b & Hab & Hi). subst i.
        destruct (split_at l a x b Hab) as [Ha Hb].
        rewrite Hab in Hl. destruct (DS_split _ _ _ _ Hl) as (m & Hm1 & Hm2).
        assert (Hm2' : DS m n' b).
        { intro k. specialize (Hm2 k). simpl in Hm2. unfold nb in Hc. apply andb_true_iff in Hc as [H1 H2].
          apply negb_true_iff in H1, H2. rewrite H1, H2 in Hm2. exact Hm2. }
        rewrite <- Hb in Hm2'. specialize (IH (skipn (S (List.length a)) l) m n' Hp Hm2').
        destruct (close_pending p (skipn (S (List.length a)) l)) as [p2 o] eqn:Ec. cbn [fst snd] in *.
        destruct IH as (I1 & I2 & _). split; [exact I1|]. split.
        * rewrite !chars_app, chars_lit, Ha. change (s "}") with [125].
          eapply DS_app; [apply DS_shift_r; exact Hm1|].
          eapply DS_app; [cbn [List.length]; rewrite Nat.add_succ_r; apply (DS_close (m + List.length p)) | exact I2].
        * intros _. rewrite !chars_app, chars_lit. simpl. apply lone_wit. apply vis125.
      + cbn [fst snd]. split; [simpl; rewrite Hc, Hp; reflexivity|]. split; [|tauto].
        apply DS_shift_r. exact Hl.
  Qed.
  (* ---------------- the invariant of one processing step *)
  Definition Inv (q q' : st) (o : lstr) : Prop :=
    pend_ok (pend q') = true /\ lone_ok T (chars o) = true
    /\ DS (List.length (pend q)) (List.length (pend q')) (chars o).

  Definition NodeInv (rec : st -> omml -> st * lstr) (c : omml) : Prop :=
    nobrace c = true -> forall q, pend_ok (pend q) = true -> Inv q (fst (rec q c)) (snd (rec q c)).

  Lemma Inv_nil q : pend_ok (pend q) = true -> Inv q q [].
  Proof. intro Hq. split; [exact Hq|]. split; [reflexivity | apply DS_nil]. Qed.

  Lemma Inv_app q q1 q2 a b : Inv q q1 a -> Inv q1 q2 b -> Inv q q2 (a ++ b).
  Proof.
    intros (A1 & A2 & A3) (B1 & B2 & B3). split; [exact B1|]. rewrite chars_app.
    split; [apply lone_app; assumption | eapply DS_app; eassumption].
  Qed.

  Lemma Inv_lab_nb q o x : pend_ok (pend q) = true -> nb_str x = true -> Inv q q (lab o x).
  Proof.
    intros Hq Hx. split; [exact Hq|]. rewrite chars_lab. split; [apply lone_nb; exact Hx | apply DS_nb; exact Hx].
  Qed.

  Lemma Inv_lab_val q o x : pend_ok (pend q) = true -> value_ok T x = true -> Inv q q (lab o x).
  Proof.
    intros Hq Hx. split; [exact Hq|]. rewrite chars_lab.
    split; [apply value_ok_lone; exact Hx | apply value_ok_DS; exact Hx].
  Qed.

  Lemma Inv_pend q q' o : Inv q q' o -> pend_ok (pend q') = true.
  Proof. intros (A & _). exact A. Qed.
  Lemma Inv_DS q q' o : Inv q q' o -> DS (List.length (pend q)) (List.length (pend q')) (chars o).
  Proof. intros (_ & _ & A). exact A. Qed.

  Lemma DS_lit0 x m : depth_ok 0 x = Some m -> forall n, DS n (m + n) x.
  Proof.
    intros Hx n k. pose proof (depth_mono x 0 m Hx (k + n)) as Hm. rewrite Nat.add_0_r in Hm.
    rewrite Hm. f_equal. lia.
  Qed.
  Lemma DS_lit1 x m : depth_ok 1 x = Some m -> forall n, DS (S n) (m + n) x.
  Proof.
    intros Hx n k. pose proof (depth_mono x 1 m Hx (k + n)) as Hm.
    replace (k + S n)%nat with (k + n + 1)%nat by lia. rewrite Hm. f_equal. lia.
  Qed.

  Lemma ws_same_len q q1 o : Inv q q1 o -> strip_l T o = [] ->
    List.length (pend q1) = List.length (pend q).
  Proof.
    intros I E. apply strip_empty_ws in E. apply ws_nb in E.
    symmetry. eapply DS_unique; [apply DS_nb; exact E | apply (Inv_DS _ _ _ I)].
  Qed.

  Lemma key_len q1 q2 c : Inv q1 q2 c -> mem_str (chars (strip_l T c)) (open_brackets T) = true ->
    List.length (pend q2) = List.length (pend q1) /\ single_nb (closer T (chars (strip_l T c))) = true.
  Proof.
    intros I Hk. apply mem_str_In in Hk. destruct wf_parts as (_ & _ & _ & _ & Ho & _).
    rewrite forallb_forall in Ho. specialize (Ho _ Hk). unfold open_ok in Ho.
    destruct (chars (strip_l T c)) as [|x [|y r]] eqn:Ek; try discriminate.
    apply andb_true_iff in Ho as [H125 Ho]. apply negb_true_iff in H125.
    destruct (N.eqb x 123) eqn:E123.
    - exfalso. apply N.eqb_eq in E123. subst x. destruct I as (_ & L & _). apply lone_strip in L.
      rewrite Ek in L. unfold lone_ok, visible in L. simpl in L. discriminate.
    - simpl in Ho. split; [|exact Ho].
      destruct (strip_decomp T c) as (a & b & E & Ha & Hb).
      assert (Hn : nb_str (chars c) = true).
      { rewrite E, !chars_app, Ek. unfold nb_str. rewrite !forallb_app.
        fold (nb_str (chars a)). fold (nb_str (chars b)). rewrite (ws_nb a Ha), (ws_nb b Hb).
        simpl. unfold nb. rewrite E123, H125. reflexivity. }
      symmetry. eapply DS_unique; [apply DS_nb; exact Hn | apply (Inv_DS _ _ _ I)].
  Qed.

  (* ---------------- children helpers *)
  Lemma all_children_cons rec c r : all_children rec (c :: r) = true -> rec c = true /\ all_children rec r = true.
  Proof. simpl. intro H. apply andb_true_iff in H. exact H. Qed.

  Lemma nobrace_children c : nobrace c = true -> all_children nobrace (ochildren c) = true.
  Proof. destruct c as [g a x cs]. simpl. intro H. apply andb_true_iff in H as [_ H]. exact H. Qed.

  Section Kids.
    Variable rec : st -> omml -> st * lstr.

    Lemma pfirst_inv name l : Forall (NodeInv rec) l -> all_children nobrace l = true ->
      forall q, pend_ok (pend q) = true -> Inv q (fst (pfirst rec name q l)) (snd (pfirst rec name q l)).
    Proof.
      induction l as [|c r IH]; intros HF Hn q Hq; simpl; [apply Inv_nil; exact Hq|].
      inversion HF as [|? ? Hc Hr]; subst. apply all_children_cons in Hn as [Hnc Hnr].
      destruct (str_eqb (otag c) name); [apply Hc; assumption | apply IH; assumption].
    Qed.

    Lemma peach_inv l : Forall (NodeInv rec) l -> all_children nobrace l = true ->
      forall q, pend_ok (pend q) = true -> Inv q (fst (peach rec q l)) (snd (peach rec q l)).
    Proof.
      induction l as [|c r IH]; intros HF Hn q Hq; simpl; [apply Inv_nil; exact Hq|].
      inversion HF as [|? ? Hc Hr]; subst. apply all_children_cons in Hn as [Hnc Hnr].
      specialize (Hc Hnc q Hq). destruct (rec q c) as [q1 o]. cbn [fst snd] in Hc.
      specialize (IH Hr Hnr q1 (Inv_pend _ _ _ Hc)). destruct (peach rec q1 r) as [q2 os]. cbn [fst snd] in *.
      eapply Inv_app; eassumption.
    Qed.

    Lemma pall_inv name sep l : nb_str sep = true -> Forall (NodeInv rec) l -> all_children nobrace l = true ->
      forall q, pend_ok (pend q) = true ->
      Inv q (fst (pall rec name q l)) (join (lit sep) (snd (pall rec name q l))).
    Proof.
      intro Hs. induction l as [|c r IH]; intros HF Hn q Hq; simpl; [apply Inv_nil; exact Hq|].
      inversion HF as [|? ? Hc Hr]; subst. apply all_children_cons in Hn as [Hnc Hnr].
      destruct (str_eqb (otag c) name); [|apply IH; assumption].
      specialize (Hc Hnc q Hq). destruct (rec q c) as [q1 o]. cbn [fst snd] in Hc.
      specialize (IH Hr Hnr q1 (Inv_pend _ _ _ Hc)). destruct (pall rec name q1 r) as [q2 os]. cbn [fst snd] in *.
      rewrite join_cons_l. eapply Inv_app; [exact Hc|]. destruct os as [|o2 os].
      - simpl in IH. exact IH.
      - eapply Inv_app; [apply Inv_lab_nb; [apply (Inv_pend _ _ _ Hc) | exact Hs] | exact IH].
    Qed.

    Lemma prows_inv mr e sep l : nb_str sep = true ->
      Forall (fun c => Forall (NodeInv rec) (ochildren c)) l -> all_children nobrace l = true ->
      forall q, pend_ok (pend q) = true ->
      Inv q (fst (prows rec mr e q l)) (join (lit sep) (snd (prows rec mr e q l))).
    Proof.
      intro Hs. induction l as [|c r IH]; intros HF Hn q Hq; simpl; [apply Inv_nil; exact Hq|].
      inversion HF as [|? ? Hc Hr]; subst. apply all_children_cons in Hn as [Hnc Hnr].
      destruct (str_eqb (otag c) mr); [|apply IH; assumption].
      pose proof (pall_inv e (s " & ") (ochildren c) eq_refl Hc (nobrace_children c Hnc) q Hq) as H1.
      destruct (pall rec e q (ochildren c)) as [q1 cells]. cbn [fst snd] in H1.
      specialize (IH Hr Hnr q1 (Inv_pend _ _ _ H1)). destruct (prows rec mr e q1 r) as [q2 rows]. cbn [fst snd] in *.
      rewrite join_cons_l. eapply Inv_app; [exact H1|]. destruct rows as [|o2 rows].
      - simpl in IH. exact IH.
      - eapply Inv_app; [apply Inv_lab_nb; [apply (Inv_pend _ _ _ H1) | exact Hs] | exact IH].
    Qed.
  End Kids.

  (* ---------------- look-ups return nodes of the tree *)
  Lemma find_child_nobrace name l e : find_child name l = Some e -> all_children nobrace l = true -> nobrace e = true.
  Proof.
    induction l as [|c r IH]; simpl; [discriminate|]. intros Hf Hn. apply andb_true_iff in Hn as [Hc Hr].
    destruct (str_eqb (otag c) name); [inversion Hf; subst; exact Hc | apply IH; assumption].
  Qed.
  Lemma find2_nobrace a b l e : find2 a b l = Some e -> all_children nobrace l = true -> nobrace e = true.
  Proof.
    induction l as [|c r IH]; simpl; [discriminate|]. intros Hf Hn. apply andb_true_iff in Hn as [Hc Hr].
    destruct (str_eqb (otag c) a); [|apply IH; assumption].
    destruct (find_child b (ochildren c)) as [x|] eqn:E; [|apply IH; assumption].
    inversion Hf; subst. eapply find_child_nobrace; [exact E | apply nobrace_children; exact Hc].
  Qed.
  Lemma attr_nb e k v : nobrace e = true -> assoc k (oattrs e) = Some v -> nb_str v = true.
  Proof.
    destruct e as [g a x cs]. simpl. intros H Ha. apply andb_true_iff in H as [H _].
    apply andb_true_iff in H as [H _]. exact (table_value nb_str k a v H Ha).
  Qed.

  Lemma chr_val_nb pr name dflt cs o : all_children nobrace cs = true -> nb_str dflt = true ->
    chr_val T fixed dflt (lookup_chr T fixed pr name cs) = o -> exists v, o = Some v /\ nb_str v = true.
  Proof.
    intros Hn Hd. unfold chr_val, lookup_chr. cbn [own_prop val_default fixed].
    destruct (find2 (m_ns T ++ pr) (m_ns T ++ name) cs) as [e|] eqn:E.
    - destruct (assoc (m_ns T ++ s "val") (oattrs e)) as [v|] eqn:Ev; intro; subst o.
      + exists v. split; [reflexivity|]. eapply attr_nb; [eapply find2_nobrace; eassumption | exact Ev].
      + exists dflt. split; [reflexivity | exact Hd].
    - intro; subst o. exists dflt. split; [reflexivity | exact Hd].
  Qed.

  (* ---------------- the main induction *)
  Ltac step_first R IHc Hcs q Hq q1 o I :=
    let E := fresh "E" in
    match goal with |- context [pfirst R ?name q ?cs] =>
      pose proof (pfirst_inv R name cs IHc Hcs q Hq) as I;
      destruct (pfirst R name q cs) as [q1 o] eqn:E; cbn [fst snd] in I |- *; clear E
    end.

  Lemma opt_piece q0 q1 x sub : nb_str x = true -> visible T (hd 0 x) = true -> x <> [] ->
    pend_ok (pend q0) = true -> Inv q0 q1 sub ->
    Inv q0 q1 (if nonempty (strip_l T sub) then lit (x ++ [123]) ++ sub ++ lit [125] else []).
  Proof.
    intros Hx Hv Hne Hq I. destruct (nonempty (strip_l T sub)) eqn:E.
    - split; [apply (Inv_pend _ _ _ I)|]. rewrite !chars_app, !chars_lit. split.
      + destruct x as [|c x]; [congruence|]. simpl in Hv. simpl. apply (lone_wit [] c). exact Hv.
      + eapply DS_app; [apply DS_lit_open; exact Hx|].
        eapply DS_app; [apply DS_S; apply (Inv_DS _ _ _ I) | apply DS_close].
    - apply nonempty_false in E. pose proof (ws_same_len _ _ _ I E) as Hl.
      split; [apply (Inv_pend _ _ _ I)|]. split; [reflexivity|]. rewrite Hl. apply DS_nil.
  Qed.

  Lemma process_inv : forall t,
    NodeInv (process T fixed) t /\ Forall (NodeInv (process T fixed)) (ochildren t).
  Proof.
    apply omml_ind'. intros tag attrs text cs IH.
    assert (IHc : Forall (NodeInv (process T fixed)) cs).
    { eapply Forall_impl; [|exact IH]. intros a [Ha _]. exact Ha. }
    assert (IHg : Forall (fun c => Forall (NodeInv (process T fixed)) (ochildren c)) cs).
    { eapply Forall_impl; [|exact IH]. intros a [_ Ha]. exact Ha. }
    split; [|exact IHc]. clear IH.
    intros Hnb q Hq. cbn [nobrace] in Hnb. apply andb_true_iff in Hnb as [Hnb Hcs].
    apply andb_true_iff in Hnb as [Hat Htx].
    cbn [process pend_stack own_prop val_default fixed].
    set (R := process T fixed) in *.
    destruct (mem_str (local_name tag) (skip_tags T)); [apply Inv_nil; exact Hq|].
    (* t *)
    destruct (str_eqb (local_name tag) (s "t")).
    { set (tx := match text with Some x => x | None => [] end).
      assert (Hx : nb_str tx = true) by (subst tx; destruct text; [exact Htx | reflexivity]).
      assert (HD : DS 0 0 (chars (greek_l T OTxt tx))) by (unfold greek_l; rewrite chars_lab; apply greek_DS; exact Hx).
      pose proof (close_pending_ok (pend q) (greek_l T OTxt tx) 0 0 Hq HD) as H.
      destruct (close_pending (pend q) (greek_l T OTxt tx)) as [p' o]. cbn [fst snd] in *.
      destruct H as (H1 & H2 & H3). split; [exact H1|]. split; [|exact H2].
      apply H3. unfold greek_l. rewrite chars_lab. apply greek_lone. exact Hx. }
    (* f *)
    destruct (str_eqb (local_name tag) (s "f")).
    { step_first R IHc Hcs q Hq q1 num I1. step_first R IHc Hcs q1 (Inv_pend _ _ _ I1) q2 den I2.
      split; [apply (Inv_pend _ _ _ I2)|]. rewrite !chars_app, !chars_lit. split.
      - apply (lone_wit [] 92). apply vis92.
      - eapply DS_app; [apply (DS_lit0 _ 1); reflexivity|].
        eapply DS_app; [apply DS_S; apply (Inv_DS _ _ _ I1)|].
        eapply DS_app; [apply (DS_lit1 _ 1); reflexivity|].
        eapply DS_app; [apply DS_S; apply (Inv_DS _ _ _ I2)|].
        apply (DS_lit1 _ 0); reflexivity. }
    (* sSup *)
    destruct (str_eqb (local_name tag) (s "sSup")).
    { step_first R IHc Hcs q Hq q1 base I1. step_first R IHc Hcs q1 (Inv_pend _ _ _ I1) q2 sup I2.
      split; [apply (Inv_pend _ _ _ I2)|]. rewrite !chars_app, !chars_lit. split.
      - apply (lone_wit (chars base) 94). apply vis94.
      - eapply DS_app; [apply (Inv_DS _ _ _ I1)|].
        eapply DS_app; [apply (DS_lit0 _ 1); reflexivity|].
        eapply DS_app; [apply DS_S; apply (Inv_DS _ _ _ I2)|].
        apply (DS_lit1 _ 0); reflexivity. }
    (* sSub *)
    destruct (str_eqb (local_name tag) (s "sSub")).
    { step_first R IHc Hcs q Hq q1 base I1. step_first R IHc Hcs q1 (Inv_pend _ _ _ I1) q2 sub I2.
      split; [apply (Inv_pend _ _ _ I2)|]. rewrite !chars_app, !chars_lit. split.
      - apply (lone_wit (chars base) 95). apply vis95.
      - eapply DS_app; [apply (Inv_DS _ _ _ I1)|].
        eapply DS_app; [apply (DS_lit0 _ 1); reflexivity|].
        eapply DS_app; [apply DS_S; apply (Inv_DS _ _ _ I2)|].
        apply (DS_lit1 _ 0); reflexivity. }
    (* sSubSup *)
    destruct (str_eqb (local_name tag) (s "sSubSup")).
    { step_first R IHc Hcs q Hq q1 base I1. step_first R IHc Hcs q1 (Inv_pend _ _ _ I1) q2 sub I2.
      step_first R IHc Hcs q2 (Inv_pend _ _ _ I2) q3 sup I3.
      split; [apply (Inv_pend _ _ _ I3)|]. rewrite !chars_app, !chars_lit. split.
      - apply (lone_wit (chars base) 95). apply vis95.
      - eapply DS_app; [apply (Inv_DS _ _ _ I1)|].
        eapply DS_app; [apply (DS_lit0 _ 1); reflexivity|].
        eapply DS_app; [apply DS_S; apply (Inv_DS _ _ _ I2)|].
        eapply DS_app; [apply (DS_lit1 _ 1); reflexivity|].
        eapply DS_app; [apply DS_S; apply (Inv_DS _ _ _ I3)|].
        apply (DS_lit1 _ 0); reflexivity. }
    (* rad *)
    destruct (str_eqb (local_name tag) (s "rad")).
    { step_first R IHc Hcs q Hq q1 deg0 I1. step_first R IHc Hcs q1 (Inv_pend _ _ _ I1) q2 content I2.
      pose proof (DS_strip _ _ _ (Inv_DS _ _ _ I1)) as Dd.
      destruct (mem_str (chars (strip_l T content)) (open_brackets T)) eqn:Ek.
      - cbn [fst snd]. destruct (key_len _ _ _ I2 Ek) as [Hl Hs]. fold (closer T (chars (strip_l T content))).
        split; [|split].
        + unfold push. cbn [pend_stack fixed set_pend pend]. simpl. rewrite Hs. apply (Inv_pend _ _ _ I2).
        + destruct (nonempty (strip_l T deg0)); rewrite ?chars_app, ?chars_lit; apply (lone_wit [] 92); apply vis92.
        + unfold push. cbn [pend_stack fixed set_pend pend List.length]. rewrite Hl.
          destruct (nonempty (strip_l T deg0)) eqn:En; rewrite ?chars_app, ?chars_lit.
          * eapply DS_app; [apply (DS_lit0 _ 0); reflexivity|].
            eapply DS_app; [exact Dd|]. apply (DS_lit0 _ 1); reflexivity.
          * apply nonempty_false in En. rewrite (ws_same_len _ _ _ I1 En).
            apply (DS_lit0 _ 1); reflexivity.
      - cbn [fst snd]. split; [apply (Inv_pend _ _ _ I2)|].
        destruct (nonempty (strip_l T deg0)) eqn:En; rewrite ?chars_app, ?chars_lit.
        + split; [apply (lone_wit [] 92); apply vis92|].
          eapply DS_app; [apply (DS_lit0 _ 0); reflexivity|].
          eapply DS_app; [exact Dd|].
          eapply DS_app; [apply (DS_lit0 _ 1); reflexivity|].
          eapply DS_app; [apply DS_S; apply (Inv_DS _ _ _ I2)|].
          apply (DS_lit1 _ 0); reflexivity.
        + split; [apply (lone_wit [] 92); apply vis92|].
          apply nonempty_false in En. pose proof (ws_same_len _ _ _ I1 En) as Hl.
          eapply DS_app; [apply (DS_lit0 _ 1); reflexivity|].
          eapply DS_app; [apply DS_S; rewrite <- Hl; apply (Inv_DS _ _ _ I2)|].
          apply (DS_lit1 _ 0); reflexivity. }
    (* nary *)
    destruct (str_eqb (local_name tag) (s "nary")).
    { destruct (chr_val_nb (s "naryPr") (s "chr") sum_char cs _ Hcs eq_refl eq_refl) as (o & -> & Ho).
      assert (Iop : Inv q q (match assoc o (op_map T) with Some v => lab OAttr v | None => greek_l T OAttr o end)).
      { destruct (assoc o (op_map T)) as [v|] eqn:Ev.
        - apply Inv_lab_val; [exact Hq|]. destruct wf_parts as (_ & Hop & _). exact (table_value _ _ _ _ Hop Ev).
        - split; [exact Hq|]. unfold greek_l. rewrite chars_lab. split; [apply greek_lone | apply greek_DS]; exact Ho. }
      step_first R IHc Hcs q Hq q1 sub I1. step_first R IHc Hcs q1 (Inv_pend _ _ _ I1) q2 sup I2.
      step_first R IHc Hcs q2 (Inv_pend _ _ _ I2) q3 content I3.
      eapply Inv_app; [exact Iop|].
      eapply Inv_app; [apply (opt_piece q q1 [95] sub eq_refl vis95); [discriminate | exact Hq | exact I1]|].
      eapply Inv_app; [apply (opt_piece q1 q2 [94] sup eq_refl vis94); [discriminate | apply (Inv_pend _ _ _ I1) | exact I2]|].
      eapply Inv_app; [apply Inv_lab_nb; [apply (Inv_pend _ _ _ I2) | reflexivity] | exact I3]. }
    (* d *)
    destruct (str_eqb (local_name tag) (s "d")).
    { destruct (chr_val_nb (s "dPr") (s "begChr") (s "(") cs _ Hcs eq_refl eq_refl) as (l & -> & Hl).
      destruct (chr_val_nb (s "dPr") (s "endChr") (s ")") cs _ Hcs eq_refl eq_refl) as (r & -> & Hr).
      pose proof (pall_inv R (m_ns T ++ s "e") (s ", ") cs eq_refl IHc Hcs q Hq) as I1.
      destruct (pall R (m_ns T ++ s "e") q cs) as [q1 parts]. cbn [fst snd] in *. unfold fmt_opt.
      eapply Inv_app; [apply Inv_lab_nb; [exact Hq | exact Hl]|].
      eapply Inv_app; [exact I1 | apply Inv_lab_nb; [apply (Inv_pend _ _ _ I1) | exact Hr]]. }
    (* m *)
    destruct (str_eqb (local_name tag) (s "m") && nonempty (filter (fun c => str_eqb (otag c) (m_ns T ++ s "mr")) cs)).
    { assert (Hg : all_children nobrace cs = true) by exact Hcs.
      pose proof (prows_inv R (m_ns T ++ s "mr") (m_ns T ++ s "e") (s " \\ ") cs eq_refl IHg Hcs q Hq) as I1.
      destruct (prows R (m_ns T ++ s "mr") (m_ns T ++ s "e") q cs) as [q1 rows]. cbn [fst snd] in *.
      assert (Hb : forall q0 x, pend_ok (pend q0) = true -> depth_ok 0 x = Some O -> hd 0 x = 92 -> Inv q0 q0 (lit x)).
      { intros q0 x H0 Hx Hh. split; [exact H0|]. rewrite chars_lit. split; [|apply DS_closed; exact Hx].
        destruct x as [|c x]; [reflexivity|]. simpl in Hh. subst c. apply (lone_wit [] 92). apply vis92. }
      eapply Inv_app; [apply Hb; [exact Hq | reflexivity | reflexivity]|].
      eapply Inv_app; [exact I1 | apply Hb; [apply (Inv_pend _ _ _ I1) | reflexivity | reflexivity]]. }
    (* func *)
    destruct (str_eqb (local_name tag) (s "func")).
    { step_first R IHc Hcs q Hq q1 fname I1. step_first R IHc Hcs q1 (Inv_pend _ _ _ I1) q2 content I2.
      set (key := strip_l T fname).
      assert (Dn : DS (List.length (pend q)) (List.length (pend q1))
                      (chars (match assoc (chars key) (func_map T) with
                              | Some v => if str_eqb v (92 :: chars key) then lit [92] ++ key else lit v
                              | None => fname end))).
      { destruct (assoc (chars key) (func_map T)) as [v|] eqn:Ev; [|apply (Inv_DS _ _ _ I1)].
        destruct (str_eqb v (92 :: chars key)).
        - rewrite chars_app, chars_lit. eapply DS_app; [apply DS_nb; reflexivity|].
          apply DS_strip. apply (Inv_DS _ _ _ I1).
        - rewrite chars_lit. destruct wf_parts as (_ & _ & _ & Hf & _).
          apply assoc_In in Ev. rewrite forallb_forall in Hf. specialize (Hf _ Ev). simpl in Hf.
          apply andb_true_iff in Hf as [Hv Hk].
          destruct (strip_decomp T fname) as (a & b & E & Ha & Hb).
          assert (Hn : nb_str (chars fname) = true).
          { rewrite E, !chars_app. unfold nb_str. rewrite !forallb_app.
            fold (nb_str (chars a)). fold (nb_str (chars b)). rewrite (ws_nb a Ha), (ws_nb b Hb).
            fold key. fold (nb_str (chars key)). rewrite Hk. reflexivity. }
          pose proof (DS_unique _ _ _ _ (DS_nb _ _ Hn) (Inv_DS _ _ _ I1)) as Hl. rewrite <- Hl.
          apply value_ok_DS. exact Hv. }
      split; [apply (Inv_pend _ _ _ I2)|]. split.
      - rewrite !app_assoc, chars_app, chars_lit. apply lone_end.
      - rewrite !chars_app, !chars_lit. eapply DS_app; [exact Dn|].
        eapply DS_app; [apply (DS_lit0 _ 1); reflexivity|].
        eapply DS_app; [apply DS_S; apply (Inv_DS _ _ _ I2)|].
        apply (DS_lit1 _ 0); reflexivity. }
    (* bar *)
    destruct (str_eqb (local_name tag) (s "bar")).
    { step_first R IHc Hcs q Hq q1 content I1.
      split; [apply (Inv_pend _ _ _ I1)|]. rewrite !chars_app, !chars_lit. split.
      - apply (lone_wit [] 92). apply vis92.
      - eapply DS_app; [apply (DS_lit0 _ 1); reflexivity|].
        eapply DS_app; [apply DS_S; apply (Inv_DS _ _ _ I1)|].
        apply (DS_lit1 _ 0); reflexivity. }
    (* acc *)
    destruct (str_eqb (local_name tag) (s "acc")).
    { step_first R IHc Hcs q Hq q1 content I1.
      match goal with |- Inv _ _ (lab OAttr ?a ++ _) => assert (Ha : value_ok T a = true) end.
      { assert (Hh : value_ok T hat = true).
        { unfold value_ok. rewrite (depth_nb hat eq_refl). apply lone_nb. reflexivity. }
        destruct wf_parts as (_ & _ & Hac & _).
        repeat match goal with
               | |- context [match ?x with _ => _ end] => destruct x eqn:?
               end; try exact Hh; eapply table_value; eassumption. }
      split; [apply (Inv_pend _ _ _ I1)|]. split.
      - rewrite !app_assoc, chars_app, chars_lit. apply lone_end.
      - rewrite !chars_app, chars_lab, !chars_lit. eapply DS_app; [apply value_ok_DS; exact Ha|].
        eapply DS_app; [apply (DS_lit0 _ 1); reflexivity|].
        eapply DS_app; [apply DS_S; apply (Inv_DS _ _ _ I1)|].
        apply (DS_lit1 _ 0); reflexivity. }
    apply peach_inv; assumption.
  Qed.
End Bal.

(* ------------------------------------------------------------------ balance of the whole conversion *)
Lemma closers_DS (p : list str) : DS (List.length p) 0 (List.concat (map (fun _ => s "}") p)).
Proof.
  induction p as [|c p IH]; [apply DS_nil|].
  cbn [map List.concat List.length].
  apply (DS_app _ (List.length p) _ [125]); [apply DS_close | exact IH].
Qed.

Lemma convert_balanced T t o : wf T = true -> nobrace t = true ->
  convert T fixed t = Ok o -> balanced (chars o) = true.
Proof.
  intros WF Hn. unfold convert, convert_l.
  pose proof (peach_inv T (process T fixed) (ochildren t) (proj2 (process_inv T WF t))
                (nobrace_children t Hn) st0 eq_refl) as I.
  destruct (peach (process T fixed) st0 (ochildren t)) as [q o1]. cbn [fst snd] in I.
  destruct (raised q); [discriminate|]. intro H. inversion H; subst o. clear H.
  destruct I as (_ & _ & D). cbn [st0 pend List.length] in D.
  assert (D2 : DS 0 0 (chars (o1 ++ lit (List.concat (map (fun _ => s "}") (pend q)))))).
  { rewrite chars_app, chars_lit. eapply DS_app; [exact D | apply closers_DS]. }
  specialize (D2 O). simpl in D2. unfold balanced. rewrite D2. reflexivity.
Qed.

(* ------------------------------------------------------------------ totality: the repaired converter never raises *)
Section Total.
  Variable T : tables.
  Definition RInv (rec : st -> omml -> st * lstr) (c : omml) : Prop :=
    forall q, raised (fst (rec q c)) = raised q.

  Section Kids.
    Variable rec : st -> omml -> st * lstr.
    Lemma pfirst_r name l : Forall (RInv rec) l -> forall q, raised (fst (pfirst rec name q l)) = raised q.
    Proof.
      induction l as [|c r IH]; intros HF q; simpl; [reflexivity|]. inversion HF; subst.
      destruct (str_eqb (otag c) name); [apply H1 | apply IH; assumption].
    Qed.
    Lemma peach_r l : Forall (RInv rec) l -> forall q, raised (fst (peach rec q l)) = raised q.
    Proof.
      induction l as [|c r IH]; intros HF q; simpl; [reflexivity|]. inversion HF as [|? ? Hc Hr]; subst.
      specialize (Hc q). destruct (rec q c) as [q1 o]. specialize (IH Hr q1).
      destruct (peach rec q1 r) as [q2 os]. cbn [fst snd] in *. congruence.
    Qed.
    Lemma pall_r name l : Forall (RInv rec) l -> forall q, raised (fst (pall rec name q l)) = raised q.
    Proof.
      induction l as [|c r IH]; intros HF q; simpl; [reflexivity|]. inversion HF as [|? ? Hc Hr]; subst.
      destruct (str_eqb (otag c) name); [|apply IH; assumption].
      specialize (Hc q). destruct (rec q c) as [q1 o]. specialize (IH Hr q1).
      destruct (pall rec name q1 r) as [q2 os]. cbn [fst snd] in *. congruence.
    Qed.
    Lemma prows_r mr e l : Forall (fun c => Forall (RInv rec) (ochildren c)) l ->
      forall q, raised (fst (prows rec mr e q l)) = raised q.
    Proof.
      induction l as [|c r IH]; intros HF q; simpl; [reflexivity|]. inversion HF as [|? ? Hc Hr]; subst.
      destruct (str_eqb (otag c) mr); [|apply IH; assumption].
      pose proof (pall_r e (ochildren c) Hc q) as H1. destruct (pall rec e q (ochildren c)) as [q1 cells].
      specialize (IH Hr q1). destruct (prows rec mr e q1 r) as [q2 rows]. cbn [fst snd] in *. congruence.
    Qed.
  End Kids.

  Lemma chr_val_some pr name dflt cs : exists v, chr_val T fixed dflt (lookup_chr T fixed pr name cs) = Some v.
  Proof.
    unfold chr_val. cbn [val_default fixed]. destruct (lookup_chr T fixed pr name cs) as [e|]; [|eauto].
    destruct (assoc (m_ns T ++ s "val") (oattrs e)); eauto.
  Qed.

  Lemma process_raised : forall t,
    RInv (process T fixed) t /\ Forall (RInv (process T fixed)) (ochildren t).
  Proof.
    apply omml_ind'. intros tag attrs text cs IH.
    assert (IHc : Forall (RInv (process T fixed)) cs).
    { eapply Forall_impl; [|exact IH]. intros a [Ha _]. exact Ha. }
    assert (IHg : Forall (fun c => Forall (RInv (process T fixed)) (ochildren c)) cs).
    { eapply Forall_impl; [|exact IH]. intros a [_ Ha]. exact Ha. }
    split; [|exact IHc]. clear IH. intro q.
    cbn [process pend_stack own_prop val_default fixed].
    set (R := process T fixed) in *.
    destruct (chr_val_some (s "naryPr") (s "chr") sum_char cs) as [v Hv]. rewrite Hv. clear Hv.
    repeat match goal with
           | |- context [if ?c then _ else _] =>
             match c with
             | context [pfirst] => fail 1
             | _ => destruct c
             end
           end;
    repeat match goal with
           | |- context [pfirst R ?n ?q0 cs] =>
             let H := fresh "H" in pose proof (pfirst_r R n cs IHc q0) as H;
             destruct (pfirst R n q0 cs) as [? ?]; cbn [fst snd] in H |- *
           | |- context [pall R ?n ?q0 cs] =>
             let H := fresh "H" in pose proof (pall_r R n cs IHc q0) as H;
             destruct (pall R n q0 cs) as [? ?]; cbn [fst snd] in H |- *
           | |- context [prows R ?a ?b ?q0 cs] =>
             let H := fresh "H" in pose proof (prows_r R a b cs IHg q0) as H;
             destruct (prows R a b q0 cs) as [? ?]; cbn [fst snd] in H |- *
           | |- context [close_pending ?p ?l] => destruct (close_pending p l) as [? ?]; cbn [fst snd]
           | |- context [if ?c then _ else _] => destruct c; cbn [fst snd]
           end;
    cbn [fst snd push set_pend raised]; try congruence; try (apply peach_r; assumption).
  Qed.
End Total.

Lemma convert_total T t : exists o, convert T fixed t = Ok o.
Proof.
  unfold convert, convert_l.
  pose proof (peach_r (process T fixed) (ochildren t) (proj2 (process_raised T t)) st0) as H.
  destruct (peach (process T fixed) st0 (ochildren t)) as [q o]. cbn [fst snd st0 raised] in H.
  rewrite H. eauto.
Qed.

(* ------------------------------------------------------------------ per-element forms *)
Lemma pfirst_hit R name q c r : otag c = name -> pfirst R name q (c :: r) = R q c.
Proof. intro H. simpl. rewrite H, str_eqb_refl. reflexivity. Qed.
Lemma pfirst_miss R name q c r : otag c <> name -> pfirst R name q (c :: r) = pfirst R name q r.
Proof. intro H. simpl. apply str_eqb_neq in H. rewrite H. reflexivity. Qed.
Lemma ns_neq (p a b : str) : a <> b -> (p ++ a)%list <> (p ++ b)%list.
Proof. intros H E. apply app_inv_head in E. contradiction. Qed.

Lemma find2_none a b cs : forallb (fun c => negb (str_eqb (otag c) a)) cs = true -> find2 a b cs = None.
Proof.
  induction cs as [|c r IH]; simpl; [reflexivity|]. intro H. apply andb_true_iff in H as [Hc Hr].
  apply negb_true_iff in Hc. rewrite Hc. apply IH. exact Hr.
Qed.

Ltac eval_tags :=
  repeat match goal with
         | |- context [str_eqb (s ?a) (s ?b)] =>
           let v := eval vm_compute in (str_eqb (s a) (s b)) in change (str_eqb (s a) (s b)) with v
         end; cbn beta iota; cbn [andb].

Ltac tag_neq := apply ns_neq; vm_compute; discriminate.

Ltac operands :=
  repeat first
    [ rewrite pfirst_hit by assumption
    | rewrite pfirst_miss by (first [ congruence | cbn [otag]; tag_neq | match goal with H : otag ?c = _ |- otag ?c <> _ => rewrite H; tag_neq end ])
    | match goal with |- context [process ?T ?V ?q ?n] => destruct (process T V q n) as [? ?] end ].

Section Forms.
  Variables (T : tables) (V : variant) (q : st) (tag : str) (attrs : list (str * str)) (text : option str).
  Let M x := (m_ns T ++ s x)%list.
  Let R := process T V.

  Lemma form_frac n d :
    local_name tag = s "f" -> mem_str (s "f") (skip_tags T) = false -> otag n = M "num" -> otag d = M "den" ->
    process T V q (Node tag attrs text [n; d]) =
    let (q1, a) := R q n in let (q2, b) := R q1 d in
    (q2, lit (s "\frac{") ++ a ++ lit (s "}{") ++ b ++ lit (s "}")).
  Proof. intros Hl Hs Hn Hd. subst M R. cbv beta in *. cbn [process]. rewrite Hl, Hs. eval_tags. operands. reflexivity. Qed.

  Lemma form_sSup e p :
    local_name tag = s "sSup" -> mem_str (s "sSup") (skip_tags T) = false -> otag e = M "e" -> otag p = M "sup" ->
    process T V q (Node tag attrs text [e; p]) =
    let (q1, a) := R q e in let (q2, b) := R q1 p in (q2, a ++ lit (s "^{") ++ b ++ lit (s "}")).
  Proof. intros Hl Hs Hn Hd. subst M R. cbv beta in *. cbn [process]. rewrite Hl, Hs. eval_tags. operands. reflexivity. Qed.

  Lemma form_sSub e p :
    local_name tag = s "sSub" -> mem_str (s "sSub") (skip_tags T) = false -> otag e = M "e" -> otag p = M "sub" ->
    process T V q (Node tag attrs text [e; p]) =
    let (q1, a) := R q e in let (q2, b) := R q1 p in (q2, a ++ lit (s "_{") ++ b ++ lit (s "}")).
  Proof. intros Hl Hs Hn Hd. subst M R. cbv beta in *. cbn [process]. rewrite Hl, Hs. eval_tags. operands. reflexivity. Qed.

  Lemma form_sSubSup e b p :
    local_name tag = s "sSubSup" -> mem_str (s "sSubSup") (skip_tags T) = false ->
    otag e = M "e" -> otag b = M "sub" -> otag p = M "sup" ->
    process T V q (Node tag attrs text [e; b; p]) =
    let (q1, x) := R q e in let (q2, y) := R q1 b in let (q3, z) := R q2 p in
    (q3, x ++ lit (s "_{") ++ y ++ lit (s "}^{") ++ z ++ lit (s "}")).
  Proof. intros Hl Hs He Hb Hp. subst M R. cbv beta in *. cbn [process]. rewrite Hl, Hs. eval_tags. operands. reflexivity. Qed.

  Lemma form_bar e :
    local_name tag = s "bar" -> mem_str (s "bar") (skip_tags T) = false -> otag e = M "e" ->
    process T V q (Node tag attrs text [e]) =
    let (q1, a) := R q e in (q1, lit (s "\overline{") ++ a ++ lit (s "}")).
  Proof. intros Hl Hs He. subst M R. cbv beta in *. cbn [process]. rewrite Hl, Hs. eval_tags. operands. reflexivity. Qed.

  Lemma form_func f e :
    local_name tag = s "func" -> mem_str (s "func") (skip_tags T) = false -> otag f = M "fName" -> otag e = M "e" ->
    process T V q (Node tag attrs text [f; e]) =
    let (q1, name) := R q f in let (q2, a) := R q1 e in
    let key := strip_l T name in
    (q2, match assoc (chars key) (func_map T) with
         | Some v => if str_eqb v (92 :: chars key) then lit [92] ++ key else lit v
         | None => name
         end ++ lit (s "{") ++ a ++ lit (s "}")).
  Proof.
    intros Hl Hs Hf He. subst M R. cbv beta in *. cbn [process]. rewrite Hl, Hs. eval_tags. operands.
    destruct (process T V q f) as [q1 name]. destruct (process T V q1 e) as [q2 a]. reflexivity.
  Qed.
End Forms.

Section FormsFixed.
  Variables (T : tables) (q : st) (tag : str) (attrs : list (str * str)) (text : option str).
  Let M x := (m_ns T ++ s x)%list.
  Let R := process T fixed.

  (* radical: degree first, then the radicand; \sqrt[deg]{e} / \sqrt{e}; the lone-bracket form opens a pending radical *)
  Lemma form_rad g e :
    local_name tag = s "rad" -> mem_str (s "rad") (skip_tags T) = false -> otag g = M "deg" -> otag e = M "e" ->
    process T fixed q (Node tag attrs text [g; e]) =
    let (q1, d0) := R q g in let (q2, c) := R q1 e in
    let d := strip_l T d0 in
    let key := chars (strip_l T c) in
    if mem_str key (open_brackets T)
    then (set_pend (closer T key :: pend q2) q2,
          if nonempty d then lit (s "\sqrt[") ++ d ++ lit (s "]{") else lit (s "\sqrt{"))
    else (q2, if nonempty d then lit (s "\sqrt[") ++ d ++ lit (s "]{") ++ c ++ lit (s "}")
              else lit (s "\sqrt{") ++ c ++ lit (s "}")).
  Proof.
    intros Hl Hs Hg He. subst M R. cbv beta in *. cbn [process pend_stack fixed]. rewrite Hl, Hs. eval_tags. operands.
    destruct (process T fixed q g) as [q1 d0]. destruct (process T fixed q1 e) as [q2 c]. reflexivity.
  Qed.

  Definition nary_op (o : str) : lstr :=
    match assoc o (op_map T) with Some v => lab OAttr v | None => greek_l T OAttr o end.

  (* n-ary with its own naryPr/chr m:val = o : op_{sub}^{sup} e, limits omitted when blank *)
  Lemma form_nary pa ca ct cc o b p e :
    local_name tag = s "nary" -> mem_str (s "nary") (skip_tags T) = false ->
    otag b = M "sub" -> otag p = M "sup" -> otag e = M "e" ->
    assoc (M "val") ca = Some o ->
    process T fixed q (Node tag attrs text [Node (M "naryPr") pa None [Node (M "chr") ca ct cc]; b; p; e]) =
    let (q1, x) := R q b in let (q2, y) := R q1 p in let (q3, z) := R q2 e in
    (q3, nary_op o
         ++ (if nonempty (strip_l T x) then lit (s "_{") ++ x ++ lit (s "}") else [])
         ++ (if nonempty (strip_l T y) then lit (s "^{") ++ y ++ lit (s "}") else [])
         ++ lit (s " ") ++ z).
  Proof.
    intros Hl Hs Hb Hp He Ho. subst M R. cbv beta in *. cbn [process]. rewrite Hl, Hs. eval_tags.
    unfold lookup_chr, chr_val. cbn [own_prop fixed find2 otag ochildren find_child oattrs].
    rewrite !str_eqb_refl. cbn [oattrs]. rewrite Ho.
    operands. reflexivity.
  Qed.

  (* operators come from the element's OWN property child: without one, the defaults are used whatever the
     operands contain *)
  Lemma own_nary cs :
    local_name tag = s "nary" -> mem_str (s "nary") (skip_tags T) = false ->
    forallb (fun c => negb (str_eqb (otag c) (M "naryPr"))) cs = true ->
    exists rest, snd (process T fixed q (Node tag attrs text cs)) = nary_op sum_char ++ rest.
  Proof.
    intros Hl Hs Hc. subst M R. cbv beta in *. cbn [process]. rewrite Hl, Hs. eval_tags.
    unfold lookup_chr, chr_val. cbn [own_prop fixed]. rewrite (find2_none _ _ _ Hc).
    destruct (pfirst (process T fixed) (m_ns T ++ s "sub") q cs) as [q1 x].
    destruct (pfirst (process T fixed) (m_ns T ++ s "sup") q1 cs) as [q2 y].
    destruct (pfirst (process T fixed) (m_ns T ++ s "e") q2 cs) as [q3 z].
    cbn [snd]. eexists. reflexivity.
  Qed.

  Lemma own_delim cs :
    local_name tag = s "d" -> mem_str (s "d") (skip_tags T) = false ->
    forallb (fun c => negb (str_eqb (otag c) (M "dPr"))) cs = true ->
    exists parts, snd (process T fixed q (Node tag attrs text cs)) =
                  lab OAttr (s "(") ++ join (lit (s ", ")) parts ++ lab OAttr (s ")").
  Proof.
    intros Hl Hs Hc. subst M R. cbv beta in *. cbn [process]. rewrite Hl, Hs. eval_tags.
    unfold lookup_chr, chr_val. cbn [own_prop fixed]. rewrite !(find2_none _ _ _ Hc).
    destruct (pall (process T fixed) (m_ns T ++ s "e") q cs) as [q1 parts].
    cbn [snd fmt_opt]. eexists. reflexivity.
  Qed.

  Lemma own_acc cs :
    local_name tag = s "acc" -> mem_str (s "acc") (skip_tags T) = false ->
    mem_str (s "m") (skip_tags T) = false ->
    forallb (fun c => negb (str_eqb (otag c) (M "accPr"))) cs = true ->
    exists a, snd (process T fixed q (Node tag attrs text cs)) =
              lab OAttr (match assoc (s "^") (accent_map T) with Some v => v | None => hat end)
              ++ lit (s "{") ++ a ++ lit (s "}").
  Proof.
    intros Hl Hs _ Hc. subst M R. cbv beta in *. cbn [process]. rewrite Hl, Hs. eval_tags.
    unfold lookup_chr. cbn [own_prop fixed]. rewrite (find2_none _ _ _ Hc).
    destruct (pfirst (process T fixed) (m_ns T ++ s "e") q cs) as [q1 a].
    cbn [snd]. eexists. reflexivity.
  Qed.

  (* delimiter with explicit own characters and two operands: l e1, e2 r *)
  Lemma form_delim pa ba bt bc l ea et ec r e1 e2 :
    local_name tag = s "d" -> mem_str (s "d") (skip_tags T) = false ->
    otag e1 = M "e" -> otag e2 = M "e" ->
    assoc (M "val") ba = Some l -> assoc (M "val") ea = Some r ->
    process T fixed q (Node tag attrs text
       [Node (M "dPr") pa None [Node (M "begChr") ba bt bc; Node (M "endChr") ea et ec]; e1; e2]) =
    let (q1, x) := R q e1 in let (q2, y) := R q1 e2 in
    (q2, lab OAttr l ++ (x ++ lit (s ", ") ++ y) ++ lab OAttr r).
  Proof.
    intros Hl Hs H1 H2 Hb He. subst M R. cbv beta in *. cbn [process]. rewrite Hl, Hs. eval_tags.
    unfold lookup_chr, chr_val. cbn [own_prop fixed find2 otag ochildren find_child oattrs].
    rewrite !str_eqb_refl.
    assert (N0 : str_eqb (m_ns T ++ s "begChr") (m_ns T ++ s "endChr") = false) by (apply str_eqb_neq; tag_neq).
    rewrite N0. cbn [oattrs]. rewrite Hb, He.
    assert (N1 : str_eqb (m_ns T ++ s "dPr") (m_ns T ++ s "e") = false) by (apply str_eqb_neq; tag_neq).
    cbn [pall otag]. rewrite N1, H1, H2, !str_eqb_refl.
    destruct (process T fixed q e1) as [q1 x]. destruct (process T fixed q1 e2) as [q2 y].
    cbn [fmt_opt join]. reflexivity.
  Qed.

  (* matrix with one row of two cells *)
  Lemma form_matrix ra rt c1 c2 :
    local_name tag = s "m" -> mem_str (s "m") (skip_tags T) = false ->
    otag c1 = M "e" -> otag c2 = M "e" ->
    process T fixed q (Node tag attrs text [Node (M "mr") ra rt [c1; c2]]) =
    let (q1, x) := R q c1 in let (q2, y) := R q1 c2 in
    (q2, lit (s "\begin{matrix}") ++ (x ++ lit (s " & ") ++ y) ++ lit (s "\end{matrix}")).
  Proof.
    intros Hl Hs H1 H2. subst M R. cbv beta in *. cbn [process]. rewrite Hl, Hs. eval_tags.
    cbn [filter otag]. rewrite !str_eqb_refl. cbn [nonempty andb prows otag ochildren pall].
    rewrite !str_eqb_refl, H1, H2, !str_eqb_refl.
    destruct (process T fixed q c1) as [q1 x]. destruct (process T fixed q1 c2) as [q2 y].
    cbn [join]. reflexivity.
  Qed.

  (* accent with its own accPr/chr m:val = a *)
  Lemma form_acc pa ca ct cc a e :
    local_name tag = s "acc" -> mem_str (s "acc") (skip_tags T) = false ->
    otag e = M "e" -> assoc (M "val") ca = Some a ->
    process T fixed q (Node tag attrs text [Node (M "accPr") pa None [Node (M "chr") ca ct cc]; e]) =
    let (q1, x) := R q e in
    (q1, lab OAttr (match assoc a (accent_map T) with Some v => v | None => hat end)
         ++ lit (s "{") ++ x ++ lit (s "}")).
  Proof.
    intros Hl Hs He Ha. subst M R. cbv beta in *. cbn [process]. rewrite Hl, Hs. eval_tags.
    unfold lookup_chr. cbn [own_prop fixed find2 otag ochildren find_child oattrs].
    rewrite !str_eqb_refl. cbn [oattrs]. rewrite Ha.
    operands. reflexivity.
  Qed.
End FormsFixed.
