From S2T Require Import Lib.PyStr C19.Model.
From Coq Require Import List NArith Bool Lia.
Import ListNotations.
