(* C19 — executable model of sharepoint2text/parsing/extractors/util/omml_to_latex.py.
   Definitions only.  The model follows process_element case by case; it is parametric in
     T : tables   — GREEK_TO_LATEX, _SKIP_TAGS, M_NS and the local dict/tuple literals of the converter
                    (regenerated from the live module on every check run, Gen/C19Tables.v), and the
                    code points for which str.isspace() holds (str.strip oracle);
     V : variant  — which of the three behaviours that the fixes/C19-*.patch repairs change is modelled.
                    `fixed` is the repaired code (all theorems), `orig` the code before the repairs
                    (refutations only; also used by the check to diagnose an unrepaired tree).
   ElementTree is an oracle: a tree is what ET.fromstring returned (tag, attrib, text, children);
   Element.find(tag), find("a/b"), find(".//a"), findall(tag), iteration and attrib.get are modelled
   for exactly the path forms the converter uses. *)
From S2T Require Import Lib.PyStr.
From Coq Require Import List NArith Bool.
Import ListNotations.
Open Scope N_scope.

(* ------------------------------------------------------------------ trees *)
Inductive omml := Node (tag : str) (attrs : list (str * str)) (text : option str) (children : list omml).

Definition otag (t : omml) : str := match t with Node g _ _ _ => g end.
Definition oattrs (t : omml) : list (str * str) := match t with Node _ a _ _ => a end.
Definition otext (t : omml) : option str := match t with Node _ _ x _ => x end.
Definition ochildren (t : omml) : list omml := match t with Node _ _ _ c => c end.

(* ------------------------------------------------------------------ labelled output *)
(* every output character carries its origin: a literal of the converter, a (mapped) run text,
   or an attribute-derived operator/delimiter.  The implementation's string is `chars out`. *)
Inductive origin := OLit | OTxt | OAttr.
Definition lchar := (origin * N)%type.
Definition lstr := list lchar.

Definition lab (o : origin) (x : str) : lstr := map (pair o) x.
Definition lit (x : str) : lstr := lab OLit x.
Definition chars (l : lstr) : str := map snd l.
Definition is_txt (c : lchar) : bool := match fst c with OTxt => true | _ => false end.
Definition txt_of (l : lstr) : str := chars (filter is_txt l).

Fixpoint join {A} (sep : list A) (parts : list (list A)) : list A :=
  match parts with
  | [] => []
  | [x] => x
  | x :: r => x ++ sep ++ join sep r
  end.

(* ------------------------------------------------------------------ tables and variants *)
Record tables := {
  m_ns : str;                        (* M_NS *)
  greek : list (str * str);          (* GREEK_TO_LATEX *)
  skip_tags : list str;              (* _SKIP_TAGS *)
  op_map : list (str * str);
  func_map : list (str * str);
  accent_map : list (str * str);
  bracket_map : list (str * str);
  open_brackets : list str;          (* the tuple ("(", "[", "{") of the malformed-radical test *)
  spaces : list N                    (* code points c with chr(c).isspace() — what str.strip removes *)
}.

Record variant := {
  own_prop : bool;     (* operator/delimiter/accent character looked up in the element's own property child
                          (find("naryPr/chr")) instead of the first descendant (find(".//chr")) *)
  val_default : bool;  (* chr/begChr/endChr without m:val fall back to the default character instead of None *)
  pend_stack : bool    (* pending radical closers form a stack and m:deg is processed before m:e, instead of a
                          single overwritten slot with m:e processed first *)
}.
Definition fixed : variant := {| own_prop := true; val_default := true; pend_stack := true |}.
Definition orig : variant := {| own_prop := false; val_default := false; pend_stack := false |}.

(* ------------------------------------------------------------------ Python helpers *)
Fixpoint mem_N (x : N) (l : list N) : bool :=
  match l with [] => false | y :: r => N.eqb x y || mem_N x r end.

(* tag.split("}")[-1] *)
Fixpoint local_name_aux (acc x : str) : str :=
  match x with
  | [] => rev acc
  | c :: r => if N.eqb c 125 then local_name_aux [] r else local_name_aux (c :: acc) r
  end.
Definition local_name (x : str) : str := local_name_aux [] x.

(* convert_greek_and_symbols, output labelled o *)
Definition greek_char (T : tables) (c : N) : str :=
  match assoc [c] (greek T) with Some v => v | None => [c] end.
Definition greek_str (T : tables) (x : str) : str := flat_map (greek_char T) x.
Definition greek_l (T : tables) (o : origin) (x : str) : lstr := lab o (greek_str T x).

(* str.strip() on a labelled string *)
Definition is_ws (T : tables) (c : lchar) : bool := mem_N (snd c) (spaces T).
Definition lstrip_l (T : tables) (l : lstr) : lstr := dropWhile (is_ws T) l.
Definition strip_l (T : tables) (l : lstr) : lstr := rev (dropWhile (is_ws T) (rev (lstrip_l T l))).

Definition nonempty {A} (l : list A) : bool := match l with [] => false | _ => true end.

(* needle in hay / hay.index(needle) *)
Fixpoint find_sub (needle hay : str) : option nat :=
  if startswith hay needle then Some O
  else match hay with
       | [] => None
       | _ :: r => match find_sub needle r with Some i => Some (S i) | None => None end
       end.

(* ------------------------------------------------------------------ ElementTree look-ups *)
Fixpoint find_child (name : str) (l : list omml) : option omml :=
  match l with
  | [] => None
  | c :: r => if str_eqb (otag c) name then Some c else find_child name r
  end.

(* elem.find("a/b"): first b-child of the a-children, in document order *)
Fixpoint find2 (a b : str) (l : list omml) : option omml :=
  match l with
  | [] => None
  | c :: r => if str_eqb (otag c) a
              then match find_child b (ochildren c) with Some x => Some x | None => find2 a b r end
              else find2 a b r
  end.

(* elem.find(".//a"): first proper descendant in document (pre-)order *)
Section Desc.
  Variable rec : omml -> option omml.
  Fixpoint first_desc_list (name : str) (l : list omml) : option omml :=
    match l with
    | [] => None
    | c :: r => if str_eqb (otag c) name then Some c
                else match rec c with Some x => Some x | None => first_desc_list name r end
    end.
End Desc.
Fixpoint find_desc (name : str) (t : omml) {struct t} : option omml :=
  match t with Node _ _ _ cs => first_desc_list (find_desc name) name cs end.
Definition find_desc_in (name : str) (cs : list omml) : option omml :=
  first_desc_list (find_desc name) name cs.

(* ------------------------------------------------------------------ converter state *)
(* pending: closers of the malformed radicals still open, innermost first (Python keeps the innermost last);
   raised: a TypeError has been raised (only reachable with val_default = false) *)
Record st := { pend : list str; raised : bool }.
Definition st0 : st := {| pend := []; raised := false |}.
Definition set_pend (p : list str) (q : st) : st := {| pend := p; raised := raised q |}.
Definition set_raised (q : st) : st := {| pend := pend q; raised := true |}.
Definition push (V : variant) (c : str) (q : st) : st :=
  set_pend (if pend_stack V then c :: pend q else [c]) q.

(* the `t` case: close every pending radical whose closer occurs in the text *)
Fixpoint close_pending (p : list str) (l : lstr) : list str * lstr :=
  match p with
  | [] => ([], l)
  | c :: p' =>
    match find_sub c (chars l) with
    | Some i => let (p2, o) := close_pending p' (skipn (S i) l) in (p2, firstn i l ++ lit (s "}") ++ o)
    | None => (p, l)
    end
  end.

Section Helpers.
  Variable rec : st -> omml -> st * lstr.
  (* process_element(elem.find(name)) — process_element(None) is "" *)
  Fixpoint pfirst (name : str) (q : st) (l : list omml) : st * lstr :=
    match l with
    | [] => (q, [])
    | c :: r => if str_eqb (otag c) name then rec q c else pfirst name q r
    end.
  (* [process_element(e) for e in elem.findall(name)] *)
  Fixpoint pall (name : str) (q : st) (l : list omml) : st * list lstr :=
    match l with
    | [] => (q, [])
    | c :: r => if str_eqb (otag c) name
                then let (q1, o) := rec q c in let (q2, os) := pall name q1 r in (q2, o :: os)
                else pall name q r
    end.
  (* for child in elem: result.append(process_element(child)); "".join(result) *)
  Fixpoint peach (q : st) (l : list omml) : st * lstr :=
    match l with
    | [] => (q, [])
    | c :: r => let (q1, o) := rec q c in let (q2, os) := peach q1 r in (q2, o ++ os)
    end.
  (* for mr in elem.findall(mr): rows.append(" & ".join([process_element(e) for e in mr.findall(e)])) *)
  Fixpoint prows (mr e : str) (q : st) (l : list omml) : st * list lstr :=
    match l with
    | [] => (q, [])
    | c :: r => if str_eqb (otag c) mr
                then let (q1, cells) := pall e q (ochildren c) in
                     let (q2, rows) := prows mr e q1 r in (q2, join (lit (s " & ")) cells :: rows)
                else prows mr e q r
    end.
End Helpers.

Definition sum_char : str := [8721].
Definition hat : str := s "\hat".

(* elem.find(<own property child or first descendant>) then .get(M_NS + "val"[, default]) *)
Definition lookup_chr (T : tables) (V : variant) (pr name : str) (cs : list omml) : option omml :=
  if own_prop V then find2 (m_ns T ++ pr) (m_ns T ++ name) cs else find_desc_in (m_ns T ++ name) cs.

Definition chr_val (T : tables) (V : variant) (dflt : str) (c : option omml) : option str :=
  match c with
  | None => Some dflt
  | Some e => match assoc (m_ns T ++ s "val") (oattrs e) with
              | Some v => Some v
              | None => if val_default V then Some dflt else None
              end
  end.

(* f"{left}" *)
Definition fmt_opt (o : option str) : lstr :=
  match o with Some v => lab OAttr v | None => lab OAttr (s "None") end.

Fixpoint process (T : tables) (V : variant) (q : st) (t : omml) {struct t} : st * lstr :=
  match t with
  | Node tag attrs text cs =>
    let M := fun x => m_ns T ++ x in
    let R := process T V in
    let tg := local_name tag in
    if mem_str tg (skip_tags T) then (q, [])
    else if str_eqb tg (s "t") then
      let (p', o) := close_pending (pend q) (greek_l T OTxt (match text with Some x => x | None => [] end)) in
      (set_pend p' q, o)
    else if str_eqb tg (s "f") then
      let (q1, num) := pfirst R (M (s "num")) q cs in
      let (q2, den) := pfirst R (M (s "den")) q1 cs in
      (q2, lit (s "\frac{") ++ num ++ lit (s "}{") ++ den ++ lit (s "}"))
    else if str_eqb tg (s "sSup") then
      let (q1, base) := pfirst R (M (s "e")) q cs in
      let (q2, sup) := pfirst R (M (s "sup")) q1 cs in
      (q2, base ++ lit (s "^{") ++ sup ++ lit (s "}"))
    else if str_eqb tg (s "sSub") then
      let (q1, base) := pfirst R (M (s "e")) q cs in
      let (q2, sub) := pfirst R (M (s "sub")) q1 cs in
      (q2, base ++ lit (s "_{") ++ sub ++ lit (s "}"))
    else if str_eqb tg (s "sSubSup") then
      let (q1, base) := pfirst R (M (s "e")) q cs in
      let (q2, sub) := pfirst R (M (s "sub")) q1 cs in
      let (q3, sup) := pfirst R (M (s "sup")) q2 cs in
      (q3, base ++ lit (s "_{") ++ sub ++ lit (s "}^{") ++ sup ++ lit (s "}"))
    else if str_eqb tg (s "rad") then
      let '(q2, deg0, content) :=
        if pend_stack V
        then let (q1, d) := pfirst R (M (s "deg")) q cs in
             let (q2, c) := pfirst R (M (s "e")) q1 cs in (q2, d, c)
        else let (q1, c) := pfirst R (M (s "e")) q cs in
             let (q2, d) := pfirst R (M (s "deg")) q1 cs in (q2, d, c) in
      let deg := strip_l T deg0 in
      let key := chars (strip_l T content) in
      if mem_str key (open_brackets T) then
        let close := match assoc key (bracket_map T) with Some v => v | None => s ")" end in
        (push V close q2,
         if nonempty deg then lit (s "\sqrt[") ++ deg ++ lit (s "]{") else lit (s "\sqrt{"))
      else
        (q2, if nonempty deg
             then lit (s "\sqrt[") ++ deg ++ lit (s "]{") ++ content ++ lit (s "}")
             else lit (s "\sqrt{") ++ content ++ lit (s "}"))
    else if str_eqb tg (s "nary") then
      let op := chr_val T V sum_char (lookup_chr T V (s "naryPr") (s "chr") cs) in
      (* op_map.get(op, convert_greek_and_symbols(op)): the default is evaluated first, so op = None raises *)
      let q0 := match op with None => set_raised q | Some _ => q end in
      let latex_op := match op with
                      | Some o => match assoc o (op_map T) with
                                  | Some v => lab OAttr v
                                  | None => greek_l T OAttr o
                                  end
                      | None => []
                      end in
      let (q1, sub) := pfirst R (M (s "sub")) q0 cs in
      let (q2, sup) := pfirst R (M (s "sup")) q1 cs in
      let (q3, content) := pfirst R (M (s "e")) q2 cs in
      (q3, latex_op
           ++ (if nonempty (strip_l T sub) then lit (s "_{") ++ sub ++ lit (s "}") else [])
           ++ (if nonempty (strip_l T sup) then lit (s "^{") ++ sup ++ lit (s "}") else [])
           ++ lit (s " ") ++ content)
    else if str_eqb tg (s "d") then
      let left := chr_val T V (s "(") (lookup_chr T V (s "dPr") (s "begChr") cs) in
      let right := chr_val T V (s ")") (lookup_chr T V (s "dPr") (s "endChr") cs) in
      let (q1, parts) := pall R (M (s "e")) q cs in
      (q1, fmt_opt left ++ join (lit (s ", ")) parts ++ fmt_opt right)
    else if str_eqb tg (s "m") && nonempty (filter (fun c => str_eqb (otag c) (M (s "mr"))) cs) then
      let (q1, rows) := prows R (M (s "mr")) (M (s "e")) q cs in
      (q1, lit (s "\begin{matrix}") ++ join (lit (s " \\ ")) rows ++ lit (s "\end{matrix}"))
    else if str_eqb tg (s "func") then
      let (q1, fname) := pfirst R (M (s "fName")) q cs in
      let (q2, content) := pfirst R (M (s "e")) q1 cs in
      (* func_map.get(fname_text.strip(), fname_text).  Labels only: when the value is "\" + key (as for every
         entry of today's table) its characters after the backslash ARE the stripped name and keep their origin *)
      let key := strip_l T fname in
      let latex_fname := match assoc (chars key) (func_map T) with
                         | Some v => if str_eqb v (92 :: chars key) then lit [92] ++ key else lit v
                         | None => fname
                         end in
      (q2, latex_fname ++ lit (s "{") ++ content ++ lit (s "}"))
    else if str_eqb tg (s "bar") then
      let (q1, content) := pfirst R (M (s "e")) q cs in
      (q1, lit (s "\overline{") ++ content ++ lit (s "}"))
    else if str_eqb tg (s "acc") then
      let accent := match lookup_chr T V (s "accPr") (s "chr") cs with
                    | Some e => assoc (m_ns T ++ s "val") (oattrs e)
                    | None => Some (s "^")
                    end in
      let (q1, content) := pfirst R (M (s "e")) q cs in
      let latex_accent := match accent with
                          | Some a => match assoc a (accent_map T) with Some v => v | None => hat end
                          | None => hat
                          end in
      (q1, lab OAttr latex_accent ++ lit (s "{") ++ content ++ lit (s "}"))
    else peach R q cs
  end.

Inductive result := Ok (out : lstr) | Raise (cls : str).

(* omml_to_latex(omath_element) for an element; the children of the root are processed, then every
   radical still pending is closed *)
Definition convert_l (T : tables) (V : variant) (t : omml) : st * lstr :=
  let (q, o) := peach (process T V) st0 (ochildren t) in
  (q, o ++ lit (concat (map (fun _ => s "}") (pend q)))).

Definition convert (T : tables) (V : variant) (t : omml) : result :=
  let (q, o) := convert_l T V t in
  if raised q then Raise (s "TypeError") else Ok o.

(* omml_to_latex(None) = "" *)
Definition convert_opt (T : tables) (V : variant) (t : option omml) : result :=
  match t with None => Ok [] | Some x => convert T V x end.

(* ================================================================== specification vocabulary
   (executable meaning of the property's right-hand sides; used by Props.v, Inst.v and the check) *)

(* brace balance: running depth never negative, zero at the end *)
Fixpoint depth_ok (d : nat) (x : str) : option nat :=
  match x with
  | [] => Some d
  | c :: r => if N.eqb c 123 then depth_ok (S d) r
              else if N.eqb c 125 then match d with O => None | S d' => depth_ok d' r end
              else depth_ok d r
  end.
Definition balanced (x : str) : bool := match depth_ok 0 x with Some O => true | _ => false end.

Definition nb (c : N) : bool := negb (N.eqb c 123) && negb (N.eqb c 125).
Definition nb_str (x : str) : bool := forallb nb x.

(* no literal brace in any text or attribute value of the tree *)
Section Forall_tree.
  Variable rec : omml -> bool.
  Fixpoint all_children (l : list omml) : bool :=
    match l with [] => true | c :: r => rec c && all_children r end.
End Forall_tree.
Fixpoint nobrace (t : omml) {struct t} : bool :=
  match t with
  | Node _ attrs text cs =>
    forallb (fun kv => nb_str (snd kv)) attrs
    && match text with Some x => nb_str x | None => true end
    && all_children nobrace cs
  end.

(* a mapped value / operator name is harmless for the balance argument: balanced on its own, and if it contains
   an opening brace it also contains a visible character that is not an opening brace *)
Definition visible (T : tables) (c : N) : bool := negb (N.eqb c 123) && negb (mem_N c (spaces T)).
Definition lone_ok (T : tables) (x : str) : bool := negb (existsb (N.eqb 123) x) || existsb (visible T) x.
Definition value_ok (T : tables) (v : str) : bool :=
  match depth_ok 0 v with Some O => lone_ok T v | _ => false end.
Definition closer (T : tables) (key : str) : str :=
  match assoc key (bracket_map T) with Some v => v | None => s ")" end.
Definition single_nb (x : str) : bool := match x with [c] => nb c | _ => false end.
Definition open_ok (T : tables) (o : str) : bool :=
  match o with
  | [x] => negb (N.eqb x 125) && (N.eqb x 123 || single_nb (closer T o))
  | _ => false
  end.
Definition wf (T : tables) : bool :=
  forallb (fun kv => value_ok T (snd kv)) (greek T)
  && forallb (fun kv => value_ok T (snd kv)) (op_map T)
  && forallb (fun kv => value_ok T (snd kv)) (accent_map T)
  && forallb (fun kv => value_ok T (snd kv) && nb_str (fst kv)) (func_map T)
  && forallb (open_ok T) (open_brackets T)
  && forallb (fun c => negb (mem_N c (spaces T))) [92; 94; 95; 123; 125].
