(* C19 — proof of "every run's text exactly once, in source order" for the fragment texts_ok (C19/TextSpec.v). *)
From Coq Require Import ZArith List Bool Lia.
From S2T Require Import Lib.PyStr C19.Model C19.Proofs C19.TextSpec.
Import ListNotations.
Open Scope N_scope.

(* ------------------------------------------------------------------ txt_of *)
Lemma txt_of_app a b : txt_of (a ++ b) = txt_of a ++ txt_of b.
Proof. unfold txt_of, chars. rewrite filter_app, map_app. reflexivity. Qed.
Lemma txt_of_lit x : txt_of (lit x) = [].
Proof. induction x as [|c x IH]; [reflexivity | exact IH]. Qed.
Lemma txt_of_attr x : txt_of (lab OAttr x) = [].
Proof. induction x as [|c x IH]; [reflexivity | exact IH]. Qed.
Lemma txt_of_txt x : txt_of (lab OTxt x) = x.
Proof. induction x as [|c x IH]; [reflexivity|]. unfold txt_of, chars in *. simpl. rewrite IH. reflexivity. Qed.
Lemma txt_of_join sep parts : txt_of (join (lit sep) parts) = List.concat (map txt_of parts).
Proof.
  induction parts as [|x r IH]; [reflexivity|]. rewrite join_cons_l, txt_of_app. simpl. f_equal.
  destruct r as [|y r]; [reflexivity|]. rewrite txt_of_app, txt_of_lit. exact IH.
Qed.
Lemma txt_of_incl g o : In g (txt_of o) -> In g (chars o).
Proof.
  unfold txt_of, chars. rewrite !in_map_iff. intros (c & Hc & Hin). exists c. split; [exact Hc|].
  apply filter_In in Hin. tauto.
Qed.

Lemma greek_str_app T a b : greek_str T (a ++ b) = greek_str T a ++ greek_str T b.
Proof. unfold greek_str. apply flat_map_app. Qed.

Lemma concat_nil (f : str -> str) (l : list str) : (forall x, In x l -> f x = []) -> List.concat (map f l) = [].
Proof.
  induction l as [|x l IH]; intro H; simpl; [reflexivity|].
  rewrite (H x (or_introl eq_refl)). apply IH. intros y Hy. apply H. right. exact Hy.
Qed.

(* ------------------------------------------------------------------ texts of subtrees without t *)
Lemma no_t_texts : forall t, has_t t = false -> texts t = [].
Proof.
  apply (omml_ind' (fun t => has_t t = false -> texts t = [])). intros tag attrs text cs IH H.
  cbn [has_t] in H. apply orb_false_iff in H as [H1 H2]. cbn [texts]. rewrite H1. simpl.
  induction cs as [|c r IHr]; [reflexivity|]. simpl in *. apply orb_false_iff in H2 as [Hc Hr].
  inversion IH as [|? ? Pc Pr]; subst. rewrite (Pc Hc). simpl. apply IHr; assumption.
Qed.
Lemma no_t_texts_list cs : existsb has_t cs = false -> flat_map texts cs = [].
Proof.
  induction cs as [|c r IH]; [reflexivity|]. simpl. intro H. apply orb_false_iff in H as [Hc Hr].
  rewrite (no_t_texts c Hc), (IH Hr). reflexivity.
Qed.

(* ------------------------------------------------------------------ find_child / after / shape *)
Lemma find_child_hit name c r : str_eqb (otag c) name = true -> find_child name (c :: r) = Some c.
Proof. intro H. simpl. rewrite H. reflexivity. Qed.
Lemma find_child_miss name c r : str_eqb (otag c) name = false -> find_child name (c :: r) = find_child name r.
Proof. intro H. simpl. rewrite H. reflexivity. Qed.

Lemma after_split x : forall ss ss', after x ss = Some ss' -> exists a, ss = (a ++ x :: ss')%list /\ ~ In x a.
Proof.
  induction ss as [|y r IH]; intros ss' H; simpl in H; [discriminate|].
  destruct (str_eqb x y) eqn:E.
  - inversion H; subst. apply str_eqb_eq in E. subst y. exists []. split; [reflexivity | tauto].
  - destruct (IH ss' H) as (a & Ha & Hn). exists (y :: a). split; [simpl; congruence|].
    intros [Hy|Hy]; [|tauto]. subst y. rewrite str_eqb_refl in E. discriminate.
Qed.

Fixpoint nodupb (l : list str) : bool :=
  match l with [] => true | x :: r => negb (mem_str x r) && nodupb r end.
Lemma nodupb_NoDup l : nodupb l = true -> NoDup l.
Proof.
  induction l as [|x r IH]; intro H; [constructor|]. simpl in H. apply andb_true_iff in H as [H1 H2].
  constructor; [|apply IH; exact H2]. intro Hin. apply mem_str_In in Hin. rewrite Hin in H1. discriminate.
Qed.
Lemma slots_NoDup T names : NoDup names -> NoDup (slots T names).
Proof.
  unfold slots. induction names as [|x r IH]; intro H; simpl; [constructor|]. inversion H; subst.
  constructor; [|apply IH; assumption]. intro Hin. apply in_map_iff in Hin as (y & Hy & Hyr).
  apply app_inv_head in Hy. subst y. contradiction.
Qed.

Lemma nodup_mid (a : list str) x ss' : NoDup (a ++ x :: ss') ->
  NoDup ss' /\ ~ In x ss' /\ (forall y, In y a -> ~ In y ss' /\ y <> x).
Proof.
  induction a as [|y a IH]; simpl; intro H.
  - inversion H; subst. repeat split; try assumption; contradiction.
  - inversion H as [|? ? Hy Hr]; subst. destruct (IH Hr) as (I1 & I2 & I3). repeat split; try assumption.
    + destruct H0 as [->|H0]; [|exact (proj1 (I3 _ H0))]. intro Hi. apply Hy. apply in_or_app. right. right. exact Hi.
    + destruct H0 as [->|H0]; [|exact (proj2 (I3 _ H0))]. intro E. subst. apply Hy. apply in_or_app. right. left. reflexivity.
Qed.

Section ShapeLemmas.
  Variable rec : omml -> bool.
  Variable all : list str.

  Lemma shape_rel : forall cs ss c, shape rec all ss cs = true -> In c cs -> mem_str (otag c) all = true -> rec c = true.
  Proof.
    induction cs as [|d r IH]; intros ss c H Hin Hm; [contradiction|]. simpl in H.
    destruct (mem_str (otag d) all) eqn:Ed.
    - destruct (after (otag d) ss) as [ss'|]; [|discriminate]. apply andb_true_iff in H as [H1 H2].
      destruct Hin as [->|Hin]; [exact H1 | exact (IH ss' c H2 Hin Hm)].
    - apply andb_true_iff in H as [_ H2]. destruct Hin as [->|Hin]; [congruence | exact (IH ss c H2 Hin Hm)].
  Qed.

  Lemma shape_none x : forall cs ss, shape rec all ss cs = true -> mem_str x all = true -> ~ In x ss ->
    find_child x cs = None.
  Proof.
    induction cs as [|d r IH]; intros ss H Hx Hn; [reflexivity|]. simpl in H.
    destruct (mem_str (otag d) all) eqn:Ed.
    - destruct (after (otag d) ss) as [ss'|] eqn:Ea; [|discriminate]. apply andb_true_iff in H as [_ H2].
      destruct (after_split _ _ _ Ea) as (a & Hs & _).
      assert (Hne : str_eqb (otag d) x = false).
      { apply str_eqb_neq. intro E. apply Hn. rewrite Hs, <- E. apply in_or_app. right. left. reflexivity. }
      rewrite (find_child_miss _ _ _ Hne). apply (IH ss' H2 Hx). intro Hi. apply Hn. rewrite Hs.
      apply in_or_app. right. right. exact Hi.
    - apply andb_true_iff in H as [_ H2].
      assert (Hne : str_eqb (otag d) x = false) by (apply str_eqb_neq; intro E; congruence).
      rewrite (find_child_miss _ _ _ Hne). exact (IH ss H2 Hx Hn).
  Qed.

  Lemma slot_texts_miss x c r : str_eqb (otag c) x = false -> slot_texts x (c :: r) = slot_texts x r.
  Proof. intro H. unfold slot_texts. rewrite (find_child_miss _ _ _ H). reflexivity. Qed.

  Lemma shape_texts : forall cs ss, NoDup ss -> (forall x, In x ss -> mem_str x all = true) ->
    shape rec all ss cs = true ->
    flat_map texts cs = List.concat (map (fun x => slot_texts x cs) ss).
  Proof.
    induction cs as [|c r IH]; intros ss Hnd Hin H.
    - simpl. symmetry. apply concat_nil. reflexivity.
    - simpl in H. destruct (mem_str (otag c) all) eqn:Ec.
      + destruct (after (otag c) ss) as [ss'|] eqn:Ea; [|discriminate]. apply andb_true_iff in H as [_ H2].
        destruct (after_split _ _ _ Ea) as (a & Hs & Hna). subst ss.
        destruct (nodup_mid _ _ _ Hnd) as (Hnd' & Hk & Ha).
        rewrite map_app, concat_app. simpl.
        rewrite (concat_nil (fun x => slot_texts x (c :: r)) a).
        2:{ intros x Hx. destruct (Ha x Hx) as [Hx1 Hx2].
            assert (Hne : str_eqb (otag c) x = false) by (apply str_eqb_neq; congruence).
            rewrite (slot_texts_miss _ _ _ Hne). unfold slot_texts.
            rewrite (shape_none x r ss' H2); [reflexivity | apply Hin; apply in_or_app; left; exact Hx | exact Hx1]. }
        simpl. unfold slot_texts at 1. rewrite (find_child_hit _ c r (str_eqb_refl _)). f_equal.
        rewrite (IH ss' Hnd' (fun x Hx => Hin x (in_or_app a (otag c :: ss') x (or_intror (in_cons (otag c) x ss' Hx)))) H2).
        f_equal. apply map_ext_in. intros x Hx. symmetry. apply slot_texts_miss. apply str_eqb_neq.
        intro E. subst x. exact (Hk Hx).
      + apply andb_true_iff in H as [H1 H2]. apply negb_true_iff in H1. simpl.
        rewrite (no_t_texts c H1). simpl. rewrite (IH ss Hnd Hin H2). f_equal. apply map_ext_in.
        intros x Hx. symmetry. apply slot_texts_miss. apply str_eqb_neq. intro E.
        rewrite E, (Hin x Hx) in Ec. discriminate.
  Qed.
End ShapeLemmas.

(* ------------------------------------------------------------------ whitespace-free run texts and strip *)
Section Txt.
  Variable T : tables.
  Hypothesis WF : wf_txt T = true.

  Definition nonws (c : N) : bool := negb (mem_N c (spaces T)).
  Definition tnw (o : lstr) : bool := forallb (fun c => negb (is_txt c) || negb (is_ws T c)) o.

  Lemma tnw_app a b : tnw (a ++ b) = tnw a && tnw b.
  Proof. apply forallb_app. Qed.
  Lemma tnw_lit x : tnw (lit x) = true.
  Proof. induction x as [|c x IH]; [reflexivity | exact IH]. Qed.
  Lemma tnw_attr x : tnw (lab OAttr x) = true.
  Proof. induction x as [|c x IH]; [reflexivity | exact IH]. Qed.
  Lemma tnw_txt x : forallb nonws x = true -> tnw (lab OTxt x) = true.
  Proof.
    induction x as [|c x IH]; [reflexivity|]. simpl. intro H. apply andb_true_iff in H as [H1 H2].
    unfold is_ws. simpl. unfold nonws in H1. rewrite H1. simpl. exact (IH H2).
  Qed.
  Lemma tnw_join sep parts : forallb tnw parts = true -> tnw (join (lit sep) parts) = true.
  Proof.
    induction parts as [|x r IH]; [reflexivity|]. simpl forallb. intro H. apply andb_true_iff in H as [H1 H2].
    rewrite join_cons_l, tnw_app, H1. simpl. destruct r as [|y r]; [reflexivity|].
    rewrite tnw_app, tnw_lit. exact (IH H2).
  Qed.

  Lemma ws_no_txt o : tnw o = true -> forallb (is_ws T) o = true -> txt_of o = [].
  Proof.
    induction o as [|c o IH]; [reflexivity|]. simpl. intros H1 H2.
    apply andb_true_iff in H1 as [Hc H1]. apply andb_true_iff in H2 as [Hw H2].
    rewrite Hw in Hc. simpl in Hc. rewrite orb_false_r in Hc. apply negb_true_iff in Hc.
    unfold txt_of, chars in *. simpl. rewrite Hc. exact (IH H1 H2).
  Qed.

  Lemma strip_txt o : tnw o = true -> txt_of (strip_l T o) = txt_of o /\ tnw (strip_l T o) = true.
  Proof.
    intro H. destruct (strip_decomp T o) as (a & b & E & Ha & Hb).
    rewrite E in H. rewrite !tnw_app in H. apply andb_true_iff in H as [H1 H]. apply andb_true_iff in H as [H2 H3].
    split; [|exact H2]. rewrite E at 2. rewrite !txt_of_app, (ws_no_txt a H1 Ha), (ws_no_txt b H3 Hb), app_nil_r.
    reflexivity.
  Qed.

  Lemma strip_keeps g o : In g (chars o) -> mem_N g (spaces T) = false -> In g (chars (strip_l T o)).
  Proof.
    intros Hin Hg. destruct (strip_decomp T o) as (a & b & E & Ha & Hb).
    rewrite E, !chars_app, !in_app_iff in Hin.
    assert (Hw : forall w, forallb (is_ws T) w = true -> ~ In g (chars w)).
    { intros w Hw Hi. unfold chars in Hi. apply in_map_iff in Hi as (c & Hc & Hi).
      rewrite forallb_forall in Hw. specialize (Hw c Hi). unfold is_ws in Hw. congruence. }
    destruct Hin as [Hi|[Hi|Hi]]; [exfalso; exact (Hw a Ha Hi) | exact Hi | exfalso; exact (Hw b Hb Hi)].
  Qed.

  Lemma wf_greek : forall k v, assoc k (greek T) = Some v -> forallb nonws v = true /\ existsb (good T) v = true.
  Proof.
    intros k v Ha. unfold wf_txt in WF. apply andb_true_iff in WF as [Hg _].
    apply assoc_In in Ha. rewrite forallb_forall in Hg. specialize (Hg _ Ha). simpl in Hg.
    apply andb_true_iff in Hg. exact Hg.
  Qed.
  Lemma wf_func : forall k v, assoc k (func_map T) = Some v -> str_eqb v (92 :: k) = true.
  Proof.
    intros k v Ha. unfold wf_txt in WF. apply andb_true_iff in WF as [_ Hf].
    apply assoc_In in Ha. rewrite forallb_forall in Hf. exact (Hf _ Ha).
  Qed.

  Lemma good_nonws c : good T c = true -> nonws c = true.
  Proof. unfold good, nonws. intro H. apply andb_true_iff in H as [H _]. exact H. Qed.

  Lemma greek_good x : forallb (good T) x = true ->
    forallb nonws (greek_str T x) = true /\ (x <> [] -> existsb (good T) (greek_str T x) = true).
  Proof.
    induction x as [|c x IH]; intro H; [split; [reflexivity | congruence]|].
    simpl in H. apply andb_true_iff in H as [Hc Hx]. destruct (IH Hx) as [I1 _].
    assert (Hv : forallb nonws (greek_char T c) = true /\ existsb (good T) (greek_char T c) = true).
    { unfold greek_char. destruct (assoc [c] (greek T)) as [v|] eqn:E; [exact (wf_greek _ _ E)|].
      simpl. rewrite (good_nonws c Hc), Hc. split; reflexivity. }
    destruct Hv as [V1 V2]. simpl. split.
    - rewrite forallb_app, V1, I1. reflexivity.
    - intros _. rewrite existsb_app, V2. reflexivity.
  Qed.

  (* a radicand that contains a visible non-bracket run-text character is not the lone-bracket form *)
  Lemma not_lone o x : tnw o = true -> txt_of o = greek_str T x -> forallb (good T) x = true -> x <> [] ->
    mem_str (chars (strip_l T o)) (open_brackets T) = false.
  Proof.
    intros Ht Ho Hx Hne. destruct (greek_good x Hx) as [_ Hg]. specialize (Hg Hne).
    apply existsb_exists in Hg as (g & Hin & Hgood). rewrite <- Ho in Hin. apply txt_of_incl in Hin.
    unfold good in Hgood. apply andb_true_iff in Hgood as [G1 G2]. apply negb_true_iff in G1, G2.
    pose proof (strip_keeps g o Hin G1) as Hk.
    destruct (mem_str (chars (strip_l T o)) (open_brackets T)) eqn:E; [|reflexivity].
    apply mem_str_In in E. exfalso.
    assert (Hc : In g (List.concat (open_brackets T))) by (apply in_concat; eauto).
    assert (Hm : mem_N g (List.concat (open_brackets T)) = true).
    { clear - Hc. induction (List.concat (open_brackets T)) as [|y l IH]; [contradiction|]. simpl.
      destruct Hc as [->|Hc]; [rewrite N.eqb_refl; reflexivity | rewrite (IH Hc); apply orb_true_r]. }
    congruence.
  Qed.

  (* ---------------- the invariant *)
  Definition TRes (q' : st) (o : lstr) (x : str) : Prop :=
    pend q' = [] /\ txt_of o = greek_str T x /\ tnw o = true /\ forallb (good T) x = true.

  Definition TInv (R : st -> omml -> st * lstr) (c : omml) : Prop :=
    texts_ok T c = true -> forall q, pend q = [] -> TRes (fst (R q c)) (snd (R q c)) (texts c).

  Lemma TRes_nil q : pend q = [] -> TRes q [] [].
  Proof. intro H. repeat split; assumption || reflexivity. Qed.

  Section Kids.
    Variable R : st -> omml -> st * lstr.

    Lemma pfirst_T name cs : Forall (TInv R) cs ->
      (forall c, In c cs -> otag c = name -> texts_ok T c = true) ->
      forall q, pend q = [] -> TRes (fst (pfirst R name q cs)) (snd (pfirst R name q cs)) (slot_texts name cs).
    Proof.
      induction cs as [|c r IH]; intros HF Hok q Hq; [apply TRes_nil; exact Hq|].
      inversion HF as [|? ? Hc Hr]; subst. simpl. unfold slot_texts. simpl.
      destruct (str_eqb (otag c) name) eqn:E.
      - apply Hc; [|exact Hq]. apply Hok; [left; reflexivity | apply str_eqb_eq; exact E].
      - apply (IH Hr); [|exact Hq]. intros d Hd. apply Hok. right. exact Hd.
    Qed.

    Lemma pfirst_shape all name cs : Forall (TInv R) cs -> shape (texts_ok T) all all cs = true ->
      mem_str name all = true ->
      forall q, pend q = [] -> TRes (fst (pfirst R name q cs)) (snd (pfirst R name q cs)) (slot_texts name cs).
    Proof.
      intros HF Hs Hm. apply pfirst_T; [exact HF|]. intros c Hc Ht.
      apply (shape_rel _ _ _ _ _ Hs Hc). rewrite Ht. exact Hm.
    Qed.

    Lemma peach_T cs : Forall (TInv R) cs -> forallb (texts_ok T) cs = true ->
      forall q, pend q = [] -> TRes (fst (peach R q cs)) (snd (peach R q cs)) (flat_map texts cs).
    Proof.
      induction cs as [|c r IH]; intros HF Hok q Hq; [apply TRes_nil; exact Hq|].
      inversion HF as [|? ? Hc Hr]; subst. simpl in Hok. apply andb_true_iff in Hok as [O1 O2]. simpl.
      specialize (Hc O1 q Hq). destruct (R q c) as [q1 o]. cbn [fst snd] in Hc. destruct Hc as (C1 & C2 & C3 & C4).
      specialize (IH Hr O2 q1 C1). destruct (peach R q1 r) as [q2 os]. cbn [fst snd] in *.
      destruct IH as (I1 & I2 & I3 & I4). split; [exact I1|].
      rewrite txt_of_app, greek_str_app, tnw_app, forallb_app, C2, C3, C4, I2, I3, I4. repeat split; reflexivity.
    Qed.

    Definition cell_ok (name : str) (c : omml) : bool :=
      if str_eqb (otag c) name then texts_ok T c else negb (has_t c).

    Lemma pall_T name cs : Forall (TInv R) cs -> forallb (cell_ok name) cs = true ->
      forall q, pend q = [] ->
      let r := pall R name q cs in
      pend (fst r) = [] /\ List.concat (map txt_of (snd r)) = greek_str T (flat_map texts cs)
      /\ forallb tnw (snd r) = true /\ forallb (good T) (flat_map texts cs) = true.
    Proof.
      induction cs as [|c r IH]; intros HF Hok q Hq; [repeat split; assumption || reflexivity|].
      inversion HF as [|? ? Hc Hr]; subst. simpl in Hok. apply andb_true_iff in Hok as [O1 O2]. simpl.
      unfold cell_ok in O1. destruct (str_eqb (otag c) name).
      - specialize (Hc O1 q Hq). destruct (R q c) as [q1 o]. cbn [fst snd] in Hc. destruct Hc as (C1 & C2 & C3 & C4).
        specialize (IH Hr O2 q1 C1). destruct (pall R name q1 r) as [q2 os]. cbn [fst snd] in *.
        destruct IH as (I1 & I2 & I3 & I4). split; [exact I1|]. simpl.
        rewrite greek_str_app, forallb_app, C2, C3, C4, I2, I3, I4. repeat split; reflexivity.
      - apply negb_true_iff in O1. rewrite (no_t_texts c O1). simpl. exact (IH Hr O2 q Hq).
    Qed.

    Definition row_ok (mr e : str) (c : omml) : bool :=
      if str_eqb (otag c) mr
      then negb (str_eqb (local_name (otag c)) (s "t")) && forallb (cell_ok e) (ochildren c)
      else negb (has_t c).

    Lemma prows_T mr e cs : Forall (fun c => Forall (TInv R) (ochildren c)) cs ->
      forallb (row_ok mr e) cs = true ->
      forall q, pend q = [] ->
      let r := prows R mr e q cs in
      pend (fst r) = [] /\ List.concat (map txt_of (snd r)) = greek_str T (flat_map texts cs)
      /\ forallb tnw (snd r) = true /\ forallb (good T) (flat_map texts cs) = true.
    Proof.
      induction cs as [|c r IH]; intros HF Hok q Hq; [repeat split; assumption || reflexivity|].
      inversion HF as [|? ? Hc Hr]; subst. simpl in Hok. apply andb_true_iff in Hok as [O1 O2]. simpl.
      unfold row_ok in O1. destruct (str_eqb (otag c) mr).
      - apply andb_true_iff in O1 as [N1 O1]. apply negb_true_iff in N1.
        pose proof (pall_T e (ochildren c) Hc O1 q Hq) as P. cbv zeta in P.
        destruct (pall R e q (ochildren c)) as [q1 cells]. cbn [fst snd] in P. destruct P as (C1 & C2 & C3 & C4).
        specialize (IH Hr O2 q1 C1). cbv zeta in IH. destruct (prows R mr e q1 r) as [q2 rows]. cbn [fst snd] in *.
        destruct IH as (I1 & I2 & I3 & I4). split; [exact I1|]. cbn [map List.concat flat_map forallb].
        assert (Ht : texts c = flat_map texts (ochildren c)).
        { destruct c as [g a x k]. cbn [texts ochildren otag] in *. rewrite N1. reflexivity. }
        change [(OLit, 32); (OLit, 38); (OLit, 32)] with (lit (s " & ")). rewrite Ht, txt_of_join, greek_str_app, forallb_app, C2, C4, I2, I3, I4, (tnw_join _ _ C3).
        repeat split; reflexivity.
      - apply negb_true_iff in O1. rewrite (no_t_texts c O1). simpl. exact (IH Hr O2 q Hq).
    Qed.
  End Kids.

  (* ---------------- per-case helpers *)
  Lemma texts_slots tag attrs text cs names :
    str_eqb (local_name tag) (s "t") = false -> nodupb names = true ->
    shape (texts_ok T) (slots T names) (slots T names) cs = true ->
    texts (Node tag attrs text cs) = List.concat (map (fun x => slot_texts x cs) (slots T names)).
  Proof.
    intros Et Hn Hs. cbn [texts]. rewrite Et. cbn [app].
    apply (shape_texts (texts_ok T) (slots T names) cs (slots T names)); [|intros x Hx; apply mem_str_In; exact Hx | exact Hs].
    apply slots_NoDup. apply nodupb_NoDup. exact Hn.
  Qed.

  Lemma texts_plain tag attrs text cs :
    str_eqb (local_name tag) (s "t") = false -> texts (Node tag attrs text cs) = flat_map texts cs.
  Proof. intro Et. cbn [texts]. rewrite Et. reflexivity. Qed.

  Lemma op_txt o : txt_of (match assoc o (op_map T) with Some v => lab OAttr v | None => greek_l T OAttr o end) = []
                   /\ tnw (match assoc o (op_map T) with Some v => lab OAttr v | None => greek_l T OAttr o end) = true.
  Proof. destruct (assoc o (op_map T)); unfold greek_l; split; apply txt_of_attr || apply tnw_attr. Qed.

  Lemma opt_txt a b x : tnw x = true ->
    txt_of (if nonempty (strip_l T x) return (list lchar) then lit a ++ x ++ lit b else []) = txt_of x
    /\ tnw (if nonempty (strip_l T x) return (list lchar) then lit a ++ x ++ lit b else []) = true.
  Proof.
    intro Hx. destruct (nonempty (strip_l T x)) eqn:E.
    - rewrite !txt_of_app, !txt_of_lit, !tnw_app, !tnw_lit, Hx, app_nil_r. split; reflexivity.
    - apply nonempty_false in E. apply strip_empty_ws in E. rewrite (ws_no_txt x Hx E). split; reflexivity.
  Qed.

  Ltac mem_slot := apply mem_str_In; unfold slots; cbn [map In]; repeat (first [left; reflexivity | right]).

  Ltac slot_step R IHc Hs q Hq q1 o P :=
    match goal with |- context [pfirst R ?name q ?cs] =>
      match type of Hs with shape _ ?all _ _ = true =>
        let Hm := fresh "Hm" in
        assert (Hm : mem_str name all = true) by mem_slot;
        pose proof (pfirst_shape R all name cs IHc Hs Hm q Hq) as P; clear Hm;
        destruct (pfirst R name q cs) as [q1 o]; cbn [fst snd] in P |- *
      end
    end.

  Ltac use_slots tag attrs text cs Et Hs :=
    match type of Hs with shape _ (slots _ ?names) _ _ = true =>
      rewrite (texts_slots tag attrs text cs names Et eq_refl Hs)
    end.

  Ltac fin := cbn [fst snd slots map List.concat]; rewrite ?app_nil_r;
    rewrite ?txt_of_app, ?txt_of_lit, ?txt_of_attr, ?tnw_app, ?tnw_lit, ?tnw_attr, ?greek_str_app, ?forallb_app;
    cbn [app greek_str flat_map]; rewrite ?app_nil_r.

  Lemma process_T : forall t,
    TInv (process T fixed) t /\ Forall (TInv (process T fixed)) (ochildren t).
  Proof.
    apply omml_ind'. intros tag attrs text cs IH.
    assert (IHc : Forall (TInv (process T fixed)) cs).
    { eapply Forall_impl; [|exact IH]. intros a [Ha _]. exact Ha. }
    assert (IHg : Forall (fun c => Forall (TInv (process T fixed)) (ochildren c)) cs).
    { eapply Forall_impl; [|exact IH]. intros a [_ Ha]. exact Ha. }
    split; [|exact IHc]. clear IH. intros Hok q Hq. cbn [texts_ok] in Hok. revert Hok.
    cbn [process pend_stack own_prop val_default fixed].
    set (R := process T fixed) in *.
    destruct (mem_str (local_name tag) (skip_tags T)).
    { intro Hok. apply andb_true_iff in Hok as [H1 H2]. apply negb_true_iff in H1, H2.
      assert (Ht : texts (Node tag attrs text cs) = []) by (apply no_t_texts; cbn [has_t]; rewrite H1, H2; reflexivity).
      rewrite Ht. apply TRes_nil. exact Hq. }
    destruct (str_eqb (local_name tag) (s "t")) eqn:Et.
    { intro Hok. apply andb_true_iff in Hok as [H1 H2]. apply negb_true_iff in H1.
      rewrite Hq. cbn [close_pending fst snd set_pend pend]. cbn [texts]. rewrite Et, (no_t_texts_list cs H1), app_nil_r.
      fold (opt_text text). unfold greek_l. split; [reflexivity|]. rewrite txt_of_txt. split; [reflexivity|].
      destruct (greek_good _ H2) as [G1 _]. split; [apply tnw_txt; exact G1 | exact H2]. }
    (* f *)
    destruct (str_eqb (local_name tag) (s "f")).
    { intro Hs. slot_step R IHc Hs q Hq q1 a P1. destruct P1 as (A1 & A2 & A3 & A4).
      slot_step R IHc Hs q1 A1 q2 b P2. destruct P2 as (B1 & B2 & B3 & B4).
      split; [exact B1|]. use_slots tag attrs text cs Et Hs. fin.
      rewrite A2, A3, A4, B2, B3, B4. repeat split; reflexivity. }
    destruct (str_eqb (local_name tag) (s "sSup")).
    { intro Hs. slot_step R IHc Hs q Hq q1 a P1. destruct P1 as (A1 & A2 & A3 & A4).
      slot_step R IHc Hs q1 A1 q2 b P2. destruct P2 as (B1 & B2 & B3 & B4).
      split; [exact B1|]. use_slots tag attrs text cs Et Hs. fin.
      rewrite A2, A3, A4, B2, B3, B4. repeat split; reflexivity. }
    destruct (str_eqb (local_name tag) (s "sSub")).
    { intro Hs. slot_step R IHc Hs q Hq q1 a P1. destruct P1 as (A1 & A2 & A3 & A4).
      slot_step R IHc Hs q1 A1 q2 b P2. destruct P2 as (B1 & B2 & B3 & B4).
      split; [exact B1|]. use_slots tag attrs text cs Et Hs. fin.
      rewrite A2, A3, A4, B2, B3, B4. repeat split; reflexivity. }
    destruct (str_eqb (local_name tag) (s "sSubSup")).
    { intro Hs. slot_step R IHc Hs q Hq q1 a P1. destruct P1 as (A1 & A2 & A3 & A4).
      slot_step R IHc Hs q1 A1 q2 b P2. destruct P2 as (B1 & B2 & B3 & B4).
      slot_step R IHc Hs q2 B1 q3 c P3. destruct P3 as (C1 & C2 & C3 & C4).
      split; [exact C1|]. use_slots tag attrs text cs Et Hs. fin.
      rewrite A2, A3, A4, B2, B3, B4, C2, C3, C4. repeat split; reflexivity. }
    (* rad *)
    destruct (str_eqb (local_name tag) (s "rad")).
    { intro Hok. apply andb_true_iff in Hok as [Hs Hne].
      slot_step R IHc Hs q Hq q1 d0 P1. destruct P1 as (A1 & A2 & A3 & A4).
      slot_step R IHc Hs q1 A1 q2 c P2. destruct P2 as (B1 & B2 & B3 & B4).
      assert (Hx : slot_texts (m_ns T ++ s "e") cs <> []) by (intro E; rewrite E in Hne; discriminate).
      rewrite (not_lone c _ B3 B2 B4 Hx).
      destruct (strip_txt d0 A3) as [S1 S2].
      split; [exact B1|]. use_slots tag attrs text cs Et Hs. fin.
      destruct (nonempty (strip_l T d0)) eqn:En; fin.
      - rewrite S1, S2, A2, A4, B2, B3, B4. repeat split; reflexivity.
      - apply nonempty_false in En. rewrite En in S1. cbn in S1. rewrite <- A2, <- S1. cbn [app].
        rewrite A4, B2, B3, B4. repeat split; reflexivity. }
    (* nary *)
    destruct (str_eqb (local_name tag) (s "nary")).
    { intro Hs. destruct (chr_val_some T (s "naryPr") (s "chr") sum_char cs) as [o Ho]. rewrite Ho. clear Ho.
      destruct (op_txt o) as [O1 O2].
      slot_step R IHc Hs q Hq q1 a P1. destruct P1 as (A1 & A2 & A3 & A4).
      slot_step R IHc Hs q1 A1 q2 b P2. destruct P2 as (B1 & B2 & B3 & B4).
      slot_step R IHc Hs q2 B1 q3 c P3. destruct P3 as (C1 & C2 & C3 & C4).
      destruct (opt_txt (s "_{") (s "}") a A3) as [X1 X2]. destruct (opt_txt (s "^{") (s "}") b B3) as [Y1 Y2].
      split; [exact C1|]. use_slots tag attrs text cs Et Hs. fin.
      rewrite O1, O2, X1, X2, Y1, Y2, A2, A4, B2, B4, C2, C3, C4. repeat split; reflexivity. }
    (* d *)
    destruct (str_eqb (local_name tag) (s "d")).
    { intro Hok. destruct (chr_val_some T (s "dPr") (s "begChr") (s "(") cs) as [l Hl]. rewrite Hl. clear Hl.
      destruct (chr_val_some T (s "dPr") (s "endChr") (s ")") cs) as [r Hr]. rewrite Hr. clear Hr.
      pose proof (pall_T R (m_ns T ++ s "e") cs IHc Hok q Hq) as P. cbv zeta in P.
      destruct (pall R (m_ns T ++ s "e") q cs) as [q1 parts]. cbn [fst snd fmt_opt] in *.
      destruct P as (A1 & A2 & A3 & A4). split; [exact A1|]. rewrite (texts_plain _ _ _ _ Et). fin.
      rewrite txt_of_join, (tnw_join _ _ A3), A2, A4, ?app_nil_r. repeat split; reflexivity. }
    (* m *)
    destruct (str_eqb (local_name tag) (s "m") && nonempty (filter (fun c => str_eqb (otag c) (m_ns T ++ s "mr")) cs)).
    { intro Hok. pose proof (prows_T R (m_ns T ++ s "mr") (m_ns T ++ s "e") cs IHg Hok q Hq) as P. cbv zeta in P.
      destruct (prows R (m_ns T ++ s "mr") (m_ns T ++ s "e") q cs) as [q1 rows]. cbn [fst snd] in *.
      destruct P as (A1 & A2 & A3 & A4). split; [exact A1|]. rewrite (texts_plain _ _ _ _ Et). fin.
      rewrite txt_of_join, (tnw_join _ _ A3), A2, A4, ?app_nil_r. repeat split; reflexivity. }
    (* func *)
    destruct (str_eqb (local_name tag) (s "func")).
    { intro Hs. slot_step R IHc Hs q Hq q1 f P1. destruct P1 as (A1 & A2 & A3 & A4).
      slot_step R IHc Hs q1 A1 q2 c P2. destruct P2 as (B1 & B2 & B3 & B4).
      destruct (strip_txt f A3) as [S1 S2].
      split; [exact B1|]. use_slots tag attrs text cs Et Hs. fin.
      destruct (assoc (chars (strip_l T f)) (func_map T)) as [v|] eqn:Ev.
      - rewrite (wf_func _ _ Ev). fin. rewrite S1, S2, A2, A4, B2, B3, B4. repeat split; reflexivity.
      - rewrite A2, A3, A4, B2, B3, B4. repeat split; reflexivity. }
    destruct (str_eqb (local_name tag) (s "bar")).
    { intro Hs. slot_step R IHc Hs q Hq q1 a P1. destruct P1 as (A1 & A2 & A3 & A4).
      split; [exact A1|]. use_slots tag attrs text cs Et Hs. fin.
      rewrite A2, A3, A4. repeat split; reflexivity. }
    destruct (str_eqb (local_name tag) (s "acc")).
    { intro Hs. slot_step R IHc Hs q Hq q1 a P1. destruct P1 as (A1 & A2 & A3 & A4).
      split; [exact A1|]. use_slots tag attrs text cs Et Hs. fin.
      rewrite A2, A3, A4. repeat split; reflexivity. }
    intro Hok. rewrite (texts_plain _ _ _ _ Et). apply peach_T; assumption.
  Qed.

  Lemma convert_texts t out : texts_ok_root T t = true -> convert T fixed t = Ok out ->
    txt_of out = greek_str T (texts_root t).
  Proof.
    intros Hok. unfold convert, convert_l.
    pose proof (peach_T (process T fixed) (ochildren t) (proj2 (process_T t)) Hok st0 eq_refl) as P.
    destruct (peach (process T fixed) st0 (ochildren t)) as [q o]. cbn [fst snd] in P.
    destruct P as (P1 & P2 & _). destruct (raised q); [discriminate|]. intro H. inversion H; subst out.
    rewrite P1. cbn [map List.concat]. rewrite txt_of_app, txt_of_lit, app_nil_r. exact P2.
  Qed.
End Txt.
