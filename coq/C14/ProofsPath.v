(* C14 — part-name resolution: the stack machine of resolve_part_name against a relational
   specification (RFC 3986 5.2.4 "remove dot segments" on part names), its equations, legacy refutations. *)
From Coq Require Import ZArith List Bool Lia.
From S2T Require Import Lib.PyStr C01.Loops C14.Model.
Import ListNotations.
Open Scope N_scope.

(* ---------------------------------------------------------------- specification *)
(* Resolves bs parts out : starting in directory bs (root first), following the reference
   segments `parts` ends at `out`. *)
Inductive Resolves : list str -> list str -> list str -> Prop :=
| R_done bs : Resolves bs [] bs
| R_skip bs p r out : is_empty p || is_dot p = true -> Resolves bs r out -> Resolves bs (p :: r) out
| R_up bs d p r out : is_dotdot p = true -> Resolves bs r out -> Resolves (bs ++ [d]) (p :: r) out
| R_up_root p r out : is_dotdot p = true -> Resolves [] r out -> Resolves [] (p :: r) out
| R_seg bs p r out : seg_clean p = true -> Resolves (bs ++ [p]) r out -> Resolves bs (p :: r) out.

Definition resolves_spec (bs : list str) (target : str) (out : list str) : Prop :=
  Resolves (if is_abs target then [] else bs) (split_slash target) out.

Lemma skip_not_dotdot p : is_empty p || is_dot p = true -> is_dotdot p = false.
Proof.
  unfold is_empty, is_dot, is_dotdot. destruct p as [|a p]; [reflexivity|].
  intro H. assert (E : str_eqb (a :: p) [DOT] = true) by exact H.
  apply str_eqb_eq in E. inversion E; subst. reflexivity.
Qed.

Lemma clean_cases p : seg_clean p = true <-> is_dotdot p = false /\ is_empty p || is_dot p = false.
Proof.
  unfold seg_clean. destruct (is_empty p), (is_dot p), (is_dotdot p); simpl; intuition congruence.
Qed.

Lemma walk_resolves parts : forall bs, Resolves bs parts (rev (walk (rev bs) parts)).
Proof.
  induction parts as [|p r IH]; intro bs; simpl.
  - rewrite rev_involutive. constructor.
  - destruct (is_dotdot p) eqn:Edd.
    + destruct (rev bs) as [|d rb] eqn:E.
      * assert (bs = []) by (apply (f_equal (@rev str)) in E; rewrite rev_involutive in E; exact E). subst.
        apply R_up_root; [exact Edd|]. exact (IH []).
      * assert (bs = rev rb ++ [d]) by (apply (f_equal (@rev str)) in E; rewrite rev_involutive in E; exact E). subst.
        apply R_up; [exact Edd|]. simpl. specialize (IH (rev rb)). rewrite rev_involutive in IH. exact IH.
    + destruct (is_empty p || is_dot p) eqn:Esk.
      * apply R_skip; [exact Esk | apply IH].
      * apply R_seg; [apply clean_cases; auto|]. specialize (IH (bs ++ [p])).
        rewrite rev_app_distr in IH. exact IH.
Qed.

Lemma resolves_fun bs parts out : Resolves bs parts out -> out = rev (walk (rev bs) parts).
Proof.
  induction 1 as [bs | bs p r out Hs _ IH | bs d p r out Hd _ IH | p r out Hd _ IH | bs p r out Hc _ IH]; simpl.
  - rewrite rev_involutive. reflexivity.
  - rewrite (skip_not_dotdot p Hs), Hs. exact IH.
  - rewrite Hd, rev_app_distr. simpl. exact IH.
  - rewrite Hd. exact IH.
  - apply clean_cases in Hc as [H1 H2]. rewrite H1, H2. rewrite rev_app_distr in IH. exact IH.
Qed.

(* the implementation computes exactly the specified part name *)
Lemma resolve_segs_spec bs t out : resolves_spec bs t out <-> out = resolve_segs bs t.
Proof.
  unfold resolves_spec, resolve_segs. split.
  - intro H. apply resolves_fun in H. destruct (is_abs t); exact H.
  - intros ->. destruct (is_abs t).
    + exact (walk_resolves (split_slash t) []).
    + exact (walk_resolves (split_slash t) bs).
Qed.

(* ---------------------------------------------------------------- split / join *)
Lemma split_slash_nonnil x : split_slash x <> [].
Proof. destruct x as [|c r]; simpl; [discriminate|]. destruct (N.eqb c SLASH); [discriminate|]. destruct (split_slash r); discriminate. Qed.

Lemma join_split x : join_slash (split_slash x) = x.
Proof.
  induction x as [|c r IH]; [reflexivity|]. simpl.
  destruct (N.eqb c SLASH) eqn:E.
  - apply N.eqb_eq in E; subst. pose proof (split_slash_nonnil r) as Hn.
    simpl. destruct (split_slash r) as [|h t] eqn:Es; [congruence|]. rewrite <- IH. reflexivity.
  - pose proof (split_slash_nonnil r) as Hn. destruct (split_slash r) as [|h t] eqn:Es; [congruence|].
    rewrite <- IH. destruct t; reflexivity.
Qed.

Definition no_slash (a : str) : bool := forallb (fun c => negb (N.eqb c SLASH)) a.

Lemma split_app_slash a b : no_slash a = true -> split_slash (a ++ SLASH :: b) = a :: split_slash b.
Proof.
  induction a as [|c a IH]; simpl; intro H; [reflexivity|].
  apply andb_true_iff in H as [H1 H2]. apply negb_true_iff in H1. rewrite H1, (IH H2). reflexivity.
Qed.

Lemma join_app a b : a <> [] -> b <> [] -> join_slash (a ++ b) = join_slash a ++ SLASH :: join_slash b.
Proof.
  induction a as [|x a IH]; intros Ha Hb; [congruence|].
  destruct a as [|y a].
  - simpl. destruct b; [congruence | reflexivity].
  - change ((x :: y :: a) ++ b) with (x :: ((y :: a) ++ b)).
    change (join_slash (x :: (y :: a) ++ b)) with (x ++ SLASH :: join_slash ((y :: a) ++ b)).
    rewrite IH by (auto; discriminate). simpl. rewrite <- app_assoc. reflexivity.
Qed.

(* ---------------------------------------------------------------- equations of resolution *)
Lemma walk_clean parts : forall stk, forallb seg_clean parts = true -> walk stk parts = rev parts ++ stk.
Proof.
  induction parts as [|p r IH]; intros stk H; [reflexivity|]. simpl in *.
  apply andb_true_iff in H as [H1 H2]. apply clean_cases in H1 as [Ha Hb]. rewrite Ha, Hb, (IH _ H2).
  rewrite <- app_assoc. reflexivity.
Qed.

(* relative reference without dot segments: the part below the base directory *)
Lemma resolve_relative bs t :
  is_abs t = false -> forallb seg_clean (split_slash t) = true ->
  resolve_segs bs t = bs ++ split_slash t.
Proof.
  intros Ha Hc. unfold resolve_segs. rewrite Ha, (walk_clean _ _ Hc), rev_app_distr, !rev_involutive. reflexivity.
Qed.

(* absolute reference: resolved from the package root, whatever the base is *)
Lemma resolve_absolute bs t : resolve_segs bs (SLASH :: t) = resolve_segs [] t.
Proof.
  unfold resolve_segs. change (is_abs (SLASH :: t)) with true. simpl.
  destruct (is_abs t); reflexivity.
Qed.

Lemma split_dotdot t : split_slash (s "../" ++ t) = [DOT; DOT] :: split_slash t.
Proof. cbn. destruct (split_slash t); reflexivity. Qed.
Lemma split_dot t : split_slash (s "./" ++ t) = [DOT] :: split_slash t.
Proof. cbn. destruct (split_slash t); reflexivity. Qed.

(* parent-relative reference: one directory up *)
Lemma resolve_parent bs d t : is_abs t = false -> resolve_segs (bs ++ [d]) (s "../" ++ t) = resolve_segs bs t.
Proof.
  intro Ha. unfold resolve_segs. rewrite Ha, split_dotdot. change (is_abs (s "../" ++ t)) with false.
  rewrite rev_app_distr. reflexivity.
Qed.
Lemma resolve_parent_root t : is_abs t = false -> resolve_segs [] (s "../" ++ t) = resolve_segs [] t.
Proof. intro Ha. unfold resolve_segs. rewrite Ha, split_dotdot. reflexivity. Qed.

Lemma resolve_dot bs t : is_abs t = false -> resolve_segs bs (s "./" ++ t) = resolve_segs bs t.
Proof. intro Ha. unfold resolve_segs. rewrite Ha, split_dot. reflexivity. Qed.

(* x/../t = t for a naming segment x *)
Lemma resolve_detour bs x t :
  seg_clean x = true -> no_slash x = true -> is_abs t = false ->
  resolve_segs bs (x ++ SLASH :: s "../" ++ t) = resolve_segs bs t.
Proof.
  intros Hc Hn Ha. unfold resolve_segs.
  assert (Hx : is_abs (x ++ SLASH :: s "../" ++ t) = false).
  { destruct x as [|c x]; [discriminate|]. simpl in Hn. apply andb_true_iff in Hn as [Hn _].
    apply negb_true_iff in Hn. unfold is_abs. cbn [app startswith]. rewrite N.eqb_sym, Hn. reflexivity. }
  rewrite Hx, Ha, (split_app_slash _ _ Hn), split_dotdot. simpl.
  apply clean_cases in Hc as [H1 H2]. rewrite H1, H2. reflexivity.
Qed.

(* the result names a part: no "", ".", ".." segment *)
Lemma walk_keeps_clean parts : forall stk, forallb seg_clean stk = true -> forallb seg_clean (walk stk parts) = true.
Proof.
  induction parts as [|p r IH]; intros stk H; [exact H|]. simpl.
  destruct (is_dotdot p) eqn:E1.
  - apply IH. destruct stk; [reflexivity|]. simpl in H. apply andb_true_iff in H as [_ H]. exact H.
  - destruct (is_empty p || is_dot p) eqn:E2; [apply IH; exact H|].
    apply IH. simpl. rewrite H, andb_true_r. apply clean_cases. auto.
Qed.

Lemma forallb_rev {A} (f : A -> bool) l : forallb f (rev l) = forallb f l.
Proof.
  induction l as [|x l IH]; [reflexivity|]. simpl. rewrite forallb_app, IH. simpl. rewrite andb_true_r, andb_comm. reflexivity.
Qed.

Lemma resolve_clean bs t : forallb seg_clean bs = true -> forallb seg_clean (resolve_segs bs t) = true.
Proof.
  intro H. unfold resolve_segs. rewrite forallb_rev. apply walk_keeps_clean.
  destruct (is_abs t); [reflexivity | rewrite forallb_rev; exact H].
Qed.

Lemma base_segs_clean_nonempty base : forallb (fun p => negb (is_empty p)) (base_segs base) = true.
Proof. unfold base_segs. induction (split_slash base) as [|p l IH]; [reflexivity|]. simpl. destruct (is_empty p) eqn:E; simpl; [exact IH | rewrite E; exact IH]. Qed.

(* string level: a clean relative reference below a clean base directory is base + "/" + target *)
Lemma resolve_part_relative base t :
  forallb seg_clean (split_slash base) = true -> is_abs t = false -> forallb seg_clean (split_slash t) = true ->
  resolve_part base t = base ++ SLASH :: t.
Proof.
  intros Hb Ha Hc. unfold resolve_part.
  assert (Hbs : base_segs base = split_slash base).
  { unfold base_segs. induction (split_slash base) as [|p l IH]; [reflexivity|]. simpl in *.
    apply andb_true_iff in Hb as [H1 H2]. unfold seg_clean in H1. destruct (is_empty p); [discriminate|]. simpl. f_equal. exact (IH H2). }
  rewrite Hbs, (resolve_relative _ _ Ha Hc), join_app by apply split_slash_nonnil.
  rewrite !join_split. reflexivity.
Qed.

Lemma resolve_part_root_relative t :
  is_abs t = false -> forallb seg_clean (split_slash t) = true -> resolve_part [] t = t.
Proof.
  intros Ha Hc. unfold resolve_part. change (base_segs []) with (@nil str).
  rewrite (resolve_relative _ _ Ha Hc). simpl. apply join_split.
Qed.

(* ---------------------------------------------------------------- legacy resolvers *)
Lemma clean_no_dotdot parts : forallb seg_clean parts = true -> existsb is_dotdot parts = false.
Proof.
  induction parts as [|p r IH]; [reflexivity|]. simpl. intro H. apply andb_true_iff in H as [H1 H2].
  apply clean_cases in H1 as [H1 _]. rewrite H1, (IH H2). reflexivity.
Qed.

Lemma pptx_legacy_relative base t :
  forallb seg_clean (split_slash base) = true -> is_abs t = false -> forallb seg_clean (split_slash t) = true ->
  pptx_legacy base t = resolve_part base t.
Proof.
  intros Hb Ha Hc. rewrite (resolve_part_relative _ _ Hb Ha Hc). unfold pptx_legacy.
  rewrite Ha, (clean_no_dotdot _ Hc). reflexivity.
Qed.

Lemma docx_legacy_relative t :
  is_abs t = false -> forallb seg_clean (split_slash t) = true -> docx_legacy t = resolve_part (s "word") t.
Proof. intros Ha Hc. rewrite (resolve_part_relative (s "word") t eq_refl Ha Hc). reflexivity. Qed.

Lemma odf_legacy_relative href :
  is_abs href = false -> forallb seg_clean (split_slash href) = true -> odf_legacy href = resolve_part [] href.
Proof. intros Ha Hc. rewrite (resolve_part_root_relative _ Ha Hc). reflexivity. Qed.
