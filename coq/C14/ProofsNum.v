(* C14 — numbering counters, pass-through of the media payload, unit view vs document view. *)
From Coq Require Import ZArith List Bool Lia.
From S2T Require Import Lib.PyStr C01.Loops C14.Model.
Import ListNotations.
Open Scope Z_scope.

(* k+1, k+2, ..., k+n *)
Fixpoint zseq (k : Z) (n : nat) : list Z :=
  match n with O => [] | S n' => (k + 1) :: zseq (k + 1) n' end.

Lemma zseq_app k n m : zseq k (n + m) = zseq k n ++ zseq (k + Z.of_nat n) m.
Proof.
  revert k; induction n as [|n IH]; intro k; simpl.
  - f_equal. lia.
  - f_equal. rewrite IH. f_equal. f_equal. lia.
Qed.

Section Num.
  Variables A B : Type.
  Variable fetch : A -> option B.

  Definition found (a : A) : list B := match fetch a with Some b => [b] | None => [] end.

  Lemma number_found_numbers l : forall k,
    map fst (number_found fetch k l) = zseq k (List.length (number_found fetch k l)).
  Proof.
    induction l as [|a r IH]; intro k; simpl; [reflexivity|].
    destruct (fetch a); simpl; [f_equal|]; apply IH.
  Qed.

  (* the payloads are exactly the found media, in document order, untouched *)
  Lemma number_found_payload l : forall k, map snd (number_found fetch k l) = flat_map found l.
  Proof.
    induction l as [|a r IH]; intro k; simpl; [reflexivity|].
    unfold found at 1. destruct (fetch a); simpl; [f_equal|]; apply IH.
  Qed.

  Lemma number_all_payload l : forall k, map snd (number_all fetch k l) = flat_map found l.
  Proof.
    induction l as [|a r IH]; intro k; simpl; [reflexivity|].
    unfold found at 1. destruct (fetch a); simpl; [f_equal|]; apply IH.
  Qed.

  Definition all_found (l : list A) : bool := forallb (fun a => match fetch a with Some _ => true | None => false end) l.

  Lemma number_all_when_found l : forall k, all_found l = true -> number_all fetch k l = number_found fetch k l.
  Proof.
    induction l as [|a r IH]; intros k H; simpl; [reflexivity|]. simpl in H.
    destruct (fetch a); [|discriminate]. f_equal. apply IH. exact H.
  Qed.

  Lemma running_numbers units : forall k,
    map fst (List.concat (number_units_running fetch k units))
    = zseq k (List.length (List.concat (number_units_running fetch k units))).
  Proof.
    induction units as [|u r IH]; intro k; [reflexivity|].
    cbn [number_units_running List.concat]. rewrite map_app, app_length, zseq_app, number_found_numbers, IH. reflexivity.
  Qed.

  Lemma running_payload units : forall k,
    map snd (List.concat (number_units_running fetch k units)) = flat_map found (List.concat units).
  Proof.
    induction units as [|u r IH]; intro k; [reflexivity|].
    cbn [number_units_running List.concat]. rewrite map_app, flat_map_app, number_found_payload, IH. reflexivity.
  Qed.

  (* every unit of the running numbering holds the found media of that unit *)
  Lemma running_unit_payload units : forall k,
    map (map snd) (number_units_running fetch k units) = map (flat_map found) units.
  Proof.
    induction units as [|u r IH]; intro k; [reflexivity|].
    cbn [number_units_running map]. rewrite number_found_payload, IH. reflexivity.
  Qed.

  Lemma restart_unit_payload units :
    map (map snd) (number_units_restart fetch units) = map (flat_map found) units.
  Proof.
    unfold number_units_restart. rewrite map_map. apply map_ext. intro u. apply number_found_payload.
  Qed.

  Lemma restart_single u :
    map fst (List.concat (number_units_restart fetch [u]))
    = zseq 0 (List.length (List.concat (number_units_restart fetch [u]))).
  Proof. unfold number_units_restart. cbn [map List.concat]. rewrite app_nil_r. apply number_found_numbers. Qed.
End Num.

(* two slides with one picture each: numbers 1, 1 *)
Lemma restart_refuted :
  exists (units : list (list bool)) (fetch : bool -> option bool),
    map fst (List.concat (number_units_restart fetch units))
    <> zseq 0 (List.length (List.concat (number_units_restart fetch units))).
Proof. exists [[true]; [true]], (fun b : bool => Some b). vm_compute. discriminate. Qed.

(* a sheet whose first frame points to a missing member: the only image gets number 2 *)
Lemma number_all_refuted :
  exists (l : list bool) (fetch : bool -> option bool),
    map fst (number_all fetch 0 l) <> zseq 0 (List.length (number_all fetch 0 l)).
Proof. exists [false; true], (fun b : bool => if b then Some b else None). vm_compute. discriminate. Qed.

(* ---------------------------------------------------------------- views *)
Section ViewProofs.
  Variables I T : Type.

  Lemma views_images pages : flat_map (@u_images I T) (iterate_units pages) = iterate_images pages.
  Proof. unfold iterate_units, iterate_images. induction pages as [|p r IH]; [reflexivity|]. simpl. rewrite IH. reflexivity. Qed.

  Lemma views_tables pages : flat_map (@u_tables I T) (iterate_units pages) = iterate_tables pages.
  Proof. unfold iterate_units, iterate_tables. induction pages as [|p r IH]; [reflexivity|]. simpl. rewrite IH. reflexivity. Qed.

  Lemma unit_image_in_document pages u x :
    In u (@iterate_units I T pages) -> In x (u_images u) -> In x (iterate_images pages).
  Proof. intros Hu Hx. rewrite <- views_images. apply in_flat_map. exists u. auto. Qed.

  Lemma unit_table_in_document pages u x :
    In u (@iterate_units I T pages) -> In x (u_tables u) -> In x (iterate_tables pages).
  Proof. intros Hu Hx. rewrite <- views_tables. apply in_flat_map. exists u. auto. Qed.

  Variable empty_table : T -> bool.

  Lemma xlsx_views_images sheets : flat_map (@u_images I T) (xlsx_units empty_table sheets) = xlsx_images sheets.
  Proof. unfold xlsx_units, xlsx_images. induction sheets as [|p r IH]; [reflexivity|]. simpl. rewrite IH. reflexivity. Qed.

  Lemma xlsx_unit_table_in_document sheets u x :
    In u (@xlsx_units I T empty_table sheets) -> In x (u_tables u) -> In x (xlsx_tables sheets).
  Proof.
    unfold xlsx_units, xlsx_tables. intros Hu Hx. apply in_map_iff in Hu as [sh [<- Hs]]. simpl in Hx.
    destruct (empty_table (s_data sh)); [contradiction|]. destruct Hx as [<-|[]]. apply in_map. exact Hs.
  Qed.

  Definition no_empty_sheet (sheets : list (@sheet I T)) : bool := forallb (fun sh => negb (empty_table (s_data sh))) sheets.

  Lemma xlsx_views_tables_partial sheets :
    no_empty_sheet sheets = true -> flat_map (@u_tables I T) (xlsx_units empty_table sheets) = xlsx_tables sheets.
  Proof.
    unfold xlsx_units, xlsx_tables, no_empty_sheet. induction sheets as [|p r IH]; [reflexivity|]. simpl. intro H.
    apply andb_true_iff in H as [H1 H2]. apply negb_true_iff in H1. rewrite H1, (IH H2). reflexivity.
  Qed.

  Variable anchors : I -> list Z.
  Lemma docx_unit_image_in_document imgs paras x : In x (docx_unit_images anchors imgs paras) -> In x imgs.
  Proof.
    unfold docx_unit_images, images_at. intro H. apply in_flat_map in H as [idx [_ H]].
    apply filter_In in H as [H _]. exact H.
  Qed.
End ViewProofs.

(* a workbook with one empty sheet: the document lists a table the unit does not *)
Lemma xlsx_views_tables_refuted :
  exists (sheets : list (@sheet unit (list Z))),
    flat_map (@u_tables unit (list Z)) (xlsx_units (fun t => match t with [] => true | _ => false end) sheets)
    <> xlsx_tables sheets.
Proof. exists [mkSheet [] []]. vm_compute. discriminate. Qed.

(* exact-name member lookup: what is found is the requested name itself, and it is a member *)
Lemma member_of_exact names p q : member_of names p = Some q -> q = p /\ In p names.
Proof.
  unfold member_of. destruct (mem_str p names) eqn:E; [|discriminate].
  intro H. inversion H; subst. split; [reflexivity | apply mem_str_In; exact E].
Qed.

(* the codec of a filter chain is its last stage, whatever transport stages precede it *)
Lemma pdf_codec_last pre c : pdf_codec (pre ++ [c]) = c.
Proof. unfold pdf_codec. apply last_last. Qed.
Lemma pdf_content_type_last tbl pre c : pdf_content_type tbl (pre ++ [c]) = pdf_content_type tbl [c].
Proof. unfold pdf_content_type. rewrite pdf_codec_last. reflexivity. Qed.

(* ---- reading a member by name *)
Lemma zip_read_exact {B} (entries : list (str * B)) p b : zip_read entries p = Some b -> In (p, b) entries.
Proof.
  induction entries as [|[n x] r IH]; simpl; [discriminate|].
  destruct (zip_read r p) as [y|] eqn:E.
  - intro H. inversion H; subst. right. apply IH. reflexivity.
  - destruct (str_eqb p n) eqn:En; [|discriminate]. intro H. inversion H; subst.
    apply str_eqb_eq in En; subst. left. reflexivity.
Qed.

Lemma zip_read_absent {B} (entries : list (str * B)) p : ~ In p (map fst entries) -> zip_read entries p = None.
Proof.
  induction entries as [|[n x] r IH]; simpl; [reflexivity|]. intro H.
  rewrite IH by tauto. destruct (str_eqb p n) eqn:E; [|reflexivity].
  apply str_eqb_eq in E. subst. exfalso. apply H. left. reflexivity.
Qed.

(* duplicates: the last entry of the name is the one that is read *)
Lemma zip_read_last {B} (pre post : list (str * B)) p b :
  ~ In p (map fst post) -> zip_read (pre ++ (p, b) :: post) p = Some b.
Proof.
  intro H. induction pre as [|[n x] pre IH]; simpl.
  - rewrite (zip_read_absent post p H), str_eqb_refl. reflexivity.
  - rewrite IH. reflexivity.
Qed.

Lemma zip_read_member {B} (entries : list (str * B)) p :
  (exists b, zip_read entries p = Some b) <-> member_of (map fst entries) p = Some p.
Proof.
  unfold member_of. split.
  - intros [b H]. apply zip_read_exact in H.
    assert (Hin : In p (map fst entries)) by (apply in_map_iff; exists (p, b); auto).
    apply mem_str_In in Hin. rewrite Hin. reflexivity.
  - destruct (mem_str p (map fst entries)) eqn:E; [|discriminate]. intros _.
    apply mem_str_In in E. apply in_map_iff in E as [[n b] [Hn Hin]]. simpl in Hn. subst.
    apply in_split in Hin as [pre [post ->]].
    clear. induction pre as [|[n x] pre IH]; simpl.
    + destruct (zip_read post p) as [y|]; [exists y; reflexivity | rewrite str_eqb_refl; exists b; reflexivity].
    + destruct IH as [y Hy]. rewrite Hy. exists y. reflexivity.
Qed.
