(* C14 — legacy BLIP images: signature detection on well-formed files, the DIB wrapper, numbering / provenance of
   the XLS image stage. *)
From Coq Require Import ZArith List Bool Lia.
From S2T Require Import Lib.PyStr C01.Loops C14.Model C14.ProofsNum C14.ProofsSniff.
Import ListNotations.
Open Scope Z_scope.

Lemma detect_png clen w h rest : List.length clen = 4%nat -> detect_type (png_file clen w h rest) = Some T_png.
Proof.
  intro Hc. destruct clen as [|c0 [|c1 [|c2 [|c3 [|]]]]]; try discriminate.
  unfold detect_type, png_file, be32.
  match goal with |- context [len ?x <? 8] => assert (Hl : 24 <= len x) by (pose proof (len_nonneg rest); len_explicit) end.
  match goal with |- context [len ?x <? 8] => destruct (len x <? 8) eqn:E; [lia|] end. reflexivity.
Qed.

Lemma detect_gif (v : bool) w h rest : detect_type (gif_file v w h rest) = Some T_gif.
Proof.
  unfold detect_type, gif_file, le16.
  match goal with |- context [len ?x <? 8] => assert (Hl : 10 <= len x) by (pose proof (len_nonneg rest); destruct v; len_explicit) end.
  match goal with |- context [len ?x <? 8] => destruct (len x <? 8) eqn:E; [lia|] end. destruct v; reflexivity.
Qed.

Lemma detect_bmp hdr w h rest : List.length hdr = 16%nat -> detect_type (bmp_file hdr w h rest) = Some T_bmp.
Proof.
  intro Hc. do 16 (destruct hdr as [|? hdr]; [discriminate|]). destruct hdr; [|discriminate].
  unfold detect_type, bmp_file, le32s.
  match goal with |- context [len ?x <? 8] => assert (Hl : 26 <= len x) by (pose proof (len_nonneg rest); len_explicit) end.
  match goal with |- context [len ?x <? 8] => destruct (len x <? 8) eqn:E; [lia|] end. reflexivity.
Qed.

Lemma detect_jpeg segs m prec h w tail rest : detect_type (jpeg_file segs m prec h w tail rest) = Some T_jpeg.
Proof.
  unfold detect_type, jpeg_file.
  set (d := SOI ++ List.concat (map (fun mp => jseg (fst mp) (snd mp)) segs) ++ jseg m (prec :: be16 h ++ be16 w ++ tail) ++ rest).
  assert (Hl : 8 <= len d).
  { unfold d. rewrite !len_app, jseg_len. change (len SOI) with 2.
    pose proof (len_nonneg (List.concat (map (fun mp : Z * list Z => jseg (fst mp) (snd mp)) segs))). pose proof (len_nonneg rest).
    assert (len (prec :: be16 h ++ be16 w ++ tail) = 5 + len tail) by (unfold be16; len_explicit). pose proof (len_nonneg tail). lia. }
  destruct (len d <? 8) eqn:E; [lia|].
  assert (Hp : slice_is d 0 PNG_SIG = false) by reflexivity. rewrite Hp.
  assert (Hj : slice_is d 0 [255; 216; 255] = true).
  { unfold d. destruct segs as [|[m0 p0] segs]; reflexivity. }
  rewrite Hj. reflexivity.
Qed.

(* the wrapper only prepends a 14-byte file header that starts with "BM": the DIB bytes are passed through *)
Lemma wrap_dib_passthrough d b :
  wrap_dib d = Some b -> exists hdr, List.length hdr = 14%nat /\ b = hdr ++ d /\ firstn 2 hdr = BM.
Proof.
  unfold wrap_dib. destruct (len d <? 40); [discriminate|]. destruct (negb (u32le d 0 =? 40)); [discriminate|].
  destruct (negb (existsb (Z.eqb (u16le d 14)) [1; 4; 8; 16; 24; 32])); [discriminate|].
  intro H. inversion H; subst. clear H.
  set (ct := if u16le d 14 <=? 8 then 4 * 2 ^ u16le d 14 else 0).
  exists (BM ++ le32u (14 + len d) ++ [0; 0; 0; 0] ++ le32u (14 + 40 + ct)). split; [reflexivity|]. split; [|reflexivity].
  rewrite <- !app_assoc. reflexivity.
Qed.

Section Stage.
  Variable D : Type.
  Variable digest : list Z -> D.
  Variable deq : D -> D -> bool.

  Lemma xls_stage_numbers l : forall seen k,
    map (fun x => fst (fst x)) (xls_stage digest deq seen k l) = zseq k (List.length (xls_stage digest deq seen k l)).
  Proof.
    induction l as [|[rt d] r IH]; intros seen k; cbn [xls_stage]; [reflexivity|].
    destruct (classify rt d) as [[t b]|]; [|apply IH].
    destruct (existsb (deq (digest b)) seen); [apply IH|].
    cbn [map fst List.length zseq]. f_equal. apply IH.
  Qed.

  (* every returned image is a slice of the walk (or the BMP wrapping of a DIB slice), classified by its own bytes *)
  Lemma xls_stage_provenance l : forall seen k n t b,
    In (n, t, b) (xls_stage digest deq seen k l) -> exists rt d, In (rt, d) l /\ classify rt d = Some (t, b).
  Proof.
    induction l as [|[rt d] r IH]; intros seen k n t b; cbn [xls_stage]; [intros []|].
    destruct (classify rt d) as [[t0 b0]|] eqn:E.
    - destruct (existsb (deq (digest b0)) seen).
      + intro H. destruct (IH _ _ _ _ _ H) as [rt' [d' [H1 H2]]]. exists rt', d'. split; [right; exact H1 | exact H2].
      + intros [H|H].
        * inversion H; subst. exists rt, d. split; [left; reflexivity | exact E].
        * destruct (IH _ _ _ _ _ H) as [rt' [d' [H1 H2]]]. exists rt', d'. split; [right; exact H1 | exact H2].
    - intro H. destruct (IH _ _ _ _ _ H) as [rt' [d' [H1 H2]]]. exists rt', d'. split; [right; exact H1 | exact H2].
  Qed.
End Stage.

Lemma classify_bytes rt d t b : classify rt d = Some (t, b) -> b = d \/ wrap_dib d = Some b.
Proof.
  unfold classify. destruct (detect_type d); [intro H; inversion H; auto|].
  destruct (rt =? 61466); [intro H; inversion H; auto|]. destruct (rt =? 61467); [intro H; inversion H; auto|].
  destruct (rt =? 61471); [|discriminate]. destruct (wrap_dib d) eqn:E; [|discriminate]. intro H; inversion H; subst. auto.
Qed.
