(* C14 — executable models (definitions only).
   1. package part-name resolution: util/zip_utils.resolve_part_name (the repaired helper used by the
      docx/pptx/xlsx/epub extractors), the legacy per-extractor resolvers it replaces, the verbatim ODF href;
   2. header sniffers: ms_modern/*._get_image_pixel_dimensions (three identical copies) and
      util/image_utils.get_image_dimensions — the JPEG walks are imported from C01/Loops.v;
   3. image numbering counters of the extractors (found-only counter, count-before-check counter,
      per-unit restart) over an opaque payload type;
   4. unit view / document view of data_types.py. *)
From Coq Require Import ZArith List Bool Lia.
From S2T Require Import Lib.PyStr C01.Loops.
Import ListNotations.

(* ------------------------------------------------------------------ 1. part names *)
Open Scope N_scope.
Definition SLASH : N := 47.
Definition DOT : N := 46.

(* str.split("/") : always at least one part *)
Fixpoint split_slash (x : str) : list str :=
  match x with
  | [] => [[]]
  | c :: r =>
      if N.eqb c SLASH then [] :: split_slash r
      else match split_slash r with
           | h :: t => (c :: h) :: t
           | [] => [[c]]
           end
  end.

(* "/".join(parts) *)
Fixpoint join_slash (l : list str) : str :=
  match l with
  | [] => []
  | [a] => a
  | a :: r => a ++ SLASH :: join_slash r
  end.

Definition is_empty (p : str) : bool := match p with [] => true | _ => false end.
Definition is_dot (p : str) : bool := str_eqb p [DOT].
Definition is_dotdot (p : str) : bool := str_eqb p [DOT; DOT].
(* a segment that names something: not "", ".", ".." *)
Definition seg_clean (p : str) : bool := negb (is_empty p) && negb (is_dot p) && negb (is_dotdot p).
Definition is_abs (t : str) : bool := startswith t [SLASH].

(* the loop of resolve_part_name; the stack is kept reversed (top first):
     for part in target.split("/"):
         if part == "..":
             if segments: segments.pop()
         elif part and part != ".":
             segments.append(part)                                              *)
Fixpoint walk (stk : list str) (parts : list str) : list str :=
  match parts with
  | [] => stk
  | p :: r =>
      if is_dotdot p then walk (tl stk) r
      else if is_empty p || is_dot p then walk stk r
      else walk (p :: stk) r
  end.

(* [p for p in base_dir.split("/") if p] *)
Definition base_segs (base : str) : list str := filter (fun p => negb (is_empty p)) (split_slash base).

Definition resolve_segs (bs : list str) (target : str) : list str :=
  rev (walk (if is_abs target then [] else rev bs) (split_slash target)).

(* util/zip_utils.resolve_part_name(base_dir, target) *)
Definition resolve_part (base target : str) : str := join_slash (resolve_segs (base_segs base) target).

(* ---- legacy resolvers (code before fixes/C14-resolve-part-names.patch; kept for the refutations) *)
(* str.lstrip("/") *)
Fixpoint lstrip_slash (x : str) : str :=
  match x with c :: r => if N.eqb c SLASH then lstrip_slash r else x | [] => [] end.
Definition sanitize (t : str) : str :=
  join_slash (filter (fun p => negb (is_empty p) && negb (is_dotdot p)) (split_slash t)).
(* normalized: pop on "..", keep non-empty parts ("." is kept) *)
Fixpoint legacy_walk (stk : list str) (parts : list str) : list str :=
  match parts with
  | [] => stk
  | p :: r => if is_dotdot p then legacy_walk (tl stk) r
              else if is_empty p then legacy_walk stk r else legacy_walk (p :: stk) r
  end.
(* pptx_extractor._normalize_relative_path as it was *)
Definition pptx_legacy (base target : str) : str :=
  if is_abs target then base ++ SLASH :: sanitize (lstrip_slash target)
  else if existsb is_dotdot (split_slash target) then
    if startswith target [DOT; DOT; SLASH]
    then join_slash (rev (legacy_walk [] (split_slash (base ++ SLASH :: target))))
    else base ++ SLASH :: sanitize target
  else base ++ SLASH :: target.
(* docx_extractor: image_path = "word/" + target *)
Definition docx_legacy (target : str) : str := s "word/" ++ target.
(* epub_extractor._EpubContext.resolve_href: href[1:] if absolute else opf_dir + href (opf_dir ends with "/" or is "") *)
Definition epub_legacy (opf_dir href : str) : str := if is_abs href then tl href else opf_dir ++ href.
(* xlsx_extractor._resolve_image_path: target[1:] if absolute else "xl/media/" + basename *)
Definition basename (t : str) : str := last (split_slash t) [].
Definition xlsx_image_legacy (target : str) : str :=
  if is_abs target then tl target else s "xl/media/" ++ basename target.
(* ODF extractors before fixes/C14-odf-href-and-ods-counter.patch: the href was the member name, verbatim *)
Definition odf_legacy (href : str) : str := href.
(* open_office/_shared.odf_member_name(href) = resolve_part_name("", href), used for ctx.exists / ctx.read_bytes *)
Definition odf_member (href : str) : str := resolve_part [] href.

(* ZipContext.exists(p): `p in set(zip.namelist())` — exact member name *)
Definition member_of (names : list str) (p : str) : option str := if mem_str p names then Some p else None.
(* ZipContext.read_bytes(p) = zip_utils.read_zip_member(zf, p): info = zf.getinfo(p) ; zf.open(info).read(info.file_size).
   getinfo looks the name up in zipfile's NameToInfo dict, which holds the LAST central-directory entry of each exact
   name: with duplicate names the bytes are those of the last entry (entries = the archive's directory, in order) *)
Fixpoint zip_read {B : Type} (entries : list (str * B)) (p : str) : option B :=
  match entries with
  | [] => None
  | (n, b) :: r => match zip_read r p with
                   | Some x => Some x
                   | None => if str_eqb p n then Some b else None
                   end
  end.

(* pdf_extractor._extract_image: the filter that names the image format is the LAST stage of the /Filter chain
   (`filter_type[-1]`, "" for an empty array); earlier stages (Flate, ASCIIHex, ASCII85, RunLength, LZW) are
   transport encodings that pypdf removes.  content type = FILTER_TO_CONTENT_TYPE.get(filter, "image/unknown") *)
Definition pdf_codec (chain : list str) : str := last chain [].
Definition pdf_content_type (tbl : list (str * str)) (chain : list str) : str :=
  match assoc (pdf_codec chain) tbl with Some v => v | None => s "image/unknown" end.

(* ------------------------------------------------------------------ 2. sniffers (bytes = list Z) *)
Open Scope Z_scope.

Inductive sniff := OutOfFuel | Dims (w h : option Z).

Fixpoint zlist_eqb (a b : list Z) : bool :=
  match a, b with
  | [], [] => true
  | x :: a', y :: b' => (x =? y) && zlist_eqb a' b'
  | _, _ => false
  end.
(* data[off:off+n] == pat   (Python slice semantics: a short slice simply differs) *)
Definition slice_is (d : list Z) (off : nat) (pat : list Z) : bool :=
  zlist_eqb (firstn (List.length pat) (skipn off d)) pat.

Definition u32be (d : list Z) (i : Z) : Z :=
  16777216 * byte_at d i + 65536 * byte_at d (i + 1) + 256 * byte_at d (i + 2) + byte_at d (i + 3).
Definition s32le (d : list Z) (i : Z) : Z :=
  let u := u32le d i in if 2147483648 <=? u then u - 4294967296 else u.
(* `x or None` *)
Definition nz (x : Z) : option Z := if x =? 0 then None else Some x.

Definition PNG_SIG : list Z := [137; 80; 78; 71; 13; 10; 26; 10].
Definition GIF87 : list Z := [71; 73; 70; 56; 55; 97].
Definition GIF89 : list Z := [71; 73; 70; 56; 57; 97].
Definition BM : list Z := [66; 77].
Definition IHDR : list Z := [73; 72; 68; 82].
Definition SOI : list Z := [255; 216].

(* ms_modern/{docx,pptx,xlsx}_extractor._get_image_pixel_dimensions *)
Definition ooxml_dims (d : list Z) : sniff :=
  if len d =? 0 then Dims None None
  else if slice_is d 0 PNG_SIG && (24 <=? len d) then Dims (nz (u32be d 16)) (nz (u32be d 20))
  else if (slice_is d 0 GIF87 || slice_is d 0 GIF89) && (10 <=? len d) then Dims (nz (u16le d 6)) (nz (u16le d 8))
  else if slice_is d 0 BM && (26 <=? len d) then Dims (nz (Z.abs (s32le d 18))) (nz (Z.abs (s32le d 22)))
  else if slice_is d 0 SOI then
    match ooxml_jpeg_dims (fuel_for d 2) d 2 with
    | None => OutOfFuel
    | Some (Found w h) => Dims (nz w) (nz h)
    | Some NotFound => Dims None None
    end
  else Dims None None.

(* Docx/Pptx image get_metadata(): width if width is not None and width > 0 else None *)
Definition positive_only (x : option Z) : option Z :=
  match x with Some v => if 0 <? v then Some v else None | None => None end.

Inductive kind := K_png | K_jpeg | K_bmp | K_gif | K_other.

(* util/image_utils.get_image_dimensions(data, image_type) — no `or None`, width of a BMP keeps its sign *)
Definition util_dims (k : kind) (d : list Z) : sniff :=
  match k with
  | K_png => if (24 <=? len d) && slice_is d 12 IHDR then Dims (Some (u32be d 16)) (Some (u32be d 20)) else Dims None None
  | K_jpeg => if 4 <=? len d then
                match jpeg_dims (fuel_for d 2) d 2 with
                | None => OutOfFuel
                | Some (Found w h) => Dims (Some w) (Some h)
                | Some NotFound => Dims None None
                end
              else Dims None None
  | K_bmp => if (26 <=? len d) && slice_is d 0 BM then Dims (Some (s32le d 18)) (Some (Z.abs (s32le d 22))) else Dims None None
  | K_gif => if 10 <=? len d then Dims (Some (u16le d 6)) (Some (u16le d 8)) else Dims None None
  | K_other => Dims None None
  end.

(* ---- well-formed headers (the generator's ground truth) *)
Definition be32 (w : Z) : list Z := [w / 16777216; (w / 65536) mod 256; (w / 256) mod 256; w mod 256].
Definition be16 (w : Z) : list Z := [w / 256; w mod 256].
Definition le16 (w : Z) : list Z := [w mod 256; w / 256].
(* two's complement little endian, |w| < 2^31 *)
Definition le32s (w : Z) : list Z :=
  let u := if w <? 0 then w + 4294967296 else w in
  [u mod 256; (u / 256) mod 256; (u / 65536) mod 256; u / 16777216].

Definition png_file (clen : list Z) (w h : Z) (rest : list Z) : list Z :=
  PNG_SIG ++ clen ++ IHDR ++ be32 w ++ be32 h ++ rest.
Definition gif_file (v89 : bool) (w h : Z) (rest : list Z) : list Z :=
  (if v89 then GIF89 else GIF87) ++ le16 w ++ le16 h ++ rest.
Definition bmp_file (hdr16 : list Z) (w h : Z) (rest : list Z) : list Z :=
  BM ++ hdr16 ++ le32s w ++ le32s h ++ rest.

(* a JPEG marker segment FF m len payload, len = 2 + |payload| *)
Definition jseg (m : Z) (payload : list Z) : list Z := 255 :: m :: be16 (2 + len payload) ++ payload.
Definition skip_marker (m : Z) : bool :=
  negb (m =? 255) && negb (m =? 217) && negb (m =? 218) && negb (is_sof m).
Definition seg_ok (mp : Z * list Z) : bool := skip_marker (fst mp) && (len (snd mp) <? 65534).
Definition jpeg_file (segs : list (Z * list Z)) (m prec h w : Z) (tail rest : list Z) : list Z :=
  SOI ++ List.concat (map (fun mp => jseg (fst mp) (snd mp)) segs)
      ++ jseg m (prec :: be16 h ++ be16 w ++ tail) ++ rest.

(* ------------------------------------------------------------------ 3. numbering *)
Section Numbering.
  Variable A : Type.                      (* a candidate in document order: frame, pic, relationship ... *)
  Variable B : Type.                      (* what is stored for it: the opaque media bytes *)
  Variable fetch : A -> option B.         (* oracle: relationship lookup + resolution + zip read *)

  (* counter incremented only when the media was found:
       blob = get(...) ; if blob is not None: counter += 1; images.append(Image(index=counter, blob)) *)
  Fixpoint number_found (k : Z) (l : list A) : list (Z * B) :=
    match l with
    | [] => []
    | a :: r => match fetch a with
                | Some b => (k + 1, b) :: number_found (k + 1) r
                | None => number_found k r
                end
    end.

  (* ods_extractor._extract_images before fixes/C14-odf-href-and-ods-counter.patch: the counter was incremented
     before the existence check (kept for the refutation; the repaired loop is number_found) *)
  Fixpoint number_all (k : Z) (l : list A) : list (Z * B) :=
    match l with
    | [] => []
    | a :: r => match fetch a with
                | Some b => (k + 1, b) :: number_all (k + 1) r
                | None => number_all (k + 1) r
                end
    end.

  (* a counter threaded through the units (odp, ods, xlsx): returns per-unit lists *)
  Fixpoint number_units_running (k : Z) (units : list (list A)) : list (list (Z * B)) :=
    match units with
    | [] => []
    | u :: r => let imgs := number_found k u in
                imgs :: number_units_running (k + Z.of_nat (List.length imgs)) r
    end.

  (* pptx / pdf: the counter restarts on every slide / page *)
  Definition number_units_restart (units : list (list A)) : list (list (Z * B)) :=
    map (number_found 0) units.
End Numbering.
Arguments number_found {A B}.
Arguments number_all {A B}.
Arguments number_units_running {A B}.
Arguments number_units_restart {A B}.

(* ------------------------------------------------------------------ 4. unit view / document view *)
Section Views.
  Variable I T : Type.                     (* images, tables: opaque *)
  Record page := mkPage { p_images : list I; p_tables : list T }.
  Record unit_ := mkUnit { u_images : list I; u_tables : list T }.

  (* PdfContent / PptxContent / OdpContent .iterate_units (and the images of OdsContent):
       images=list(page.images), tables=[TableData(t) for t in page.tables] *)
  Definition iterate_units (pages : list page) : list unit_ :=
    map (fun p => mkUnit (p_images p) (p_tables p)) pages.
  (* for page in pages: for img in page.images: yield img *)
  Definition iterate_images (pages : list page) : list I := flat_map p_images pages.
  Definition iterate_tables (pages : list page) : list T := flat_map p_tables pages.

  (* XlsxContent and OdsContent: a sheet carries one table `data`;
       unit.tables = [TableData(data)] if data else []      iterate_tables: yield every sheet *)
  Variable empty_table : T -> bool.
  Record sheet := mkSheet { s_images : list I; s_data : T }.
  Definition xlsx_units (sheets : list sheet) : list unit_ :=
    map (fun sh => mkUnit (s_images sh) (if empty_table (s_data sh) then [] else [s_data sh])) sheets.
  Definition xlsx_images (sheets : list sheet) : list I := flat_map s_images sheets.
  Definition xlsx_tables (sheets : list sheet) : list T := map s_data sheets.

  (* DocxContent.iterate_units: images_by_paragraph[idx] = [img for img in self.images if idx in img.anchors];
     a unit collects images_by_paragraph.get(idx) for its paragraph indices *)
  Variable anchors : I -> list Z.
  Definition images_at (imgs : list I) (idx : Z) : list I :=
    filter (fun i => existsb (Z.eqb idx) (anchors i)) imgs.
  Definition docx_unit_images (imgs : list I) (paras : list Z) : list I := flat_map (images_at imgs) paras.
End Views.
Arguments mkPage {I T}. Arguments p_images {I T}. Arguments p_tables {I T}.
Arguments mkUnit {I T}. Arguments u_images {I T}. Arguments u_tables {I T}.
Arguments iterate_units {I T}. Arguments iterate_images {I T}. Arguments iterate_tables {I T}.
Arguments mkSheet {I T}. Arguments s_images {I T}. Arguments s_data {I T}.
Arguments xlsx_units {I T}. Arguments xlsx_images {I T}. Arguments xlsx_tables {I T}.
Arguments images_at {I}. Arguments docx_unit_images {I}.

(* ------------------------------------------------------------------ 5. per-format image passes *)
(* A placement is (target-or-href, flag); names = zip namelist.
   result: (image_number, member name) — member "" for a record without bytes *)
Definition placement := (str * Z)%type.
Definition is_http (h : str) : bool := startswith h (s "http").

Definition fetch_opc (base : str) (names : list str) (pl : placement) : option str :=
  member_of names (resolve_part base (fst pl)).
(* ODF frames that keep a record for external links *)
Definition fetch_odf (names : list str) (pl : placement) : option str :=
  if is_http (fst pl) then Some [] else member_of names (odf_member (fst pl)).

Definition flag_is (k : Z) (pl : placement) : bool := snd pl =? k.
(* for anchor_type in (oneCellAnchor, twoCellAnchor, absoluteAnchor): for anchor in root.iter(anchor_type) *)
Definition xlsx_order (u : list placement) : list placement :=
  filter (flag_is 0) u ++ filter (flag_is 1) u ++ filter (flag_is 2) u.

(* ODG (and the second pass of ODT): hrefs already seen are skipped *)
Fixpoint odf_dedupe (names seen : list str) (count_missing : bool) (k : Z) (l : list placement)
  : list (Z * str) * list str * Z :=
  match l with
  | [] => ([], seen, k)
  | pl :: r =>
      let h := fst pl in
      if mem_str h seen then odf_dedupe names seen count_missing k r
      else match fetch_odf names pl with
           | Some m => let '(out, sn, k') := odf_dedupe names (h :: seen) count_missing (k + 1) r in ((k + 1, m) :: out, sn, k')
           | None => if count_missing
                     then let '(out, sn, k') := odf_dedupe names (h :: seen) count_missing (k + 1) r in ((k + 1, []) :: out, sn, k')
                     else odf_dedupe names seen count_missing k r
           end
  end.

(* ODT first pass: images inside text boxes; external hrefs skipped; every href marked as processed *)
Fixpoint odt_pass1 (names : list str) (k : Z) (l : list placement) : list (Z * str) * list str * Z :=
  match l with
  | [] => ([], [], k)
  | pl :: r =>
      let h := fst pl in
      if is_http h then odt_pass1 names k r
      else match member_of names (odf_member h) with
           | Some m => let '(out, sn, k') := odt_pass1 names (k + 1) r in ((k + 1, m) :: out, h :: sn, k')
           | None => let '(out, sn, k') := odt_pass1 names k r in (out, h :: sn, k')
           end
  end.

(* the second pass walks EVERY picture frame of the body — also the inner frames of captioned pictures — and relies on
   the set of processed hrefs (raw spelling, filled by the first pass) to skip what the first pass returned *)
Definition odt_images (names : list str) (u : list placement) : list (Z * str) :=
  let '(o1, seen, k) := odt_pass1 names 0 (filter (flag_is 1) u) in
  let '(o2, _, _) := odf_dedupe names seen false k u in
  o1 ++ o2.


(* ------------------------------------------------------------------ 6. content type from the target's extension *)
(* docx / pptx:  ext = target.rsplit(".", 1)[-1].lower() ; _CONTENT_TYPE_MAP.get(ext, "image/" + ext)
   xlsx:         filename = image_path.rsplit("/", 1)[-1]
                 ext = filename.rsplit(".", 1)[-1].lower() if "." in filename else "" ; map.get(ext, "image/unknown")
   str.lower is an oracle (a function variable). *)
(* x.rsplit(sep, 1)[-1] : what follows the last occurrence of sep (all of x when there is none) *)
Fixpoint after_last (sep : N) (x : str) : str :=
  match x with
  | [] => []
  | c :: r => if existsb (N.eqb sep) r then after_last sep r else (if N.eqb c sep then r else c :: r)
  end.
Definition ooxml_content_type (lower : str -> str) (tbl : list (str * str)) (target : str) : str :=
  let ext := lower (after_last DOT target) in
  match assoc ext tbl with Some v => v | None => s "image/" ++ ext end.
Definition xlsx_content_type (lower : str -> str) (tbl : list (str * str)) (image_path : str) : str :=
  let filename := after_last SLASH image_path in
  let ext := if existsb (N.eqb DOT) filename then lower (after_last DOT filename) else [] in
  match assoc ext tbl with Some v => v | None => s "image/unknown" end.

(* variant with fixes/proposed-not-applied/C14-content-type-from-bytes.patch: when the table does not know the extension
   the image signature decides (detect_image_type(data): an oracle value here), else the old default *)
Definition ooxml_content_type_b (lower : str -> str) (tbl : list (str * str)) (sniffed : option str) (target : str) : str :=
  let ext := lower (after_last DOT target) in
  match assoc ext tbl with Some v => v | None => match sniffed with Some c => c | None => s "image/" ++ ext end end.
Definition xlsx_content_type_b (lower : str -> str) (tbl : list (str * str)) (sniffed : option str) (image_path : str) : str :=
  let filename := after_last SLASH image_path in
  let ext := if existsb (N.eqb DOT) filename then lower (after_last DOT filename) else [] in
  match assoc ext tbl with Some v => v | None => match sniffed with Some c => c | None => s "image/unknown" end end.

(* ------------------------------------------------------------------ 7. legacy BLIP images (XLS): what happens to a slice *)
(* util/image_utils.detect_image_type(data): signature sniffing, needs 8 bytes *)
Inductive itype := T_png | T_jpeg | T_gif | T_bmp | T_tiff | T_emf | T_wmf.
Definition detect_type (d : list Z) : option itype :=
  if len d <? 8 then None
  else if slice_is d 0 PNG_SIG then Some T_png
  else if slice_is d 0 [255; 216; 255] then Some T_jpeg
  else if slice_is d 0 [71; 73; 70; 56] then Some T_gif
  else if slice_is d 0 BM then Some T_bmp
  else if slice_is d 0 [73; 73; 42; 0] || slice_is d 0 [77; 77; 0; 42] then Some T_tiff
  else None.

Definition le32u (u : Z) : list Z := [u mod 256; (u / 256) mod 256; (u / 65536) mod 256; (u / 16777216) mod 256].
(* util/image_utils.wrap_dib_as_bmp(dib): BITMAPINFOHEADER only; prepends the 14-byte BMP file header
   b"BM" + struct.pack("<IHHI", 14 + len(dib), 0, 0, 14 + 40 + colour table size) *)
Definition wrap_dib (d : list Z) : option (list Z) :=
  if len d <? 40 then None
  else if negb (u32le d 0 =? 40) then None
  else let bpp := u16le d 14 in
       if negb (existsb (Z.eqb bpp) [1; 4; 8; 16; 24; 32]) then None
       else let ct := if bpp <=? 8 then 4 * 2 ^ bpp else 0 in
            Some (BM ++ le32u (14 + len d) ++ [0; 0; 0; 0] ++ le32u (14 + 40 + ct) ++ d).

(* xls_extractor._extract_images_from_workbook after the record walk (C01/LoopsXls.v xls_blips yields the slices):
   detected = detect_image_type(slice); EMF/WMF records keep their bytes under a metafile type, a DIB record is wrapped
   into a BMP file; anything else undetected is dropped *)
Definition classify (rec_type : Z) (d : list Z) : option (itype * list Z) :=
  match detect_type d with
  | Some t => Some (t, d)
  | None => if rec_type =? 61466 then Some (T_emf, d)
            else if rec_type =? 61467 then Some (T_wmf, d)
            else if rec_type =? 61471 then match wrap_dib d with Some b => Some (T_bmp, b) | None => None end
            else None
  end.

Section XlsStage.
  Variable D : Type.                       (* hashlib.sha1(image_data).hexdigest(): an oracle *)
  Variable digest : list Z -> D.
  Variable deq : D -> D -> bool.
  (* digest not in seen_hashes: seen_hashes.add(digest); image_index += 1; images.append(...) *)
  Fixpoint xls_stage (seen : list D) (k : Z) (l : list (Z * list Z)) : list (Z * itype * list Z) :=
    match l with
    | [] => []
    | (rt, d) :: r =>
        match classify rt d with
        | None => xls_stage seen k r
        | Some (t, b) => if existsb (deq (digest b)) seen then xls_stage seen k r
                         else (k + 1, t, b) :: xls_stage (digest b :: seen) (k + 1) r
        end
    end.
End XlsStage.
Arguments xls_stage {D}.

Definition kind_of (t : itype) : kind :=
  match t with T_png => K_png | T_jpeg => K_jpeg | T_gif => K_gif | T_bmp => K_bmp | _ => K_other end.
