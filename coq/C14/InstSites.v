(* C14 — obligation over the resolver call sites found in the AST of the repo under test on this run. *)
From Coq Require Import ZArith List Bool.
From S2T Require Import Lib.PyStr Gen.C14Tables.
Import ListNotations.

(* every call site that turns a relationship target / href into a member name goes through resolve_part_name *)
Theorem C14_resolver_sites : forallb (fun x : str * bool => snd x) resolver_sites = true.
Proof. vm_compute. reflexivity. Qed.
Print Assumptions C14_resolver_sites.

