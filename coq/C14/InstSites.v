(* C14 — obligation over the resolver call sites found in the AST of the repo under test on this run. *)
From Coq Require Import ZArith List Bool.
From S2T Require Import Lib.PyStr Gen.C14Tables.
Import ListNotations.

(* every call site that turns a relationship target / href into a member name goes through resolve_part_name *)
Theorem C14_resolver_sites : forallb (fun x : str * bool => snd x) resolver_sites = true.
Proof. vm_compute. reflexivity. Qed.
Print Assumptions C14_resolver_sites.


(* member lookup of the shared ZIP context (base of the docx/pptx/xlsx/odt/odp/ods/odg/epub contexts) is by exact
   name: `path in set(zip.namelist())`, `zip.read(path)`; no subclass overrides an accessor.  The model's
   member_of / mem_str is that lookup.  Fail-closed AST match: a case-folding or normalising lookup breaks this. *)
Theorem C14_zip_lookup_exact : forallb (fun x : str * bool => snd x) zip_lookup_sites = true.
Proof. vm_compute. reflexivity. Qed.
Print Assumptions C14_zip_lookup_exact.

(* the pixel size of a DOCX/PPTX/XLSX picture is sniffed from its BYTES by the extractor's own
   _get_image_pixel_dimensions(image_data) (modelled by Model.ooxml_dims), called in the image loop *)
Theorem C14_sniffer_sites : forallb (fun x : str * bool => snd x) sniffer_sites = true.
Proof. vm_compute. reflexivity. Qed.
Print Assumptions C14_sniffer_sites.
