(* C14 — the ODT / ODG image passes (numbering 1..n, refutations of order / placeholders) and the
   extension-based content type of the OOXML extractors. *)
From Coq Require Import ZArith List Bool Lia.
From S2T Require Import Lib.PyStr C01.Loops C14.Model C14.ProofsNum.
Import ListNotations.
Open Scope Z_scope.

Lemma zseq_cons k n : zseq k (S n) = (k + 1) :: zseq (k + 1) n.
Proof. reflexivity. Qed.

(* ---- ODG pass / second ODT pass *)
Lemma odf_dedupe_numbers names cm l : forall seen k,
  let '(out, _, k') := odf_dedupe names seen cm k l in
  map fst out = zseq k (List.length out) /\ k' = k + Z.of_nat (List.length out).
Proof.
  induction l as [|pl r IH]; intros seen k; cbn [odf_dedupe].
  - split; [reflexivity | simpl; lia].
  - destruct (mem_str (fst pl) seen); [apply IH|].
    destruct (fetch_odf names pl) as [m|].
    + specialize (IH (fst pl :: seen) (k + 1)).
      destruct (odf_dedupe names (fst pl :: seen) cm (k + 1) r) as [[out sn] k'].
      destruct IH as [H1 H2]. split.
      * cbn [map fst List.length]. rewrite zseq_cons, H1. reflexivity.
      * cbn [List.length]. lia.
    + destruct cm; [|apply IH].
      specialize (IH (fst pl :: seen) (k + 1)).
      destruct (odf_dedupe names (fst pl :: seen) true (k + 1) r) as [[out sn] k'].
      destruct IH as [H1 H2]. split.
      * cbn [map fst List.length]. rewrite zseq_cons, H1. reflexivity.
      * cbn [List.length]. lia.
Qed.

Lemma odt_pass1_numbers names l : forall k,
  let '(out, _, k') := odt_pass1 names k l in
  map fst out = zseq k (List.length out) /\ k' = k + Z.of_nat (List.length out).
Proof.
  induction l as [|pl r IH]; intro k; cbn [odt_pass1].
  - split; [reflexivity | simpl; lia].
  - destruct (is_http (fst pl)); [apply IH|].
    destruct (member_of names (odf_member (fst pl))) as [m|].
    + specialize (IH (k + 1)). destruct (odt_pass1 names (k + 1) r) as [[out sn] k'].
      destruct IH as [H1 H2]. split.
      * cbn [map fst List.length]. rewrite zseq_cons, H1. reflexivity.
      * cbn [List.length]. lia.
    + specialize (IH k). destruct (odt_pass1 names k r) as [[out sn] k']. exact IH.
Qed.

Lemma odt_images_numbers names u :
  map fst (odt_images names u) = zseq 0 (List.length (odt_images names u)).
Proof.
  unfold odt_images.
  pose proof (odt_pass1_numbers names (filter (flag_is 1) u) 0) as P1.
  destruct (odt_pass1 names 0 (filter (flag_is 1) u)) as [[o1 seen] k].
  destruct P1 as [A1 A2].
  pose proof (odf_dedupe_numbers names false u seen k) as P2.
  destruct (odf_dedupe names seen false k u) as [[o2 sn] k2].
  destruct P2 as [B1 B2].
  rewrite map_app, app_length, zseq_app, A1, B1. f_equal. f_equal. lia.
Qed.

Lemma odg_images_numbers names u :
  let '(o, _, _) := odf_dedupe names [] true 0 u in map fst o = zseq 0 (List.length o).
Proof.
  pose proof (odf_dedupe_numbers names true u [] 0) as P.
  destruct (odf_dedupe names [] true 0 u) as [[o sn] k]. exact (proj1 P).
Qed.

(* without text boxes the ODT extraction is the single de-duplicating pass in document order *)
Lemma odt_images_no_textbox names u :
  forallb (flag_is 0) u = true -> odt_images names u = fst (fst (odf_dedupe names [] false 0 u)).
Proof.
  intro H. unfold odt_images.
  assert (F1 : filter (flag_is 1) u = []).
  { induction u as [|pl r IH]; [reflexivity|]. simpl in *. apply andb_true_iff in H as [H1 H2].
    unfold flag_is in *. apply Z.eqb_eq in H1. rewrite H1. simpl. apply IH. exact H2. }
  rewrite F1. cbn [odt_pass1]. destruct (odf_dedupe names [] false 0 u) as [[o sn] k]. reflexivity.
Qed.

(* ---- never more records than picture frames: a captioned picture is not returned a second time *)
Lemma filter_length_mono {A} (f g : A -> bool) l :
  (forall x, f x = true -> g x = true) -> (List.length (filter f l) <= List.length (filter g l))%nat.
Proof.
  intro H. induction l as [|x l IH]; simpl; [lia|].
  destruct (f x) eqn:E; [rewrite (H x E); simpl; lia|]. destruct (g x); simpl; lia.
Qed.

Definition unseen (seen : list str) (pl : placement) : bool := negb (mem_str (fst pl) seen).

Lemma odf_dedupe_length names cm l : forall seen k,
  (List.length (fst (fst (odf_dedupe names seen cm k l))) <= List.length (filter (unseen seen) l))%nat.
Proof.
  induction l as [|pl r IH]; intros seen k; cbn [odf_dedupe filter]; [simpl; lia|].
  unfold unseen at 1. destruct (mem_str (fst pl) seen) eqn:Em; cbn [negb]; [apply IH|].
  assert (Mono : (List.length (filter (unseen (fst pl :: seen)) r) <= List.length (filter (unseen seen) r))%nat).
  { apply filter_length_mono. intros x Hx. unfold unseen in *. simpl in Hx.
    destruct (str_eqb (fst x) (fst pl)); [discriminate | exact Hx]. }
  destruct (fetch_odf names pl) as [m|].
  - specialize (IH (fst pl :: seen) (k + 1)).
    destruct (odf_dedupe names (fst pl :: seen) cm (k + 1) r) as [[out sn] k']. simpl in *. lia.
  - destruct cm.
    + specialize (IH (fst pl :: seen) (k + 1)).
      destruct (odf_dedupe names (fst pl :: seen) true (k + 1) r) as [[out sn] k']. simpl in *. lia.
    + specialize (IH seen k). simpl. lia.
Qed.

Definition local_href (pl : placement) : bool := negb (is_http (fst pl)).

Lemma odt_pass1_length_seen names l : forall k,
  (List.length (fst (fst (odt_pass1 names k l))) <= List.length (filter local_href l))%nat
  /\ snd (fst (odt_pass1 names k l)) = map fst (filter local_href l).
Proof.
  induction l as [|pl r IH]; intro k; cbn [odt_pass1 filter]; [split; [simpl; lia | reflexivity]|].
  change (local_href pl) with (negb (is_http (fst pl))). destruct (is_http (fst pl)); cbn [negb]; [apply IH|].
  destruct (member_of names (odf_member (fst pl))) as [m|].
  - specialize (IH (k + 1)). destruct (odt_pass1 names (k + 1) r) as [[out sn] k']. simpl in *.
    destruct IH as [H1 H2]. split; [lia | rewrite H2; reflexivity].
  - specialize (IH k). destruct (odt_pass1 names k r) as [[out sn] k']. simpl in *.
    destruct IH as [H1 H2]. split; [lia | rewrite H2; reflexivity].
Qed.

Lemma disjoint_filters_length {A} (f g : A -> bool) l :
  (forall x, In x l -> f x = true -> g x = false) ->
  (List.length (filter f l) + List.length (filter g l) <= List.length l)%nat.
Proof.
  induction l as [|x l IH]; intro H; simpl; [lia|].
  assert (IH' := IH (fun y Hy => H y (or_intror Hy))).
  destruct (f x) eqn:E; [rewrite (H x (or_introl eq_refl) E); simpl; lia|]. destruct (g x); simpl; lia.
Qed.

Lemma filter_filter {A} (f g : A -> bool) l : filter f (filter g l) = filter (fun x => g x && f x) l.
Proof. induction l as [|x l IH]; simpl; [reflexivity|]. destruct (g x); simpl; [destruct (f x); rewrite IH; reflexivity | exact IH]. Qed.

Lemma odt_images_length names u : (List.length (odt_images names u) <= List.length u)%nat.
Proof.
  unfold odt_images.
  pose proof (odt_pass1_length_seen names (filter (flag_is 1) u) 0) as [L1 S1].
  destruct (odt_pass1 names 0 (filter (flag_is 1) u)) as [[o1 seen] k]. simpl in L1, S1.
  pose proof (odf_dedupe_length names false u seen k) as L2.
  destruct (odf_dedupe names seen false k u) as [[o2 sn] k2]. simpl in L2.
  rewrite app_length. rewrite filter_filter in L1, S1.
  set (P1 := fun x : placement => flag_is 1 x && local_href x) in *.
  assert (D : (List.length (filter P1 u) + List.length (filter (unseen seen) u) <= List.length u)%nat).
  { apply disjoint_filters_length. intros x Hx Hp. unfold unseen. apply negb_false_iff. apply mem_str_In.
    rewrite S1. apply in_map. apply filter_In. auto. }
  lia.
Qed.

(* ---- content type *)
Open Scope N_scope.
Lemma after_last_app sep pre ext :
  existsb (N.eqb sep) ext = false -> after_last sep (pre ++ sep :: ext) = ext.
Proof.
  intro H. induction pre as [|c pre IH]; cbn [app after_last].
  - rewrite H, N.eqb_refl. reflexivity.
  - assert (E : existsb (N.eqb sep) (pre ++ sep :: ext) = true).
    { rewrite existsb_app. cbn [existsb]. rewrite N.eqb_refl, orb_true_r. reflexivity. }
    rewrite E. exact IH.
Qed.

Lemma ooxml_content_type_of_ext lower tbl pre ext ext' ct :
  existsb (N.eqb DOT) ext = false -> lower ext = ext' -> assoc ext' tbl = Some ct ->
  ooxml_content_type lower tbl (pre ++ DOT :: ext) = ct.
Proof. intros Hd Hl Ha. unfold ooxml_content_type. rewrite (after_last_app DOT pre ext Hd), Hl, Ha. reflexivity. Qed.

Lemma xlsx_content_type_of_ext lower tbl dir stem ext ext' ct :
  existsb (N.eqb SLASH) (stem ++ DOT :: ext) = false -> existsb (N.eqb DOT) ext = false ->
  lower ext = ext' -> assoc ext' tbl = Some ct ->
  xlsx_content_type lower tbl (dir ++ SLASH :: stem ++ DOT :: ext) = ct.
Proof.
  intros Hs Hd Hl Ha. unfold xlsx_content_type. rewrite (after_last_app SLASH dir _ Hs).
  assert (E : existsb (N.eqb DOT) (stem ++ DOT :: ext) = true).
  { rewrite existsb_app. cbn [existsb]. rewrite N.eqb_refl, orb_true_r. reflexivity. }
  rewrite E, (after_last_app DOT stem ext Hd), Hl, Ha. reflexivity.
Qed.

(* the byte-sniffing variant: identical without a sniffed type, the table still wins, an unknown extension gets the
   sniffed type *)
Lemma content_type_b_none lower tbl x :
  ooxml_content_type_b lower tbl None x = ooxml_content_type lower tbl x
  /\ xlsx_content_type_b lower tbl None x = xlsx_content_type lower tbl x.
Proof. split; reflexivity. Qed.

Lemma ooxml_content_type_b_spec lower tbl sn pre ext :
  existsb (N.eqb DOT) ext = false ->
  ooxml_content_type_b lower tbl sn (pre ++ DOT :: ext)
  = match assoc (lower ext) tbl with Some v => v | None => match sn with Some c => c | None => s "image/" ++ lower ext end end.
Proof. intro Hd. unfold ooxml_content_type_b. rewrite (after_last_app DOT pre ext Hd). reflexivity. Qed.
