(* C14 — property theorems: images bit-exact, numbered, on the right unit.
   Statements closed by `exact`, each followed by Print Assumptions. *)
From Coq Require Import ZArith List Bool Lia.
From S2T Require Import Lib.PyStr C01.Loops C14.Model C14.ProofsPath C14.ProofsSniff C14.ProofsNum C14.ProofsPass C14.ProofsLegacy.
Import ListNotations.

(* ================= 1. part-name resolution (resolve_part_name, used by docx/pptx/xlsx/epub) ================= *)
Open Scope N_scope.

(* the stack machine computes exactly the part the reference designates (relational RFC 3986 spec) *)
Theorem C14_resolve_correct :
  forall (bs : list str) (target : str) (out : list str),
    resolves_spec bs target out <-> out = resolve_segs bs target.
Proof. exact resolve_segs_spec. Qed.
Print Assumptions C14_resolve_correct.

(* relative reference: below the base directory, as written *)
Theorem C14_resolve_relative :
  forall (base t : str),
    forallb seg_clean (split_slash base) = true -> is_abs t = false -> forallb seg_clean (split_slash t) = true ->
    resolve_part base t = base ++ SLASH :: t.
Proof. exact resolve_part_relative. Qed.
Print Assumptions C14_resolve_relative.
Example C14_resolve_relative_nonvacuous :
  forallb seg_clean (split_slash (s "ppt/slides")) = true /\ is_abs (s "media/x.png") = false
  /\ forallb seg_clean (split_slash (s "media/x.png")) = true.
Proof. vm_compute. auto. Qed.
Print Assumptions C14_resolve_relative_nonvacuous.

(* parent-relative reference: "../t" from directory bs/d is t from bs (and stays at the root) *)
Theorem C14_resolve_parent :
  forall (bs : list str) (d t : str), is_abs t = false ->
    resolve_segs (bs ++ [d]) (s "../" ++ t) = resolve_segs bs t /\ resolve_segs [] (s "../" ++ t) = resolve_segs [] t.
Proof. intros bs d t H. exact (conj (resolve_parent bs d t H) (resolve_parent_root t H)). Qed.
Print Assumptions C14_resolve_parent.

(* absolute reference: resolved from the package root whatever the base *)
Theorem C14_resolve_absolute :
  forall (bs : list str) (t : str), resolve_segs bs (SLASH :: t) = resolve_segs [] t.
Proof. exact resolve_absolute. Qed.
Print Assumptions C14_resolve_absolute.

(* "./t" = t and "x/../t" = t *)
Theorem C14_resolve_dot_segments :
  forall (bs : list str) (x t : str), is_abs t = false ->
    resolve_segs bs (s "./" ++ t) = resolve_segs bs t
    /\ (seg_clean x = true -> no_slash x = true -> resolve_segs bs (x ++ SLASH :: s "../" ++ t) = resolve_segs bs t).
Proof. intros bs x t H. split; [exact (resolve_dot bs t H) | intros Hc Hn; exact (resolve_detour bs x t Hc Hn H)]. Qed.
Print Assumptions C14_resolve_dot_segments.

(* the result is a part name: no "", "." or ".." segment *)
Theorem C14_resolve_names_a_part :
  forall (bs : list str) (t : str), forallb seg_clean bs = true -> forallb seg_clean (resolve_segs bs t) = true.
Proof. exact resolve_clean. Qed.
Print Assumptions C14_resolve_names_a_part.

(* the three shapes of the property on the PPTX/DOCX/XLSX/EPUB layouts *)
Example C14_resolve_examples :
  resolve_part (s "ppt/slides") (s "../media/x.png") = s "ppt/media/x.png"
  /\ resolve_part (s "ppt/slides") (s "/ppt/media/x.png") = s "ppt/media/x.png"
  /\ resolve_part (s "word") (s "media/x.png") = s "word/media/x.png"
  /\ resolve_part (s "word") (s "/word/media/x.png") = s "word/media/x.png"
  /\ resolve_part (s "word") (s "../word/media/x.png") = s "word/media/x.png"
  /\ resolve_part (s "xl/drawings") (s "../media/a/x.png") = s "xl/media/a/x.png"
  /\ resolve_part (s "OEBPS/pkg/") (s "../images/a.png") = s "OEBPS/images/a.png".
Proof. vm_compute. repeat split. Qed.
Print Assumptions C14_resolve_examples.

(* ---- the resolvers that were in the code before fixes/C14-resolve-part-names.patch *)
Theorem C14_pptx_legacy_absolute_refuted :
  exists base t, is_abs t = true /\ pptx_legacy base t <> resolve_part base t.
Proof. exists (s "ppt/slides"), (s "/ppt/media/x.png"). split; [reflexivity | vm_compute; discriminate]. Qed.
Print Assumptions C14_pptx_legacy_absolute_refuted.

Theorem C14_pptx_legacy_partial :
  forall base t, forallb seg_clean (split_slash base) = true -> is_abs t = false ->
    forallb seg_clean (split_slash t) = true -> pptx_legacy base t = resolve_part base t.
Proof. exact pptx_legacy_relative. Qed.
Print Assumptions C14_pptx_legacy_partial.

Theorem C14_docx_legacy_refuted :
  (exists t, is_abs t = true /\ docx_legacy t <> resolve_part (s "word") t)
  /\ (exists t, is_abs t = false /\ docx_legacy t <> resolve_part (s "word") t).
Proof.
  split; [exists (s "/word/media/x.png") | exists (s "../word/media/x.png")]; (split; [reflexivity | vm_compute; discriminate]).
Qed.
Print Assumptions C14_docx_legacy_refuted.

Theorem C14_docx_legacy_partial :
  forall t, is_abs t = false -> forallb seg_clean (split_slash t) = true -> docx_legacy t = resolve_part (s "word") t.
Proof. exact docx_legacy_relative. Qed.
Print Assumptions C14_docx_legacy_partial.

Theorem C14_epub_xlsx_legacy_refuted :
  epub_legacy (s "OEBPS/pkg/") (s "../images/a.png") <> resolve_part (s "OEBPS/pkg/") (s "../images/a.png")
  /\ xlsx_image_legacy (s "../media/a/x.png") <> resolve_part (s "xl/drawings") (s "../media/a/x.png").
Proof. split; vm_compute; discriminate. Qed.
Print Assumptions C14_epub_xlsx_legacy_refuted.

(* ---- ODF before fixes/C14-odf-href-and-ods-counter.patch: the href was used verbatim as the member name;
   the repaired extractors call odf_member_name = resolve_part_name("", href), i.e. Model.odf_member *)
Theorem C14_odf_href_legacy_refuted :
  exists href, is_abs href = false /\ odf_legacy href <> resolve_part [] href.
Proof. exists (s "./Pictures/a.png"). split; [reflexivity | vm_compute; discriminate]. Qed.
Print Assumptions C14_odf_href_legacy_refuted.

Theorem C14_odf_href_legacy_partial :
  forall href, is_abs href = false -> forallb seg_clean (split_slash href) = true -> odf_legacy href = resolve_part [] href.
Proof. exact odf_legacy_relative. Qed.
Print Assumptions C14_odf_href_legacy_partial.
(* repaired: an ODF href names the part it designates from the package root, "./" and "x/../" included *)
Theorem C14_odf_href_resolved :
  forall href out, resolves_spec [] href out <-> out = resolve_segs [] href.
Proof. exact (resolve_segs_spec []). Qed.
Print Assumptions C14_odf_href_resolved.
Example C14_odf_href_examples :
  odf_member (s "./Pictures/a.png") = s "Pictures/a.png" /\ odf_member (s "Pictures/a.png") = s "Pictures/a.png"
  /\ odf_member (s "Pictures/x/../a.png") = s "Pictures/a.png".
Proof. vm_compute. repeat split. Qed.
Print Assumptions C14_odf_href_examples.
Example C14_odf_href_partial_nonvacuous :
  is_abs (s "Pictures/a.png") = false /\ forallb seg_clean (split_slash (s "Pictures/a.png")) = true.
Proof. vm_compute. auto. Qed.
Print Assumptions C14_odf_href_partial_nonvacuous.

(* member lookup is by exact name: a reference is never served another member (names differing in letter case,
   Unicode normalisation form or a space are different members) *)
Theorem C14_member_lookup_exact :
  forall (names : list str) (p q : str), member_of names p = Some q -> q = p /\ In p names.
Proof. exact member_of_exact. Qed.
Print Assumptions C14_member_lookup_exact.
Example C14_member_lookup_case_twins :
  member_of [s "Pictures/logo.png"; s "Pictures/Logo.png"] (s "Pictures/logo.png") = Some (s "Pictures/logo.png")
  /\ member_of [s "Pictures/logo.png"; s "Pictures/Logo.png"] (s "Pictures/Logo.png") = Some (s "Pictures/Logo.png")
  /\ member_of [s "Pictures/Logo.png"] (s "Pictures/logo.png") = None.
Proof. vm_compute. repeat split. Qed.
Print Assumptions C14_member_lookup_case_twins.

(* PDF: the content type of an image XObject is decided by the last stage of its /Filter chain alone — a JPEG stored
   behind Flate / ASCIIHex / ASCII85 / RunLength / LZW stages is labelled like a plain /DCTDecode one *)
Theorem C14_pdf_codec_is_last_stage :
  forall (tbl : list (str * str)) (pre : list str) (c : str),
    pdf_codec (pre ++ [c]) = c /\ pdf_content_type tbl (pre ++ [c]) = pdf_content_type tbl [c].
Proof. intros tbl pre c. exact (conj (pdf_codec_last pre c) (pdf_content_type_last tbl pre c)). Qed.
Print Assumptions C14_pdf_codec_is_last_stage.

(* reading a member (read_zip_member: getinfo + open + read): the bytes belong to an entry of exactly that name; a member
   is readable iff `exists` finds it; with DUPLICATE names it is the last entry of the archive's directory that is read *)
Theorem C14_zip_read_by_name :
  forall (B : Type) (entries : list (str * B)) (p : str),
    (forall b, zip_read entries p = Some b -> In (p, b) entries)
    /\ ((exists b, zip_read entries p = Some b) <-> member_of (map fst entries) p = Some p)
    /\ (forall pre post b, entries = pre ++ (p, b) :: post -> ~ In p (map fst post) -> zip_read entries p = Some b).
Proof.
  intros B entries p. split; [intros b; exact (zip_read_exact entries p b)|].
  split; [exact (zip_read_member entries p)|]. intros pre post b -> H. exact (zip_read_last pre post p b H).
Qed.
Print Assumptions C14_zip_read_by_name.

(* ================= 2. header sniffers ================= *)
Open Scope Z_scope.

(* never out of fuel (the walks terminate) and no other outcome than a pair of optional ints *)
Theorem C14_sniff_total :
  forall d k, bytes_ok d = true -> ooxml_dims d <> OutOfFuel /\ util_dims k d <> OutOfFuel.
Proof. intros d k H. exact (conj (ooxml_dims_total d H) (util_dims_total k d H)). Qed.
Print Assumptions C14_sniff_total.

Theorem C14_sniff_png :
  forall clen w h rest, List.length clen = 4%nat -> 0 <= w < 4294967296 -> 0 <= h < 4294967296 ->
    ooxml_dims (png_file clen w h rest) = Dims (nz w) (nz h)
    /\ util_dims K_png (png_file clen w h rest) = Dims (Some w) (Some h).
Proof. exact png_header_ok. Qed.
Print Assumptions C14_sniff_png.

Theorem C14_sniff_gif :
  forall v w h rest, 0 <= w < 65536 -> 0 <= h < 65536 ->
    ooxml_dims (gif_file v w h rest) = Dims (nz w) (nz h)
    /\ util_dims K_gif (gif_file v w h rest) = Dims (Some w) (Some h).
Proof. exact gif_header_ok. Qed.
Print Assumptions C14_sniff_gif.

(* BMP: a top-down bitmap stores a negative height; both sniffers report |h|; the util sniffer keeps the sign of w *)
Theorem C14_sniff_bmp :
  forall hdr w h rest, List.length hdr = 16%nat -> -2147483648 <= w < 2147483648 -> -2147483648 <= h < 2147483648 ->
    ooxml_dims (bmp_file hdr w h rest) = Dims (nz (Z.abs w)) (nz (Z.abs h))
    /\ util_dims K_bmp (bmp_file hdr w h rest) = Dims (Some w) (Some (Z.abs h)).
Proof. exact bmp_header_ok. Qed.
Print Assumptions C14_sniff_bmp.

(* JPEG: any sequence of complete non-SOF segments (payloads arbitrary) followed by a complete SOFn segment *)
Theorem C14_sniff_jpeg :
  forall segs m prec h w tail rest,
    forallb seg_ok segs = true -> is_sof m = true -> 0 <= h < 65536 -> 0 <= w < 65536 -> len tail < 65529 ->
    ooxml_dims (jpeg_file segs m prec h w tail rest) = Dims (nz w) (nz h).
Proof. exact jpeg_header_ok. Qed.
Print Assumptions C14_sniff_jpeg.
Example C14_sniff_jpeg_nonvacuous :
  forallb seg_ok [(224, [74; 70; 73; 70; 0]); (219, [0; 1; 1])] = true /\ is_sof 194 = true
  /\ ooxml_dims (jpeg_file [(224, [74; 70; 73; 70; 0]); (219, [0; 1; 1])] 194 8 5 7 [1; 1; 17; 0] [255; 217]) = Dims (Some 7) (Some 5).
Proof. vm_compute. auto. Qed.
Print Assumptions C14_sniff_jpeg_nonvacuous.

(* the same for util/image_utils.get_image_dimensions(data, "jpeg"): its loop condition `offset < len(data) - 9`
   additionally needs one byte after the 9 bytes read of the SOF segment *)
Theorem C14_sniff_jpeg_util :
  forall segs m prec h w tail rest,
    forallb seg_ok segs = true -> is_sof m = true -> 0 <= h < 65536 -> 0 <= w < 65536 -> len tail < 65529 ->
    1 <= len tail + len rest ->
    util_dims K_jpeg (jpeg_file segs m prec h w tail rest) = Dims (Some w) (Some h).
Proof. exact jpeg_header_ok_util. Qed.
Print Assumptions C14_sniff_jpeg_util.
Example C14_sniff_jpeg_util_nonvacuous :
  1 <= len [1; 1; 17; 0] + len [255; 217]
  /\ util_dims K_jpeg (jpeg_file [(224, [74; 70; 73; 70; 0]); (219, [0; 1; 1])] 194 8 5 7 [1; 1; 17; 0] [255; 217]) = Dims (Some 7) (Some 5).
Proof. vm_compute. split; [discriminate | reflexivity]. Qed.
Print Assumptions C14_sniff_jpeg_util_nonvacuous.
(* the extra premise is needed: a file that ends right after the SOF header is sized by the ooxml copies only *)
Example C14_sniff_jpeg_util_needs_a_following_byte :
  util_dims K_jpeg (jpeg_file [] 192 8 5 7 [] []) = Dims None None
  /\ ooxml_dims (jpeg_file [] 192 8 5 7 [] []) = Dims (Some 7) (Some 5).
Proof. vm_compute. split; reflexivity. Qed.
Print Assumptions C14_sniff_jpeg_util_needs_a_following_byte.

(* ================= 3. numbering and pass-through ================= *)
(* found-only counter (docx, pptx slide, xlsx, odp, epub): numbers k+1..k+n, payloads = the found media in
   document order, untouched (B is opaque: the model cannot transform the bytes), nothing else returned *)
Theorem C14_image_numbers :
  forall (A B : Type) (fetch : A -> option B) (l : list A) (k : Z),
    map fst (number_found fetch k l) = zseq k (List.length (number_found fetch k l))
    /\ map snd (number_found fetch k l) = flat_map (found A B fetch) l.
Proof. intros A B fetch l k. exact (conj (number_found_numbers A B fetch l k) (number_found_payload A B fetch l k)). Qed.
Print Assumptions C14_image_numbers.

(* a counter threaded through the units (xlsx, odp): 1..n over the whole document, each unit holds its own media *)
Theorem C14_running_numbers :
  forall (A B : Type) (fetch : A -> option B) (units : list (list A)),
    map fst (List.concat (number_units_running fetch 0 units))
      = zseq 0 (List.length (List.concat (number_units_running fetch 0 units)))
    /\ map (map snd) (number_units_running fetch 0 units) = map (flat_map (found A B fetch)) units.
Proof. intros A B fetch units. exact (conj (running_numbers A B fetch units 0) (running_unit_payload A B fetch units 0)). Qed.
Print Assumptions C14_running_numbers.

(* pptx/pdf: the counter restarts on every slide/page — the document-level numbering is not 1..n *)
Theorem C14_restart_numbers_refuted :
  exists (units : list (list bool)) (fetch : bool -> option bool),
    map fst (List.concat (number_units_restart fetch units))
    <> zseq 0 (List.length (List.concat (number_units_restart fetch units))).
Proof. exact restart_refuted. Qed.
Print Assumptions C14_restart_numbers_refuted.

Theorem C14_restart_numbers_partial :
  forall (A B : Type) (fetch : A -> option B) (units : list (list A)) (u : list A),
    map (map snd) (number_units_restart fetch units) = map (flat_map (found A B fetch)) units
    /\ map fst (List.concat (number_units_restart fetch [u])) = zseq 0 (List.length (List.concat (number_units_restart fetch [u]))).
Proof. intros A B fetch units u. exact (conj (restart_unit_payload A B fetch units) (restart_single A B fetch u)). Qed.
Print Assumptions C14_restart_numbers_partial.

(* ods before fixes/C14-odf-href-and-ods-counter.patch: the counter was incremented before the existence check —
   a missing member left a gap; the repaired loop is the found-only counter of C14_image_numbers/C14_running_numbers *)
Theorem C14_ods_numbers_refuted :
  exists (l : list bool) (fetch : bool -> option bool),
    map fst (number_all fetch 0 l) <> zseq 0 (List.length (number_all fetch 0 l)).
Proof. exact number_all_refuted. Qed.
Print Assumptions C14_ods_numbers_refuted.

Theorem C14_ods_numbers_partial :
  forall (A B : Type) (fetch : A -> option B) (l : list A) (k : Z),
    map snd (number_all fetch k l) = flat_map (found A B fetch) l
    /\ (all_found A B fetch l = true -> number_all fetch k l = number_found fetch k l).
Proof. intros A B fetch l k. exact (conj (number_all_payload A B fetch l k) (number_all_when_found A B fetch l k)). Qed.
Print Assumptions C14_ods_numbers_partial.
Example C14_ods_numbers_partial_nonvacuous : all_found bool bool (fun b => Some b) [true; false] = true.
Proof. reflexivity. Qed.
Print Assumptions C14_ods_numbers_partial_nonvacuous.

(* ================= 4. unit view vs document view ================= *)
(* pdf / pptx / odp: the two views coincide (as concatenation), images and tables; ods images likewise *)
Theorem C14_views_coincide :
  forall (I T : Type) (pages : list (@page I T)),
    flat_map u_images (iterate_units pages) = iterate_images pages
    /\ flat_map u_tables (iterate_units pages) = iterate_tables pages.
Proof. intros I T pages. exact (conj (views_images I T pages) (views_tables I T pages)). Qed.
Print Assumptions C14_views_coincide.

Theorem C14_unit_content_in_document :
  forall (I T : Type) (pages : list (@page I T)) (u : @unit_ I T),
    In u (iterate_units pages) ->
    (forall x, In x (u_images u) -> In x (iterate_images pages)) /\ (forall x, In x (u_tables u) -> In x (iterate_tables pages)).
Proof.
  intros I T pages u Hu. split; intros x Hx;
    [exact (unit_image_in_document I T pages u x Hu Hx) | exact (unit_table_in_document I T pages u x Hu Hx)].
Qed.
Print Assumptions C14_unit_content_in_document.

(* xlsx and ods (sheet = one table): images coincide, every unit table is a document table; the table views
   differ exactly on empty sheets *)
Theorem C14_xlsx_views :
  forall (I T : Type) (empty_table : T -> bool) (sheets : list (@sheet I T)),
    flat_map u_images (xlsx_units empty_table sheets) = xlsx_images sheets
    /\ (forall u x, In u (xlsx_units empty_table sheets) -> In x (u_tables u) -> In x (xlsx_tables sheets))
    /\ (no_empty_sheet I T empty_table sheets = true -> flat_map u_tables (xlsx_units empty_table sheets) = xlsx_tables sheets).
Proof.
  intros I T e sheets. split; [exact (xlsx_views_images I T e sheets)|]. split;
    [intros u x; exact (xlsx_unit_table_in_document I T e sheets u x) | exact (xlsx_views_tables_partial I T e sheets)].
Qed.
Print Assumptions C14_xlsx_views.

Theorem C14_xlsx_views_tables_refuted :
  exists (sheets : list (@sheet unit (list Z))),
    flat_map u_tables (xlsx_units (fun t => match t with [] => true | _ => false end) sheets) <> xlsx_tables sheets.
Proof. exact xlsx_views_tables_refuted. Qed.
Print Assumptions C14_xlsx_views_tables_refuted.

(* docx: a unit's images are selected from the document's image list *)
Theorem C14_docx_unit_images_in_document :
  forall (I : Type) (anchors : I -> list Z) (imgs : list I) (paras : list Z) (x : I),
    In x (docx_unit_images anchors imgs paras) -> In x imgs.
Proof. exact docx_unit_image_in_document. Qed.
Print Assumptions C14_docx_unit_images_in_document.

(* ================= 5. the ODT and ODG passes (two-pass / de-duplicating extraction) ================= *)
(* ODT: text-box pictures first, then the other frames, hrefs already seen skipped — numbers are 1..n *)
Theorem C14_odt_numbers :
  forall (names : list str) (u : list placement),
    map fst (odt_images names u) = zseq 0 (List.length (odt_images names u)).
Proof. exact odt_images_numbers. Qed.
Print Assumptions C14_odt_numbers.

(* ODT never returns more records than the body has picture frames: the inner frame of a captioned picture, which
   the second pass walks again, is skipped because the first pass recorded its href under the same (raw) spelling *)
Theorem C14_odt_no_second_copy :
  forall (names : list str) (u : list placement), (List.length (odt_images names u) <= List.length u)%nat.
Proof. exact odt_images_length. Qed.
Print Assumptions C14_odt_no_second_copy.
Example C14_odt_captioned_dot_href_once :
  odt_images [s "Pictures/b.png"] [(s "./Pictures/b.png", 1)] = [(1, s "Pictures/b.png")].
Proof. vm_compute. reflexivity. Qed.
Print Assumptions C14_odt_captioned_dot_href_once.

(* ODG: one de-duplicating pass, a record for every distinct href — numbers are 1..n *)
Theorem C14_odg_numbers :
  forall (names : list str) (u : list placement),
    let '(o, _, _) := odf_dedupe names [] true 0 u in map fst o = zseq 0 (List.length o).
Proof. exact odg_images_numbers. Qed.
Print Assumptions C14_odg_numbers.

(* ODT order: a captioned (text-box) picture placed after a plain one is returned and numbered before it *)
Theorem C14_odt_order_refuted :
  exists (names : list str) (u : list placement),
    map snd (odt_images names u) <> flat_map (found placement str (fetch_odf names)) u.
Proof.
  exists [s "Pictures/a.png"; s "Pictures/b.jpg"], [(s "Pictures/a.png", 0); (s "Pictures/b.jpg", 1)].
  vm_compute. discriminate.
Qed.
Print Assumptions C14_odt_order_refuted.

Theorem C14_odt_order_partial :
  forall (names : list str) (u : list placement),
    forallb (flag_is 0) u = true -> odt_images names u = fst (fst (odf_dedupe names [] false 0 u)).
Proof. exact odt_images_no_textbox. Qed.
Print Assumptions C14_odt_order_partial.
Example C14_odt_order_partial_nonvacuous : forallb (flag_is 0) [(s "Pictures/a.png", 0); (s "Pictures/b.jpg", 0)] = true.
Proof. reflexivity. Qed.
Print Assumptions C14_odt_order_partial_nonvacuous.

(* "no image that the document does not contain" is false of the ODF passes: an external link is kept as a record
   without bytes (member ""), and ODG also keeps one for a member that is missing from the package *)
Theorem C14_odf_placeholders_refuted :
  (forall names f, fetch_odf names (s "http://example.com/x.png", f) = Some [])
  /\ (exists names u, let '(o, _, _) := odf_dedupe names [] true 0 u in In (1, []) o /\ names = []).
Proof.
  split; [intros names f; reflexivity|].
  exists [], [(s "Pictures/gone.png", 0)]. vm_compute. split; [left; reflexivity | reflexivity].
Qed.
Print Assumptions C14_odf_placeholders_refuted.

(* ================= 6. content type from the extension (docx / pptx / xlsx) ================= *)
Open Scope N_scope.
(* whatever precedes the last dot, an extension that lower-cases to a key of the table gets the table's type *)
Theorem C14_ooxml_content_type :
  forall (lower : str -> str) (tbl : list (str * str)) (pre ext ext' ct : str),
    existsb (N.eqb DOT) ext = false -> lower ext = ext' -> assoc ext' tbl = Some ct ->
    ooxml_content_type lower tbl (pre ++ DOT :: ext) = ct.
Proof. exact ooxml_content_type_of_ext. Qed.
Print Assumptions C14_ooxml_content_type.

Theorem C14_xlsx_content_type :
  forall (lower : str -> str) (tbl : list (str * str)) (dir stem ext ext' ct : str),
    existsb (N.eqb SLASH) (stem ++ DOT :: ext) = false -> existsb (N.eqb DOT) ext = false ->
    lower ext = ext' -> assoc ext' tbl = Some ct ->
    xlsx_content_type lower tbl (dir ++ SLASH :: stem ++ DOT :: ext) = ct.
Proof. exact xlsx_content_type_of_ext. Qed.
Print Assumptions C14_xlsx_content_type.

(* the type comes from the NAME: a PNG stored under an extension outside the table is labelled "image/<ext>" *)
Theorem C14_content_type_unknown_extension_refuted :
  exists (tbl : list (str * str)) (target : str),
    assoc (s "png") tbl = Some (s "image/png") /\ ooxml_content_type (fun x => x) tbl target <> s "image/png".
Proof. exists [(s "png", s "image/png")], (s "media/image1.dat"). split; [reflexivity | vm_compute; discriminate]. Qed.
Print Assumptions C14_content_type_unknown_extension_refuted.

(* with the proposed byte-sniffing fallback the refutation above disappears: the table decides for known extensions,
   the image signature (oracle value) for the others; without a sniffed value it is the current code *)
Theorem C14_content_type_bytes_fallback :
  forall (lower : str -> str) (tbl : list (str * str)) (sn : option str) (pre ext : str),
    existsb (N.eqb DOT) ext = false ->
    ooxml_content_type_b lower tbl sn (pre ++ DOT :: ext)
    = match assoc (lower ext) tbl with Some v => v | None => match sn with Some c => c | None => s "image/" ++ lower ext end end.
Proof. exact ooxml_content_type_b_spec. Qed.
Print Assumptions C14_content_type_bytes_fallback.

(* ================= 7. legacy BLIP images (XLS): detection, DIB wrapping, numbering, provenance ================= *)
Open Scope Z_scope.
(* detect_image_type recognises every well-formed PNG / GIF / BMP / JPEG file of the sniffer theorems as what it is *)
Theorem C14_detect_type_wellformed :
  (forall clen w h rest, List.length clen = 4%nat -> detect_type (png_file clen w h rest) = Some T_png)
  /\ (forall v w h rest, detect_type (gif_file v w h rest) = Some T_gif)
  /\ (forall hdr w h rest, List.length hdr = 16%nat -> detect_type (bmp_file hdr w h rest) = Some T_bmp)
  /\ (forall segs m prec h w tail rest, detect_type (jpeg_file segs m prec h w tail rest) = Some T_jpeg).
Proof. exact (conj detect_png (conj detect_gif (conj detect_bmp detect_jpeg))). Qed.
Print Assumptions C14_detect_type_wellformed.

(* wrap_dib_as_bmp: a 14-byte "BM" file header in front of the untouched DIB bytes *)
Theorem C14_wrap_dib_passthrough :
  forall d b, wrap_dib d = Some b -> exists hdr, List.length hdr = 14%nat /\ b = hdr ++ d /\ firstn 2 hdr = BM.
Proof. exact wrap_dib_passthrough. Qed.
Print Assumptions C14_wrap_dib_passthrough.

(* the XLS image stage (sha1 digest = oracle): numbers k+1..k+n; every image is a slice found by the record walk
   (C01 xls_blips), bit-exact, or the BMP wrapping of a DIB slice; classified from its own bytes *)
Theorem C14_xls_images :
  forall (D : Type) (digest : list Z -> D) (deq : D -> D -> bool) (seen : list D) (k : Z) (l : list (Z * list Z)),
    map (fun x => fst (fst x)) (xls_stage digest deq seen k l) = zseq k (List.length (xls_stage digest deq seen k l))
    /\ (forall n t b, In (n, t, b) (xls_stage digest deq seen k l) ->
          exists rt d, In (rt, d) l /\ classify rt d = Some (t, b) /\ (b = d \/ wrap_dib d = Some b)).
Proof.
  intros D digest deq seen k l. split; [exact (xls_stage_numbers D digest deq l seen k)|].
  intros n t b H. destruct (xls_stage_provenance D digest deq l seen k n t b H) as [rt [d [H1 H2]]].
  exists rt, d. split; [exact H1|]. split; [exact H2 | exact (classify_bytes rt d t b H2)].
Qed.
Print Assumptions C14_xls_images.
