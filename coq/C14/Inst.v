(* C14 — obligations re-decided by the kernel for the tables generated from /repo on this run. *)
From Coq Require Import ZArith List Bool.
From S2T Require Import Lib.PyStr C01.Loops C14.Model Gen.C14Tables.
Import ListNotations.

(* the SOF marker sets of the three _get_image_pixel_dimensions copies are the set of the JPEG model *)
Theorem C14_sof_markers_match :
  forallb (fun l => zlist_eqb l sof_markers) [sof_docx; sof_pptx; sof_xlsx] = true.
Proof. vm_compute. reflexivity. Qed.
Print Assumptions C14_sof_markers_match.

(* the matching content type: every raster extension maps to its MIME type in all three extractors *)
Definition raster_types : list (str * str) :=
  [(s "png", s "image/png"); (s "jpg", s "image/jpeg"); (s "jpeg", s "image/jpeg"); (s "gif", s "image/gif"); (s "bmp", s "image/bmp")].
Theorem C14_content_types_match :
  forallb (fun m => forallb (fun et => match assoc (fst et) m with Some v => str_eqb v (snd et) | None => false end) raster_types)
          [ctmap_docx; ctmap_pptx; ctmap_xlsx] = true.
Proof. vm_compute. reflexivity. Qed.
Print Assumptions C14_content_types_match.

(* signature constants of the sniffers *)
Theorem C14_signatures_match :
  zlist_eqb sig_png PNG_SIG && zlist_eqb sig_bmp BM && zlist_eqb sig_gif87 GIF87 && zlist_eqb sig_gif89 GIF89 = true.
Proof. vm_compute. reflexivity. Qed.
Print Assumptions C14_signatures_match.

(* xlsx iterates the anchor types in this order (one-cell, two-cell, absolute), as modelled by xlsx_order *)
Theorem C14_anchor_order : zlist_eqb anchor_order [0; 1; 2]%Z = true.
Proof. vm_compute. reflexivity. Qed.
Print Assumptions C14_anchor_order.

(* PDF: the DCT codec is labelled image/jpeg (FILTER_TO_CONTENT_TYPE of the live module) *)
Theorem C14_pdf_dct_is_jpeg : pdf_content_type pdf_ctmap [s "/DCTDecode"] = s "image/jpeg".
Proof. vm_compute. reflexivity. Qed.
Print Assumptions C14_pdf_dct_is_jpeg.

(* C14_ooxml_content_type / C14_xlsx_content_type instantiated on the live tables: every raster extension, also in
   upper case (lower-casing recorded as the pair), gets its MIME type in the three extractors *)
Definition upper_pairs : list (str * str * str) :=
  [(s "PNG", s "png", s "image/png"); (s "JPG", s "jpg", s "image/jpeg"); (s "Jpeg", s "jpeg", s "image/jpeg");
   (s "gif", s "gif", s "image/gif"); (s "BMP", s "bmp", s "image/bmp")].
Theorem C14_content_type_by_extension :
  forallb (fun e : str * str * str => let '(raw, low, ct) := e in
     str_eqb (ooxml_content_type (fun x => if str_eqb x raw then low else x) ctmap_docx (s "media/a.b/image1." ++ raw)) ct
     && str_eqb (ooxml_content_type (fun x => if str_eqb x raw then low else x) ctmap_pptx (s "../media/image1." ++ raw)) ct
     && str_eqb (xlsx_content_type (fun x => if str_eqb x raw then low else x) ctmap_xlsx (s "xl/media/image1." ++ raw)) ct)
    upper_pairs = true.
Proof. vm_compute. reflexivity. Qed.
Print Assumptions C14_content_type_by_extension.
