(* C14 — header sniffers: totality and correctness on well-formed PNG/GIF/BMP/JPEG headers. *)
From Coq Require Import ZArith List Bool Lia ZifyBool.
From S2T Require Import Lib.PyStr C01.Loops C01.LoopsProofs C14.Model.
Import ListNotations.
Open Scope Z_scope.
Ltac Zify.zify_post_hook ::= Z.to_euclidean_division_equations.

(* ---------------------------------------------------------------- totality *)
Lemma ooxml_dims_total d : bytes_ok d = true -> ooxml_dims d <> OutOfFuel.
Proof.
  intro Hb. unfold ooxml_dims.
  destruct (len d =? 0); [discriminate|].
  destruct (slice_is d 0 PNG_SIG && (24 <=? len d)); [discriminate|].
  destruct ((slice_is d 0 GIF87 || slice_is d 0 GIF89) && (10 <=? len d)); [discriminate|].
  destruct (slice_is d 0 BM && (26 <=? len d)); [discriminate|].
  destruct (slice_is d 0 SOI); [|discriminate].
  pose proof (ooxml_jpeg_dims_terminates d 2 Hb ltac:(lia)) as Ht.
  destruct (ooxml_jpeg_dims (fuel_for d 2) d 2) as [[w h|]|]; [discriminate | discriminate | congruence].
Qed.

Lemma util_dims_total k d : bytes_ok d = true -> util_dims k d <> OutOfFuel.
Proof.
  intro Hb. destruct k; unfold util_dims.
  - destruct ((24 <=? len d) && slice_is d 12 IHDR); discriminate.
  - destruct (4 <=? len d); [|discriminate].
    pose proof (jpeg_dims_terminates d 2 Hb ltac:(lia)) as Ht.
    destruct (jpeg_dims (fuel_for d 2) d 2) as [[w h|]|]; [discriminate | discriminate | congruence].
  - destruct ((26 <=? len d) && slice_is d 0 BM); discriminate.
  - destruct (10 <=? len d); discriminate.
  - discriminate.
Qed.

(* ---------------------------------------------------------------- helpers *)
Lemma len_cons x l : len (x :: l) = 1 + len l.
Proof. unfold len. cbn [List.length]. lia. Qed.
Lemma len_app a b : len (a ++ b) = len a + len b.
Proof. unfold len. rewrite app_length. lia. Qed.
Lemma len_nonneg l : 0 <= len l.
Proof. unfold len. lia. Qed.

Lemma byte_at_app_r pre x k : 0 <= k -> byte_at (pre ++ x) (len pre + k) = byte_at x k.
Proof.
  intro Hk. unfold byte_at, len.
  replace (Z.to_nat (Z.of_nat (List.length pre) + k)) with (List.length pre + Z.to_nat k)%nat by lia.
  apply app_nth2_plus.
Qed.

Lemma be32_value w : 0 <= w < 4294967296 ->
  16777216 * (w / 16777216) + 65536 * ((w / 65536) mod 256) + 256 * ((w / 256) mod 256) + w mod 256 = w.
Proof. intro H. lia. Qed.
Lemma be16_value w : 0 <= w < 65536 -> 256 * (w / 256) + w mod 256 = w.
Proof. intro H. lia. Qed.
Lemma le32_value u : 0 <= u < 4294967296 ->
  u mod 256 + 256 * ((u / 256) mod 256) + 65536 * ((u / 65536) mod 256) + 16777216 * (u / 16777216) = u.
Proof. intro H. lia. Qed.

Ltac len_explicit := unfold len, PNG_SIG, IHDR, GIF87, GIF89, BM, SOI; cbn [List.length app]; rewrite ?app_length; cbn [List.length]; lia.

(* ---------------------------------------------------------------- PNG *)
Lemma png_bytes c0 c1 c2 c3 w3 w2 w1 w0 h3 h2 h1 h0 rest :
  let d := PNG_SIG ++ [c0; c1; c2; c3] ++ IHDR ++ [w3; w2; w1; w0] ++ [h3; h2; h1; h0] ++ rest in
  ooxml_dims d = Dims (nz (16777216 * w3 + 65536 * w2 + 256 * w1 + w0)) (nz (16777216 * h3 + 65536 * h2 + 256 * h1 + h0))
  /\ util_dims K_png d = Dims (Some (16777216 * w3 + 65536 * w2 + 256 * w1 + w0)) (Some (16777216 * h3 + 65536 * h2 + 256 * h1 + h0)).
Proof.
  intro d.
  assert (Hl : len d = 24 + len rest) by (subst d; len_explicit).
  pose proof (len_nonneg rest) as Hr.
  assert (Hs : slice_is d 0 PNG_SIG = true) by reflexivity.
  assert (Hi : slice_is d 12 IHDR = true) by reflexivity.
  assert (Hw : u32be d 16 = 16777216 * w3 + 65536 * w2 + 256 * w1 + w0) by reflexivity.
  assert (Hh : u32be d 20 = 16777216 * h3 + 65536 * h2 + 256 * h1 + h0) by reflexivity.
  unfold ooxml_dims, util_dims. rewrite Hs, Hi, Hw, Hh.
  destruct (len d =? 0) eqn:E0; [lia|]. destruct (24 <=? len d) eqn:E1; [|lia]. split; reflexivity.
Qed.

Lemma png_header_ok clen w h rest :
  List.length clen = 4%nat -> 0 <= w < 4294967296 -> 0 <= h < 4294967296 ->
  ooxml_dims (png_file clen w h rest) = Dims (nz w) (nz h)
  /\ util_dims K_png (png_file clen w h rest) = Dims (Some w) (Some h).
Proof.
  intros Hc Hw Hh.
  destruct clen as [|c0 [|c1 [|c2 [|c3 [|]]]]]; try discriminate.
  unfold png_file, be32.
  pose proof (png_bytes c0 c1 c2 c3 (w / 16777216) ((w / 65536) mod 256) ((w / 256) mod 256) (w mod 256)
                (h / 16777216) ((h / 65536) mod 256) ((h / 256) mod 256) (h mod 256) rest) as P.
  cbv zeta in P. rewrite (be32_value w Hw), (be32_value h Hh) in P. exact P.
Qed.

(* ---------------------------------------------------------------- GIF *)
Lemma gif_bytes (v : bool) w0 w1 h0 h1 rest :
  let d := (if v then GIF89 else GIF87) ++ [w0; w1] ++ [h0; h1] ++ rest in
  ooxml_dims d = Dims (nz (w0 + 256 * w1)) (nz (h0 + 256 * h1))
  /\ util_dims K_gif d = Dims (Some (w0 + 256 * w1)) (Some (h0 + 256 * h1)).
Proof.
  intro d.
  assert (Hl : len d = 10 + len rest) by (subst d; destruct v; len_explicit).
  pose proof (len_nonneg rest) as Hr.
  assert (Hp : slice_is d 0 PNG_SIG = false) by (subst d; destruct v; reflexivity).
  assert (Hg : slice_is d 0 GIF87 || slice_is d 0 GIF89 = true) by (subst d; destruct v; reflexivity).
  assert (Hw : u16le d 6 = w0 + 256 * w1) by (subst d; destruct v; reflexivity).
  assert (Hh : u16le d 8 = h0 + 256 * h1) by (subst d; destruct v; reflexivity).
  unfold ooxml_dims, util_dims. rewrite Hp, Hg, Hw, Hh.
  destruct (len d =? 0) eqn:E0; [lia|]. destruct (10 <=? len d) eqn:E1; [|lia]. split; reflexivity.
Qed.

Lemma gif_header_ok v w h rest :
  0 <= w < 65536 -> 0 <= h < 65536 ->
  ooxml_dims (gif_file v w h rest) = Dims (nz w) (nz h)
  /\ util_dims K_gif (gif_file v w h rest) = Dims (Some w) (Some h).
Proof.
  intros Hw Hh. unfold gif_file, le16.
  pose proof (gif_bytes v (w mod 256) (w / 256) (h mod 256) (h / 256) rest) as P. cbv zeta in P.
  replace (w mod 256 + 256 * (w / 256)) with w in P by lia.
  replace (h mod 256 + 256 * (h / 256)) with h in P by lia. exact P.
Qed.

(* ---------------------------------------------------------------- BMP *)
Lemma bmp_bytes a0 a1 a2 a3 a4 a5 a6 a7 a8 a9 a10 a11 a12 a13 a14 a15 w0 w1 w2 w3 h0 h1 h2 h3 rest :
  let d := BM ++ [a0; a1; a2; a3; a4; a5; a6; a7; a8; a9; a10; a11; a12; a13; a14; a15]
              ++ [w0; w1; w2; w3] ++ [h0; h1; h2; h3] ++ rest in
  let sgn u := if 2147483648 <=? u then u - 4294967296 else u in
  let wv := sgn (w0 + 256 * w1 + 65536 * w2 + 16777216 * w3) in
  let hv := sgn (h0 + 256 * h1 + 65536 * h2 + 16777216 * h3) in
  ooxml_dims d = Dims (nz (Z.abs wv)) (nz (Z.abs hv))
  /\ util_dims K_bmp d = Dims (Some wv) (Some (Z.abs hv)).
Proof.
  intros d sgn wv hv.
  assert (Hl : len d = 26 + len rest) by (subst d; len_explicit).
  pose proof (len_nonneg rest) as Hr.
  assert (Hp : slice_is d 0 PNG_SIG = false) by reflexivity.
  assert (Hg : slice_is d 0 GIF87 || slice_is d 0 GIF89 = false) by reflexivity.
  assert (Hb : slice_is d 0 BM = true) by reflexivity.
  assert (Hw : s32le d 18 = wv) by reflexivity.
  assert (Hh : s32le d 22 = hv) by reflexivity.
  unfold ooxml_dims, util_dims. rewrite Hp, Hg, Hb, Hw, Hh.
  destruct (len d =? 0) eqn:E0; [lia|]. destruct (26 <=? len d) eqn:E1; [|lia]. split; reflexivity.
Qed.

Lemma le32s_value w : -2147483648 <= w < 2147483648 ->
  let u := if w <? 0 then w + 4294967296 else w in
  (if 2147483648 <=? u mod 256 + 256 * ((u / 256) mod 256) + 65536 * ((u / 65536) mod 256) + 16777216 * (u / 16777216)
   then u mod 256 + 256 * ((u / 256) mod 256) + 65536 * ((u / 65536) mod 256) + 16777216 * (u / 16777216) - 4294967296
   else u mod 256 + 256 * ((u / 256) mod 256) + 65536 * ((u / 65536) mod 256) + 16777216 * (u / 16777216)) = w.
Proof.
  intros H u. assert (Hu : 0 <= u < 4294967296) by (subst u; destruct (w <? 0) eqn:E; lia).
  rewrite (le32_value u Hu). subst u. destruct (w <? 0) eqn:E.
  - destruct (2147483648 <=? w + 4294967296) eqn:E2; lia.
  - destruct (2147483648 <=? w) eqn:E2; lia.
Qed.

Lemma bmp_header_ok hdr w h rest :
  List.length hdr = 16%nat -> -2147483648 <= w < 2147483648 -> -2147483648 <= h < 2147483648 ->
  ooxml_dims (bmp_file hdr w h rest) = Dims (nz (Z.abs w)) (nz (Z.abs h))
  /\ util_dims K_bmp (bmp_file hdr w h rest) = Dims (Some w) (Some (Z.abs h)).
Proof.
  intros Hc Hw Hh.
  do 16 (destruct hdr as [|? hdr]; [discriminate|]). destruct hdr; [|discriminate].
  unfold bmp_file, le32s.
  set (uw := if w <? 0 then w + 4294967296 else w). set (uh := if h <? 0 then h + 4294967296 else h).
  pose proof (bmp_bytes z z0 z1 z2 z3 z4 z5 z6 z7 z8 z9 z10 z11 z12 z13 z14
                (uw mod 256) ((uw / 256) mod 256) ((uw / 65536) mod 256) (uw / 16777216)
                (uh mod 256) ((uh / 256) mod 256) ((uh / 65536) mod 256) (uh / 16777216) rest) as P.
  cbv beta zeta in P. subst uw uh.
  rewrite (le32s_value w Hw), (le32s_value h Hh) in P. exact P.
Qed.

(* ---------------------------------------------------------------- JPEG (ooxml walk) *)
Lemma jseg_len m p : len (jseg m p) = 4 + len p.
Proof. unfold jseg, be16. len_explicit. Qed.

Lemma jseg_bytes m p R :
  0 <= len p < 65534 ->
  let x := jseg m p ++ R in
  byte_at x 0 = 255 /\ byte_at x 1 = m /\ u16be x 2 = 2 + len p.
Proof.
  intros Hp x. subst x. unfold jseg, be16. repeat split.
  unfold u16be. change (byte_at ((255 :: m :: [(2 + len p) / 256; (2 + len p) mod 256] ++ p) ++ R) 2) with ((2 + len p) / 256).
  change (byte_at ((255 :: m :: [(2 + len p) / 256; (2 + len p) mod 256] ++ p) ++ R) (2 + 1)) with ((2 + len p) mod 256).
  lia.
Qed.

Definition sof_payload (prec h w : Z) (tail : list Z) : list Z := prec :: be16 h ++ be16 w ++ tail.

Lemma ooxml_walk_segments segs : forall pre m prec h w tail rest fuel,
  forallb seg_ok segs = true -> is_sof m = true ->
  0 <= h < 65536 -> 0 <= w < 65536 -> len tail < 65529 ->
  (List.length segs < fuel)%nat ->
  ooxml_jpeg_dims fuel
    (pre ++ List.concat (map (fun mp => jseg (fst mp) (snd mp)) segs) ++ jseg m (sof_payload prec h w tail) ++ rest)
    (len pre) = Some (Found w h).
Proof.
  induction segs as [|[m0 p0] segs IH]; intros pre m prec h w tail rest fuel Hs Hm Hh Hw Ht Hf.
  - destruct fuel as [|f]; [simpl in Hf; lia|]. cbn [map List.concat app ooxml_jpeg_dims].
    set (P := sof_payload prec h w tail).
    set (d := pre ++ jseg m P ++ rest).
    assert (HlP : len P = 5 + len tail) by (subst P; unfold sof_payload, be16; len_explicit).
    pose proof (len_nonneg tail) as Htn. pose proof (len_nonneg rest) as Hrn. pose proof (len_nonneg pre) as Hpn.
    assert (Hld : len d = len pre + 4 + len P + len rest) by (unfold d; rewrite !len_app, jseg_len; lia).
    destruct (jseg_bytes m P rest ltac:(lia)) as [B0 [B1 B2]].
    assert (A0 : byte_at d (len pre) = 255) by (replace (len pre) with (len pre + 0) by lia; unfold d; rewrite byte_at_app_r by lia; exact B0).
    assert (A1 : byte_at d (len pre + 1) = m) by (unfold d; rewrite byte_at_app_r by lia; exact B1).
    assert (A2 : u16be d (len pre + 2) = 2 + len P).
    { unfold u16be. replace (len pre + 2 + 1) with (len pre + (2 + 1)) by lia. unfold d. rewrite !byte_at_app_r by lia. exact B2. }
    assert (A5 : u16be d (len pre + 5) = h).
    { unfold u16be. replace (len pre + 5 + 1) with (len pre + 6) by lia. unfold d. rewrite !byte_at_app_r by lia.
      unfold P. unfold jseg, sof_payload, be16.
      change (byte_at ((255 :: m :: [(2 + len (prec :: [h / 256; h mod 256] ++ [w / 256; w mod 256] ++ tail)) / 256;
                (2 + len (prec :: [h / 256; h mod 256] ++ [w / 256; w mod 256] ++ tail)) mod 256] ++
                prec :: [h / 256; h mod 256] ++ [w / 256; w mod 256] ++ tail) ++ rest) 5) with (h / 256).
      change (byte_at ((255 :: m :: [(2 + len (prec :: [h / 256; h mod 256] ++ [w / 256; w mod 256] ++ tail)) / 256;
                (2 + len (prec :: [h / 256; h mod 256] ++ [w / 256; w mod 256] ++ tail)) mod 256] ++
                prec :: [h / 256; h mod 256] ++ [w / 256; w mod 256] ++ tail) ++ rest) 6) with (h mod 256).
      lia. }
    assert (A7 : u16be d (len pre + 7) = w).
    { unfold u16be. replace (len pre + 7 + 1) with (len pre + 8) by lia. unfold d. rewrite !byte_at_app_r by lia.
      unfold P. unfold jseg, sof_payload, be16.
      change (byte_at ((255 :: m :: [(2 + len (prec :: [h / 256; h mod 256] ++ [w / 256; w mod 256] ++ tail)) / 256;
                (2 + len (prec :: [h / 256; h mod 256] ++ [w / 256; w mod 256] ++ tail)) mod 256] ++
                prec :: [h / 256; h mod 256] ++ [w / 256; w mod 256] ++ tail) ++ rest) 7) with (w / 256).
      change (byte_at ((255 :: m :: [(2 + len (prec :: [h / 256; h mod 256] ++ [w / 256; w mod 256] ++ tail)) / 256;
                (2 + len (prec :: [h / 256; h mod 256] ++ [w / 256; w mod 256] ++ tail)) mod 256] ++
                prec :: [h / 256; h mod 256] ++ [w / 256; w mod 256] ++ tail) ++ rest) 8) with (w mod 256).
      lia. }
    rewrite A0, A1, A2, Hm.
    assert (Hnot : (m =? 217) || (m =? 218) = false).
    { destruct (m =? 217) eqn:E1; [apply Z.eqb_eq in E1; rewrite E1 in Hm; vm_compute in Hm; discriminate|].
      destruct (m =? 218) eqn:E2; [apply Z.eqb_eq in E2; rewrite E2 in Hm; vm_compute in Hm; discriminate|]. reflexivity. }
    rewrite Hnot.
    destruct (len pre + 4 <=? len d) eqn:E4; [|lia].
    cbn [negb]. change (255 =? 255) with true. cbn [negb].
    destruct (2 + len P <? 2) eqn:E5; [lia|].
    destruct (len pre + 2 + (2 + len P) <=? len d) eqn:E6; [|lia]. cbn [andb].
    unfold be16_slice.
    destruct (len pre + 7 + 2 <=? len d) eqn:E7; [|lia].
    destruct (len pre + 5 + 2 <=? len d) eqn:E8; [|lia].
    rewrite A5, A7. reflexivity.
  - destruct fuel as [|f]; [simpl in Hf; lia|].
    cbn [map List.concat fst snd]. cbn [forallb] in Hs. apply andb_true_iff in Hs as [Hs0 Hs].
    unfold seg_ok in Hs0. cbn [fst snd] in Hs0. apply andb_true_iff in Hs0 as [Hk Hlp]. apply Z.ltb_lt in Hlp.
    set (R := List.concat (map (fun mp => jseg (fst mp) (snd mp)) segs) ++ jseg m (sof_payload prec h w tail) ++ rest).
    assert (Hd : pre ++ (jseg m0 p0 ++ List.concat (map (fun mp => jseg (fst mp) (snd mp)) segs)) ++ jseg m (sof_payload prec h w tail) ++ rest
                 = (pre ++ jseg m0 p0) ++ R) by (subst R; rewrite <- !app_assoc; reflexivity).
    rewrite Hd.
    assert (IH' := IH (pre ++ jseg m0 p0) m prec h w tail rest f Hs Hm Hh Hw Ht ltac:(simpl in Hf; lia)).
    fold R in IH'.
    set (d := (pre ++ jseg m0 p0) ++ R) in *.
    pose proof (len_nonneg p0) as Hp0. pose proof (len_nonneg R) as HRn. pose proof (len_nonneg pre) as Hpn.
    assert (Hld : len d = len pre + 4 + len p0 + len R) by (unfold d; rewrite !len_app, jseg_len; lia).
    assert (Hd2 : d = pre ++ (jseg m0 p0 ++ R)) by (unfold d; rewrite <- app_assoc; reflexivity).
    destruct (jseg_bytes m0 p0 R ltac:(lia)) as [B0 [B1 B2]].
    assert (A0 : byte_at d (len pre) = 255) by (replace (len pre) with (len pre + 0) by lia; rewrite Hd2, byte_at_app_r by lia; exact B0).
    assert (A1 : byte_at d (len pre + 1) = m0) by (rewrite Hd2, byte_at_app_r by lia; exact B1).
    assert (A2 : u16be d (len pre + 2) = 2 + len p0).
    { unfold u16be. replace (len pre + 2 + 1) with (len pre + (2 + 1)) by lia. rewrite Hd2, !byte_at_app_r by lia. exact B2. }
    cbn [ooxml_jpeg_dims]. rewrite A0, A1, A2.
    unfold skip_marker in Hk. apply andb_true_iff in Hk as [Hk Hk4]. apply andb_true_iff in Hk as [Hk Hk3].
    apply andb_true_iff in Hk as [Hk1 Hk2].
    apply negb_true_iff in Hk2, Hk3, Hk4. rewrite Hk2, Hk3, Hk4.
    destruct (len pre + 4 <=? len d) eqn:E4; [|lia].
    change (255 =? 255) with true. cbn [negb orb andb].
    destruct (2 + len p0 <? 2) eqn:E5; [lia|].
    replace (len pre + 2 + (2 + len p0)) with (len (pre ++ jseg m0 p0)) by (rewrite len_app, jseg_len; lia).
    exact IH'.
Qed.

Lemma util_walk_segments segs : forall pre m prec h w tail rest fuel,
  forallb seg_ok segs = true -> is_sof m = true ->
  0 <= h < 65536 -> 0 <= w < 65536 -> len tail < 65529 -> 1 <= len tail + len rest ->
  (List.length segs < fuel)%nat ->
  jpeg_dims fuel
    (pre ++ List.concat (map (fun mp => jseg (fst mp) (snd mp)) segs) ++ jseg m (sof_payload prec h w tail) ++ rest)
    (len pre) = Some (Found w h).
Proof.
  induction segs as [|[m0 p0] segs IH]; intros pre m prec h w tail rest fuel Hs Hm Hh Hw Ht Hone Hf.
  - destruct fuel as [|f]; [simpl in Hf; lia|]. cbn [map List.concat app jpeg_dims].
    set (P := sof_payload prec h w tail).
    set (d := pre ++ jseg m P ++ rest).
    assert (HlP : len P = 5 + len tail) by (subst P; unfold sof_payload, be16; len_explicit).
    pose proof (len_nonneg tail) as Htn. pose proof (len_nonneg rest) as Hrn. pose proof (len_nonneg pre) as Hpn.
    assert (Hld : len d = len pre + 4 + len P + len rest) by (unfold d; rewrite !len_app, jseg_len; lia).
    destruct (jseg_bytes m P rest ltac:(lia)) as [B0 [B1 B2]].
    assert (A0 : byte_at d (len pre) = 255) by (replace (len pre) with (len pre + 0) by lia; unfold d; rewrite byte_at_app_r by lia; exact B0).
    assert (A1 : byte_at d (len pre + 1) = m) by (unfold d; rewrite byte_at_app_r by lia; exact B1).
    assert (A2 : u16be d (len pre + 2) = 2 + len P).
    { unfold u16be. replace (len pre + 2 + 1) with (len pre + (2 + 1)) by lia. unfold d. rewrite !byte_at_app_r by lia. exact B2. }
    assert (A5 : u16be d (len pre + 5) = h).
    { unfold u16be. replace (len pre + 5 + 1) with (len pre + 6) by lia. unfold d. rewrite !byte_at_app_r by lia.
      unfold P. unfold jseg, sof_payload, be16.
      change (byte_at ((255 :: m :: [(2 + len (prec :: [h / 256; h mod 256] ++ [w / 256; w mod 256] ++ tail)) / 256;
                (2 + len (prec :: [h / 256; h mod 256] ++ [w / 256; w mod 256] ++ tail)) mod 256] ++
                prec :: [h / 256; h mod 256] ++ [w / 256; w mod 256] ++ tail) ++ rest) 5) with (h / 256).
      change (byte_at ((255 :: m :: [(2 + len (prec :: [h / 256; h mod 256] ++ [w / 256; w mod 256] ++ tail)) / 256;
                (2 + len (prec :: [h / 256; h mod 256] ++ [w / 256; w mod 256] ++ tail)) mod 256] ++
                prec :: [h / 256; h mod 256] ++ [w / 256; w mod 256] ++ tail) ++ rest) 6) with (h mod 256).
      lia. }
    assert (A7 : u16be d (len pre + 7) = w).
    { unfold u16be. replace (len pre + 7 + 1) with (len pre + 8) by lia. unfold d. rewrite !byte_at_app_r by lia.
      unfold P. unfold jseg, sof_payload, be16.
      change (byte_at ((255 :: m :: [(2 + len (prec :: [h / 256; h mod 256] ++ [w / 256; w mod 256] ++ tail)) / 256;
                (2 + len (prec :: [h / 256; h mod 256] ++ [w / 256; w mod 256] ++ tail)) mod 256] ++
                prec :: [h / 256; h mod 256] ++ [w / 256; w mod 256] ++ tail) ++ rest) 7) with (w / 256).
      change (byte_at ((255 :: m :: [(2 + len (prec :: [h / 256; h mod 256] ++ [w / 256; w mod 256] ++ tail)) / 256;
                (2 + len (prec :: [h / 256; h mod 256] ++ [w / 256; w mod 256] ++ tail)) mod 256] ++
                prec :: [h / 256; h mod 256] ++ [w / 256; w mod 256] ++ tail) ++ rest) 8) with (w mod 256).
      lia. }
    rewrite A0, A1, Hm.
    assert (Hnff : (m =? 255) = false).
    { destruct (m =? 255) eqn:E1; [apply Z.eqb_eq in E1; rewrite E1 in Hm; vm_compute in Hm; discriminate | reflexivity]. }
    rewrite Hnff.
    destruct (len pre <? len d - 9) eqn:E4; [|lia].
    change (255 =? 255) with true. cbn [negb].
    destruct (len pre + 9 <=? len d) eqn:E6; [|lia]. cbn [andb].
    rewrite A5, A7. reflexivity.
  - destruct fuel as [|f]; [simpl in Hf; lia|].
    cbn [map List.concat fst snd]. cbn [forallb] in Hs. apply andb_true_iff in Hs as [Hs0 Hs].
    unfold seg_ok in Hs0. cbn [fst snd] in Hs0. apply andb_true_iff in Hs0 as [Hk Hlp]. apply Z.ltb_lt in Hlp.
    set (R := List.concat (map (fun mp => jseg (fst mp) (snd mp)) segs) ++ jseg m (sof_payload prec h w tail) ++ rest).
    assert (Hd : pre ++ (jseg m0 p0 ++ List.concat (map (fun mp => jseg (fst mp) (snd mp)) segs)) ++ jseg m (sof_payload prec h w tail) ++ rest
                 = (pre ++ jseg m0 p0) ++ R) by (subst R; rewrite <- !app_assoc; reflexivity).
    rewrite Hd.
    assert (IH' := IH (pre ++ jseg m0 p0) m prec h w tail rest f Hs Hm Hh Hw Ht Hone ltac:(simpl in Hf; lia)).
    fold R in IH'.
    set (d := (pre ++ jseg m0 p0) ++ R) in *.
    pose proof (len_nonneg p0) as Hp0. pose proof (len_nonneg R) as HRn. pose proof (len_nonneg pre) as Hpn.
    assert (Hld : len d = len pre + 4 + len p0 + len R) by (unfold d; rewrite !len_app, jseg_len; lia).
    assert (Hd2 : d = pre ++ (jseg m0 p0 ++ R)) by (unfold d; rewrite <- app_assoc; reflexivity).
    destruct (jseg_bytes m0 p0 R ltac:(lia)) as [B0 [B1 B2]].
    assert (A0 : byte_at d (len pre) = 255) by (replace (len pre) with (len pre + 0) by lia; rewrite Hd2, byte_at_app_r by lia; exact B0).
    assert (A1 : byte_at d (len pre + 1) = m0) by (rewrite Hd2, byte_at_app_r by lia; exact B1).
    assert (A2 : u16be d (len pre + 2) = 2 + len p0).
    { unfold u16be. replace (len pre + 2 + 1) with (len pre + (2 + 1)) by lia. rewrite Hd2, !byte_at_app_r by lia. exact B2. }
    assert (HlR : 9 + len tail + len rest <= len R).
    { unfold R. rewrite !len_app, jseg_len. pose proof (len_nonneg (List.concat (map (fun mp : Z * list Z => jseg (fst mp) (snd mp)) segs))).
      assert (len (sof_payload prec h w tail) = 5 + len tail) by (unfold sof_payload, be16; len_explicit). lia. }
    cbn [jpeg_dims]. rewrite A0, A1, A2.
    unfold skip_marker in Hk. apply andb_true_iff in Hk as [Hk Hk4]. apply andb_true_iff in Hk as [Hk Hk3].
    apply andb_true_iff in Hk as [Hk1 Hk2].
    apply negb_true_iff in Hk1, Hk4. rewrite Hk1, Hk4.
    destruct (len pre <? len d - 9) eqn:E4; [|lia].
    change (255 =? 255) with true. cbn [negb andb].
    destruct (len pre + 4 <=? len d) eqn:E5; [|lia].
    replace (len pre + 2 + (2 + len p0)) with (len (pre ++ jseg m0 p0)) by (rewrite len_app, jseg_len; lia).
    exact IH'.
Qed.

Lemma concat_segs_len segs : 4 * Z.of_nat (List.length segs) <= len (List.concat (map (fun mp : Z * list Z => jseg (fst mp) (snd mp)) segs)).
Proof.
  induction segs as [|[m p] segs IH]; [unfold len; simpl; lia|].
  cbn [map List.concat List.length fst snd]. rewrite len_app, jseg_len. pose proof (len_nonneg p). lia.
Qed.

Lemma jpeg_header_ok segs m prec h w tail rest :
  forallb seg_ok segs = true -> is_sof m = true ->
  0 <= h < 65536 -> 0 <= w < 65536 -> len tail < 65529 ->
  ooxml_dims (jpeg_file segs m prec h w tail rest) = Dims (nz w) (nz h).
Proof.
  intros Hs Hm Hh Hw Ht. unfold jpeg_file. fold (sof_payload prec h w tail).
  set (d := SOI ++ List.concat (map (fun mp => jseg (fst mp) (snd mp)) segs) ++ jseg m (sof_payload prec h w tail) ++ rest).
  assert (Hl : 2 + 4 * Z.of_nat (List.length segs) + 4 <= len d).
  { subst d. rewrite !len_app, jseg_len. pose proof (concat_segs_len segs). pose proof (len_nonneg rest).
    pose proof (len_nonneg (sof_payload prec h w tail)). change (len SOI) with 2. lia. }
  assert (Hp : slice_is d 0 PNG_SIG = false) by reflexivity.
  assert (Hg : slice_is d 0 GIF87 || slice_is d 0 GIF89 = false) by reflexivity.
  assert (Hb : slice_is d 0 BM = false) by reflexivity.
  assert (Hj : slice_is d 0 SOI = true) by reflexivity.
  unfold ooxml_dims. rewrite Hp, Hg, Hb, Hj. cbn [andb].
  destruct (len d =? 0) eqn:E0; [lia|].
  assert (W := ooxml_walk_segments segs SOI m prec h w tail rest (fuel_for d 2) Hs Hm Hh Hw Ht).
  change (len SOI) with 2 in W. fold d in W. rewrite W; [reflexivity|].
  unfold fuel_for. lia.
Qed.

(* util/image_utils.get_jpeg_dimensions: the walk needs at least one byte after the 9 bytes it reads of the SOF
   segment (`offset < len(data) - 9`) — true of every real JPEG (component table, SOS, EOI follow) *)
Lemma jpeg_header_ok_util segs m prec h w tail rest :
  forallb seg_ok segs = true -> is_sof m = true ->
  0 <= h < 65536 -> 0 <= w < 65536 -> len tail < 65529 -> 1 <= len tail + len rest ->
  util_dims K_jpeg (jpeg_file segs m prec h w tail rest) = Dims (Some w) (Some h).
Proof.
  intros Hs Hm Hh Hw Ht Hone. unfold jpeg_file. fold (sof_payload prec h w tail).
  set (d := SOI ++ List.concat (map (fun mp => jseg (fst mp) (snd mp)) segs) ++ jseg m (sof_payload prec h w tail) ++ rest).
  assert (Hl : 2 + 4 * Z.of_nat (List.length segs) + 4 <= len d).
  { unfold d. rewrite !len_app, jseg_len. pose proof (concat_segs_len segs). pose proof (len_nonneg rest).
    pose proof (len_nonneg (sof_payload prec h w tail)). change (len SOI) with 2. lia. }
  unfold util_dims. destruct (4 <=? len d) eqn:E0; [|lia].
  assert (W := util_walk_segments segs SOI m prec h w tail rest (fuel_for d 2) Hs Hm Hh Hw Ht Hone).
  change (len SOI) with 2 in W. fold d in W. rewrite W; [reflexivity|].
  unfold fuel_for. lia.
Qed.
