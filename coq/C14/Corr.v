(* C14 — correspondence checkers: the per-format image pipelines as compositions of the Model
   functions (resolution + numbering), and boolean comparisons with recorded implementation answers. *)
From Coq Require Import ZArith List Bool Lia.
From S2T Require Import Lib.PyStr C01.Loops C14.Model.
Import ListNotations.

(* ---- resolution: (base, target, implementation's answer) *)
Definition corr_resolve (c : str * str * str) : bool :=
  let '(base, t, got) := c in str_eqb (resolve_part base t) got.

(* ---- sniffers *)
Open Scope Z_scope.
Definition oz_eqb (a b : option Z) : bool :=
  match a, b with Some x, Some y => x =? y | None, None => true | _, _ => false end.
(* implementation answers are (w, h) options; OutOfFuel never matches *)
Definition sniff_eqb (r : sniff) (e : option Z * option Z) : bool :=
  match r with Dims w h => oz_eqb w (fst e) && oz_eqb h (snd e) | OutOfFuel => false end.
(* case: bytes, answer of _get_image_pixel_dimensions (docx copy; the harness checks the three copies agree),
   answers of get_image_dimensions for png / jpeg / bmp / gif *)
Definition corr_sniff (c : list Z * (option Z * option Z) * list (option Z * option Z)) : bool :=
  let '(d, o, u) := c in
  sniff_eqb (ooxml_dims d) o &&
  match u with
  | [p; j; b; g] => sniff_eqb (util_dims K_png d) p && sniff_eqb (util_dims K_jpeg d) j
                    && sniff_eqb (util_dims K_bmp d) b && sniff_eqb (util_dims K_gif d) g
  | _ => false
  end.

(* ---- pipelines: placements, fetch functions and the ODT/ODG passes are defined in Model.v *)
(* fmt: 0 docx 1 pptx 2 xlsx 3 odt 4 odp 5 ods 6 odg 7 epub *)
Definition pipeline (fmt : Z) (base : str) (names : list str) (units : list (list placement)) : list (list (Z * str)) :=
  match fmt with
  | 0 => [number_found (fetch_opc (s "word") names) 0 (List.concat units)]
  | 1 => number_units_restart (fetch_opc (s "ppt/slides") names) units
  | 2 => number_units_running (fetch_opc (s "xl/drawings") names) 0 (map xlsx_order units)
  | 3 => [odt_images names (List.concat units)]
  | 4 => number_units_running (fetch_odf names) 0 units
  | 5 => number_units_running (fetch_odf names) 0 units
  | 6 => [let '(o, _, _) := odf_dedupe names [] true 0 (List.concat units) in o]
  | 7 => [number_found (fetch_opc base names) 0 (List.concat units)]
  (* 8 pdf: every image XObject a page draws, in content-stream order, numbered per page (pypdf is the oracle that
     lists them; placements are XObject names, all present) *)
  | 8 => number_units_restart (fun pl => member_of names (fst pl)) units
  (* variants with fixes/proposed-not-applied patches (selected by the harness's probes of the tree under test):
     11 pptx / 18 pdf with a counter running through the slides / pages, 12 xlsx with anchors in document order *)
  | 11 => number_units_running (fetch_opc (s "ppt/slides") names) 0 units
  | 18 => number_units_running (fun pl => member_of names (fst pl)) 0 units
  | 12 => number_units_running (fetch_opc (s "xl/drawings") names) 0 units
  | _ => []
  end.

Fixpoint items_eqb (a b : list (Z * str)) : bool :=
  match a, b with
  | [], [] => true
  | (n, m) :: a', (n', m') :: b' => (n =? n') && str_eqb m m' && items_eqb a' b'
  | _, _ => false
  end.
Fixpoint units_eqb (a b : list (list (Z * str))) : bool :=
  match a, b with
  | [], [] => true
  | x :: a', y :: b' => items_eqb x y && units_eqb a' b'
  | _, _ => false
  end.

Definition corr_pipeline (c : Z * str * list str * list (list placement) * list (list (Z * str))) : bool :=
  let '(fmt, base, names, units, got) := c in units_eqb (pipeline fmt base names units) got.

(* PDF content type: (filter chain as written, implementation's content type) against the table of the live module *)
Definition corr_pdf_ctype (tbl : list (str * str)) (c : list str * str) : bool :=
  str_eqb (pdf_content_type tbl (fst c)) (snd c).

(* content type by extension: (format 0 docx / 1 pptx / 2 xlsx, name, (raw ext, lowered ext) recorded from str.lower,
   implementation's content type) *)
Definition lower_of (pr : str * str) (x : str) : str := if str_eqb x (fst pr) then snd pr else x.
Definition corr_ctype (tbls : list (list (str * str))) (c : Z * str * (str * str) * option str * str) : bool :=
  let '(fmt, name, pr, sn, got) := c in
  match fmt, tbls with
  | 0%Z, [d; _; _] => str_eqb (ooxml_content_type_b (lower_of pr) d sn name) got
  | 1%Z, [_; p; _] => str_eqb (ooxml_content_type_b (lower_of pr) p sn name) got
  | 2%Z, [_; _; x] => str_eqb (xlsx_content_type_b (lower_of pr) x sn name) got
  | _, _ => false
  end.

(* XLS image stage: (slices of the BLIP walk as (rec_type, bytes), implementation's images as
   (image_index, type id, bytes, (width, height))) — the sha1 oracle is instantiated by byte equality *)
Open Scope Z_scope.
Definition type_id (t : itype) : Z :=
  match t with T_png => 0 | T_jpeg => 1 | T_gif => 2 | T_bmp => 3 | T_tiff => 4 | T_emf => 5 | T_wmf => 6 end.
Fixpoint xls_eqb (a : list (Z * itype * list Z)) (b : list (Z * Z * list Z * (option Z * option Z))) : bool :=
  match a, b with
  | [], [] => true
  | (n, t, d) :: a', (n', t', d', wh) :: b' =>
      (n =? n') && (type_id t =? t') && zlist_eqb d d' && sniff_eqb (util_dims (kind_of t) d) wh && xls_eqb a' b'
  | _, _ => false
  end.
Definition corr_xls (c : list (Z * list Z) * list (Z * Z * list Z * (option Z * option Z))) : bool :=
  xls_eqb (xls_stage (fun d => d) zlist_eqb [] 0 (fst c)) (snd c).
Definition corr_detect (c : list Z * Z) : bool :=
  match detect_type (fst c) with Some t => type_id t =? snd c | None => snd c =? (-1) end.
