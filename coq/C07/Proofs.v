From S2T Require Import Lib.PyStr C07.Model.

(* ---------- splitext facts *)
Lemma splitext_suffix p : exists r, p = r ++ splitext_ext p.
Proof.
  unfold splitext_ext.
  set (rb := takeWhile not_slash (rev p)).
  destruct (dropWhile not_dot rb) as [|d pre] eqn:E; [exists p; rewrite app_nil_r; reflexivity|].
  destruct (existsb not_dot pre); [|exists p; rewrite app_nil_r; reflexivity].
  assert (Hd : d = DOT).
  { apply dropWhile_head in E. unfold not_dot in E. apply negb_false_iff, N.eqb_eq in E. exact E. }
  subst d.
  pose proof (takeWhile_dropWhile not_dot rb) as H1. rewrite E in H1.
  pose proof (takeWhile_dropWhile not_slash (rev p)) as H2. fold rb in H2.
  set (D := dropWhile not_slash (rev p)) in *. set (tw := takeWhile not_dot rb) in *.
  exists (rev D ++ rev pre).
  apply (f_equal (@rev N)) in H2. rewrite rev_involutive in H2.
  rewrite <- H2 at 1. rewrite <- H1.
  rewrite !rev_app_distr. simpl. rewrite <- !app_assoc. reflexivity.
Qed.

Lemma splitext_shape p : splitext_ext p = [] \/ exists x, splitext_ext p = DOT :: x.
Proof.
  unfold splitext_ext. destruct (dropWhile _ _); [left; reflexivity|].
  destruct (existsb _ _); [right; eexists; reflexivity | left; reflexivity].
Qed.

Lemma endswith_splitext p : endswith p (splitext_ext p) = true.
Proof. apply endswith_app. apply splitext_suffix. Qed.

(* ---------- compound *)
Lemma compound_match_existsb l pl :
  existsb (endswith pl) (map fst l) = true <-> exists ft, compound_match l pl = Some ft.
Proof.
  induction l as [|[c ft] l IH]; simpl.
  - split; [discriminate | intros [ft H]; discriminate].
  - destruct (endswith pl c); simpl; [split; [eexists; reflexivity | reflexivity] | exact IH].
Qed.

Lemma compound_match_In l pl ft : compound_match l pl = Some ft -> exists c, In (c, ft) l /\ endswith pl c = true.
Proof.
  induction l as [|[c f] l IH]; simpl; [discriminate|].
  destruct (endswith pl c) eqn:E.
  - intro H; inversion H; subst. exists c; auto.
  - intro H. destruct (IH H) as [c' [H1 H2]]. exists c'; auto.
Qed.

Lemma compound_match_None l pl c : compound_match l pl = None -> In c (map fst l) -> endswith pl c = false.
Proof.
  induction l as [|[c' f] l IH]; simpl; [tauto|].
  destruct (endswith pl c') eqn:E; [discriminate|].
  intros H [H1|H1]; [subst; exact E | auto].
Qed.

(* ---------- wf unpacked *)
Record WF (T : tables) : Prop := {
  wf_reg_nonempty : forall k e, In (k, e) (registry T) -> nonempty k = true;
  wf_alias : forall a b, In (a, b) (aliases T) -> nonempty a = true /\ has_key b (registry T) = true;
  wf_compound : forall c ft, In (c, ft) (compound T) -> has_key ft (registry T) = true;
  wf_mime : forall m ft, In (m, ft) (mime_map T) -> nonempty m = true /\ has_key ft (registry T) = true;
  wf_supported : forall x, mem_str x (supported T) = true <-> In x (expected_supported T)
}.

Lemma subset_str_spec a b : subset_str a b = true <-> forall x, In x a -> In x b.
Proof.
  unfold subset_str. rewrite forallb_forall. split; intros H x Hx.
  - apply mem_str_In; auto.
  - apply mem_str_In; auto.
Qed.

Lemma wf_WF T : wf T = true -> WF T.
Proof.
  unfold wf. rewrite !andb_true_iff, !forallb_forall.
  intros [[[[[H1 H2] H3] H4] H5] H6].
  constructor.
  - intros k e H. exact (H1 _ H).
  - intros a b H. specialize (H2 _ H). simpl in H2. apply andb_true_iff in H2. exact H2.
  - intros c ft H. exact (H3 _ H).
  - intros m ft H. specialize (H4 _ H). simpl in H4. apply andb_true_iff in H4. exact H4.
  - intro x. rewrite mem_str_In. rewrite subset_str_spec in H5, H6. split; auto.
Qed.

Lemma has_key_nonempty T k : WF T -> has_key k (registry T) = true -> nonempty k = true.
Proof.
  intros W H. apply has_key_In in H. apply in_map_iff in H as [[k' e] [Hk Hin]]. simpl in Hk; subst.
  eapply wf_reg_nonempty; eauto.
Qed.

Lemma get_by_type_ok T ft : has_key ft (registry T) = true -> exists e, get_by_type T ft = Extractor e.
Proof. unfold has_key, get_by_type. destruct (assoc ft (registry T)); [eexists; reflexivity | discriminate]. Qed.

Lemma get_by_type_iff T ft : has_key ft (registry T) = true <-> exists e, get_by_type T ft = Extractor e.
Proof.
  split; [apply get_by_type_ok|]. unfold has_key, get_by_type.
  destruct (assoc ft (registry T)); [reflexivity | intros [e H]; discriminate].
Qed.

(* ---------- extension branch *)
Lemma ftfe_Some_registered T pl ft :
  WF T -> file_type_from_extension T pl = Some ft -> has_key ft (registry T) = true.
Proof.
  intros W. unfold file_type_from_extension.
  destruct (compound_match (compound T) pl) eqn:Ec.
  - intro H; inversion H; subst. apply compound_match_In in Ec as [c [Hc _]]. eapply wf_compound; eauto.
  - destruct (splitext_ext pl) as [|d ext]; [discriminate|].
    destruct (nonempty ext); [|discriminate].
    destruct (has_key (resolve_alias T ext) (registry T)) eqn:E; [|discriminate].
    intro H; inversion H; subst; exact E.
Qed.

Lemma ext_supported_iff T pl :
  WF T -> compound_match (compound T) pl = None ->
  (mem_str (splitext_ext pl) (supported T) = true <-> exists ft, file_type_from_extension T pl = Some ft).
Proof.
  intros W Ec. unfold file_type_from_extension. rewrite Ec.
  rewrite (wf_supported T W). unfold expected_supported. rewrite !in_app_iff.
  destruct (splitext_shape pl) as [E|[x E]]; rewrite E.
  - split; [|intros [ft H]; discriminate].
    intros [H|[H|H]].
    + apply in_map_iff in H as [k [Hk _]]; discriminate.
    + apply in_map_iff in H as [k [Hk _]]; discriminate.
    + (* "" is a compound key: every path ends with it, contradiction *)
      pose proof (compound_match_None _ pl [] Ec H) as Hn.
      unfold endswith in Hn. simpl in Hn. discriminate.
  - unfold resolve_alias. split.
    + intros [H|[H|H]].
      * apply in_map_iff in H as [k [Hk Hin]]. unfold dotted in Hk. inversion Hk; subst k.
        assert (Hx : has_key x (registry T) = true) by (apply has_key_In; exact Hin).
        rewrite (has_key_nonempty T x W Hx).
        destruct (assoc x (aliases T)) as [b|] eqn:Ea.
        -- apply assoc_In in Ea. destruct (wf_alias T W _ _ Ea) as [_ Hb]. rewrite Hb. eexists; reflexivity.
        -- rewrite Hx. eexists; reflexivity.
      * apply in_map_iff in H as [k [Hk Hin]]. unfold dotted in Hk. inversion Hk; subst k.
        apply has_key_In in Hin. unfold has_key in Hin.
        destruct (assoc x (aliases T)) as [b|] eqn:Ea; [|discriminate].
        apply assoc_In in Ea. destruct (wf_alias T W _ _ Ea) as [Hne Hb]. rewrite Hne, Hb. eexists; reflexivity.
      * pose proof (compound_match_None _ pl _ Ec H) as Hn.
        rewrite <- E in Hn. rewrite endswith_splitext in Hn. discriminate.
    + destruct (nonempty x) eqn:Hne; [|intros [ft H]; discriminate].
      destruct (assoc x (aliases T)) as [b|] eqn:Ea.
      * intros _. right; left. apply in_map_iff. exists x. split; [reflexivity|].
        apply has_key_In. unfold has_key. rewrite Ea. reflexivity.
      * destruct (has_key x (registry T)) eqn:Hx; [|intros [ft H]; discriminate].
        intros _. left. apply in_map_iff. exists x. split; [reflexivity | apply has_key_In; exact Hx].
Qed.

(* ---------- main equivalence on (path_lower, mime_type) *)
Lemma supported_iff_extractor_lower T pl m :
  WF T -> (is_supported_lower T pl m = true <-> exists e, get_extractor_lower T pl m = Extractor e).
Proof.
  intros W. unfold is_supported_lower, get_extractor_lower.
  destruct (existsb (endswith pl) (map fst (compound T))) eqn:Ex.
  - (* compound extension *)
    apply compound_match_existsb in Ex as [ft Hc].
    assert (Hf : file_type_from_extension T pl = Some ft) by (unfold file_type_from_extension; rewrite Hc; reflexivity).
    rewrite Hf. pose proof (ftfe_Some_registered T pl ft W Hf) as Hk.
    rewrite (has_key_nonempty T ft W Hk). split; [intros _; apply get_by_type_ok; exact Hk | reflexivity].
  - assert (Ec : compound_match (compound T) pl = None).
    { destruct (compound_match (compound T) pl) eqn:E; [|reflexivity].
      assert (existsb (endswith pl) (map fst (compound T)) = true) by (apply compound_match_existsb; eexists; exact E).
      congruence. }
    pose proof (ext_supported_iff T pl W Ec) as Hext.
    destruct (mem_str (splitext_ext pl) (supported T)) eqn:Em.
    + destruct (proj1 Hext eq_refl) as [ft Hf]. rewrite Hf.
      pose proof (ftfe_Some_registered T pl ft W Hf) as Hk.
      rewrite (has_key_nonempty T ft W Hk). split; [intros _; apply get_by_type_ok; exact Hk | reflexivity].
    + destruct (file_type_from_extension T pl) as [ft|] eqn:Hf.
      { assert (false = true) by (apply Hext; eexists; reflexivity). discriminate. }
      destruct m as [m|]; [|split; [discriminate | intros [e H]; discriminate]].
      unfold has_key. destruct (assoc m (mime_map T)) as [ft|] eqn:Ea.
      * apply assoc_In in Ea. destruct (wf_mime T W _ _ Ea) as [Hne Hk]. rewrite Hne. simpl.
        split; [intros _; apply get_by_type_ok; exact Hk | reflexivity].
      * rewrite andb_false_r. split; [discriminate | intros [e H]; discriminate].
Qed.

Lemma not_supported_lower T pl m :
  WF T -> is_supported_lower T pl m = false -> get_extractor_lower T pl m = NotSupported.
Proof.
  intros W H. destruct (get_extractor_lower T pl m) eqn:E; [|reflexivity].
  assert (is_supported_lower T pl m = true) by (apply supported_iff_extractor_lower; [exact W | eexists; exact E]).
  congruence.
Qed.

(* ---------- extension decides: the MIME guess is irrelevant once the extension is known *)
Lemma extension_decides_lower T pl ft :
  WF T -> file_type_from_extension T pl = Some ft ->
  forall m, get_extractor_lower T pl m = get_by_type T ft /\ is_supported_lower T pl m = true
            /\ exists e, get_by_type T ft = Extractor e.
Proof.
  intros W Hf m.
  pose proof (ftfe_Some_registered T pl ft W Hf) as Hk.
  assert (G : get_extractor_lower T pl m = get_by_type T ft).
  { unfold get_extractor_lower. rewrite Hf, (has_key_nonempty T ft W Hk). reflexivity. }
  split; [exact G|]. split; [|apply get_by_type_ok; exact Hk].
  apply supported_iff_extractor_lower; [exact W|]. rewrite G. apply get_by_type_ok; exact Hk.
Qed.

(* ---------- splitext of  stem ++ "." ++ e  *)
Definition stem_ok (stem : str) : bool := existsb not_dot (takeWhile not_slash (rev stem)).

Lemma takeWhile_app_all {A} (f : A -> bool) a b : forallb f a = true -> takeWhile f (a ++ b) = a ++ takeWhile f b.
Proof. induction a as [|x a IH]; simpl; [reflexivity|]. intro H. apply andb_true_iff in H as [H1 H2]. rewrite H1, IH; auto. Qed.

Lemma dropWhile_app_all {A} (f : A -> bool) a b : forallb f a = true -> dropWhile f (a ++ b) = dropWhile f b.
Proof. induction a as [|x a IH]; simpl; [reflexivity|]. intro H. apply andb_true_iff in H as [H1 H2]. rewrite H1, IH; auto. Qed.

Definition plain_ext (e : str) : bool := forallb (fun c => not_dot c && not_slash c) e.

Lemma splitext_stem_ext stem e :
  plain_ext e = true ->
  splitext_ext (stem ++ DOT :: e) = if stem_ok stem then DOT :: e else [].
Proof.
  intro He. unfold splitext_ext, stem_ok.
  assert (Hs : forallb not_slash (rev e) = true).
  { apply forallb_forall. intros c Hc. apply in_rev in Hc. unfold plain_ext in He. rewrite forallb_forall in He.
    specialize (He c Hc). apply andb_true_iff in He. tauto. }
  assert (Hd : forallb not_dot (rev e) = true).
  { apply forallb_forall. intros c Hc. apply in_rev in Hc. unfold plain_ext in He. rewrite forallb_forall in He.
    specialize (He c Hc). apply andb_true_iff in He. tauto. }
  replace (rev (stem ++ DOT :: e)) with (rev e ++ DOT :: rev stem)
    by (rewrite rev_app_distr; simpl; rewrite <- app_assoc; reflexivity).
  rewrite (takeWhile_app_all not_slash _ _ Hs). cbn [takeWhile]. 
  replace (not_slash DOT) with true by reflexivity.
  set (rs := takeWhile not_slash (rev stem)).
  rewrite (dropWhile_app_all not_dot _ _ Hd). cbn [dropWhile]. replace (not_dot DOT) with false by reflexivity.
  rewrite (takeWhile_app_all not_dot _ _ Hd). cbn [takeWhile]. replace (not_dot DOT) with false by reflexivity.
  rewrite app_nil_r, rev_involutive. reflexivity.
Qed.

(* ---------- an alias behaves exactly like its base format *)
Lemma alias_as_base T a b stem :
  WF T -> aliases_final T = true -> In (a, b) (aliases T) -> assoc a (aliases T) = Some b ->
  plain_ext a = true -> plain_ext b = true ->
  compound_match (compound T) (stem ++ DOT :: a) = None ->
  compound_match (compound T) (stem ++ DOT :: b) = None ->
  file_type_from_extension T (stem ++ DOT :: a) = file_type_from_extension T (stem ++ DOT :: b).
Proof.
  intros W Hfin Hin Ha Pa Pb Ca Cb. unfold file_type_from_extension. rewrite Ca, Cb.
  rewrite (splitext_stem_ext stem a Pa), (splitext_stem_ext stem b Pb).
  destruct (stem_ok stem); [|reflexivity].
  destruct (wf_alias T W _ _ Hin) as [Hna Hkb].
  rewrite Hna, (has_key_nonempty T b W Hkb).
  unfold resolve_alias. rewrite Ha.
  unfold aliases_final in Hfin. rewrite forallb_forall in Hfin. specialize (Hfin _ Hin). simpl in Hfin.
  apply negb_true_iff in Hfin. unfold has_key in Hfin. destruct (assoc b (aliases T)); [discriminate|].
  reflexivity.
Qed.
