(* C07 — obligations re-decided by the kernel for the tables generated from /repo on this run. *)
From S2T Require Import Lib.PyStr C07.Model Gen.C07Tables.

(* premise of every theorem of C07/Props.v *)
Theorem C07_tables_wf : wf T = true.
Proof. vm_compute. reflexivity. Qed.
Print Assumptions C07_tables_wf.

Theorem C07_aliases_final : aliases_final T = true.
Proof. vm_compute. reflexivity. Qed.
Print Assumptions C07_aliases_final.

(* every documented extension (README tables) reaches the documented extractor, by extension
   alone (no MIME type) *)
Theorem C07_documented : forallb (fun ef => routes_to T (fst ef) (snd ef)) documented = true.
Proof. vm_compute. reflexivity. Qed.
Print Assumptions C07_documented.

(* where a compound extension overlaps an alias or its base (x.tar.gz vs x.tar.tgz) the compound
   entry names the same file type, so C07_alias_as_base extends to those stems *)
Theorem C07_alias_compound_consistent :
  forallb (fun ab =>
    forallb (fun cf =>
      if endswith (fst cf) (dotted (fst ab)) || endswith (fst cf) (dotted (snd ab))
      then str_eqb (snd cf) (snd ab) else true) (compound T)) (aliases T) = true.
Proof. vm_compute. reflexivity. Qed.
Print Assumptions C07_alias_compound_consistent.
