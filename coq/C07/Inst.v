(* C07 — obligations re-decided by the kernel for the tables generated from /repo on this run. *)
From S2T Require Import Lib.PyStr C07.Model C07.Tail Gen.C07Tables.
From Coq Require Import List NArith.
Import ListNotations.

(* premise of every theorem of C07/Props.v *)
Theorem C07_tables_wf : wf T = true.
Proof. vm_compute. reflexivity. Qed.
Print Assumptions C07_tables_wf.

Theorem C07_aliases_final : aliases_final T = true.
Proof. vm_compute. reflexivity. Qed.
Print Assumptions C07_aliases_final.

(* every documented extension (README tables) reaches the documented extractor, by extension
   alone (no MIME type) *)
Theorem C07_documented : forallb (fun ef => routes_to T (fst ef) (snd ef)) documented = true.
Proof. vm_compute. reflexivity. Qed.
Print Assumptions C07_documented.

(* where a compound extension overlaps an alias or its base (x.tar.gz vs x.tar.tgz) the compound
   entry names the same file type, so C07_alias_as_base extends to those stems *)
Theorem C07_alias_compound_consistent :
  forallb (fun ab =>
    forallb (fun cf =>
      if endswith (fst cf) (dotted (fst ab)) || endswith (fst cf) (dotted (snd ab))
      then str_eqb (snd cf) (snd ab) else true) (compound T)) (aliases T) = true.
Proof. vm_compute. reflexivity. Qed.
Print Assumptions C07_alias_compound_consistent.

(* white space, line ends and URL/shell leftovers after the extension: for today's tables none of them is the last
   character of a routing key, so (by C07_trailing_char_unsupported) a path ending in one of them is unsupported for
   both entry points when the MIME database has no opinion.  TAB LF VT FF CR FS GS RS US SPACE NEL NBSP LS PS NUL
   and the ASCII punctuation  # % & ; : ? @ backslash ~ braces brackets parentheses * $ ! = , and both quotes *)
Definition trailing_chars : list N :=
  [9; 10; 11; 12; 13; 28; 29; 30; 31; 32; 133; 160; 8232; 8233; 0;
   35; 37; 38; 59; 58; 63; 64; 92; 126; 123; 125; 91; 93; 40; 41; 42; 36; 33; 61; 44; 39; 34]%N.
Theorem C07_trailing_chars_ok : forallb (fun c => tail_ok c T) trailing_chars = true.
Proof. vm_compute. reflexivity. Qed.
Print Assumptions C07_trailing_chars_ok.
