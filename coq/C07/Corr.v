(* C07 — correspondence helpers: evaluate the model on recorded (path_lower, mime) pairs. *)
From S2T Require Import Lib.PyStr C07.Model.

Definition outcome_eqb (o : outcome) (e : option (str * str)) : bool :=
  match o, e with
  | Extractor (m, f), Some (m', f') => str_eqb m m' && str_eqb f f'
  | NotSupported, None => true
  | _, _ => false
  end.

(* case = (path_lower, guessed mime, implementation's is_supported_file, implementation's get_extractor) *)
Definition corr_case (T : tables) (c : str * option str * bool * option (str * str)) : bool :=
  let '(pl, m, sup, ext) := c in
  Bool.eqb (is_supported_lower T pl m) sup && outcome_eqb (get_extractor_lower T pl m) ext.

Definition splitext_case (c : str * str) : bool := let '(p, e) := c in str_eqb (splitext_ext p) e.
