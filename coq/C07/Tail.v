(* C07 — characters after the extension.  "The decision depends only on the lower-cased trailing extension":
   anything appended after a known extension (a line feed read from a manifest, a blank, '?web=1' ...) is part of
   the trailing extension, so the path is no longer routed by the extension in front of it. *)
From S2T Require Import Lib.PyStr C07.Model C07.Proofs.
From Coq Require Import List Bool NArith Lia.
Import ListNotations.

Lemma forallb_rev {A} (f : A -> bool) l : forallb f (rev l) = forallb f l.
Proof.
  induction l as [|x l IH]; simpl; [reflexivity|]. rewrite forallb_app, IH. simpl. rewrite andb_true_r. apply andb_comm.
Qed.

(* appending characters that are neither '.' nor '/' extends the extension (or leaves "no extension") *)
Lemma splitext_append p t :
  forallb not_dot t = true -> forallb not_slash t = true ->
  splitext_ext (p ++ t) = match splitext_ext p with [] => [] | e => e ++ t end.
Proof.
  intros Hd Hs. unfold splitext_ext. rewrite rev_app_distr.
  assert (Hd' : forallb not_dot (rev t) = true) by (rewrite forallb_rev; exact Hd).
  assert (Hs' : forallb not_slash (rev t) = true) by (rewrite forallb_rev; exact Hs).
  rewrite (takeWhile_app_all not_slash (rev t) (rev p) Hs').
  set (rb := takeWhile not_slash (rev p)).
  rewrite (dropWhile_app_all not_dot (rev t) rb Hd').
  destruct (dropWhile not_dot rb) as [|d pre]; [reflexivity|].
  destruct (existsb not_dot pre); [|reflexivity].
  rewrite (takeWhile_app_all not_dot (rev t) rb Hd'). rewrite rev_app_distr, rev_involutive. reflexivity.
Qed.

Definition last_is (c : N) (x : str) : bool := match rev x with y :: _ => N.eqb y c | [] => false end.
Definition avoid (c : N) (l : list str) : bool := forallb (fun x => negb (last_is c x)) l.

(* no key of any routing table ends with the character c (decidable; re-decided for today's tables in Inst.v) *)
Definition tail_ok (c : N) (T : tables) : bool :=
  not_dot c && not_slash c
  && avoid c (map fst (registry T)) && avoid c (map fst (aliases T))
  && avoid c (map fst (compound T)) && forallb nonempty (map fst (compound T))
  && avoid c (supported T) && negb (mem_str [] (supported T)).

Lemma last_is_app c x : last_is c (x ++ [c]) = true.
Proof. unfold last_is. rewrite rev_app_distr. simpl. apply N.eqb_refl. Qed.

Lemma endswith_tail_false p c k : nonempty k = true -> last_is c k = false -> endswith (p ++ [c]) k = false.
Proof.
  intros Hk Hl. destruct (endswith (p ++ [c]) k) eqn:E; [|reflexivity].
  apply endswith_app in E as [r E]. exfalso.
  assert (H : last_is c k = true).
  { unfold last_is. assert (Hr : rev (p ++ [c]) = rev (r ++ k)) by (rewrite E; reflexivity).
    rewrite !rev_app_distr in Hr. simpl in Hr. destruct (rev k) as [|y ys] eqn:Ek.
    - destruct k as [|a k']; [discriminate Hk|]. apply (f_equal (@length N)) in Ek. rewrite rev_length in Ek. discriminate Ek.
    - simpl in Hr. injection Hr as Hy _. subst y. apply N.eqb_refl. }
  rewrite H in Hl. discriminate Hl.
Qed.

Lemma avoid_In c l x : avoid c l = true -> In x l -> last_is c x = false.
Proof. unfold avoid. rewrite forallb_forall. intros H Hin. specialize (H x Hin). apply negb_true_iff in H. exact H. Qed.

Lemma not_in_avoid c l x : avoid c l = true -> last_is c x = true -> ~ In x l.
Proof. intros H Hl Hin. rewrite (avoid_In c l x H Hin) in Hl. discriminate. Qed.

Lemma compound_match_tail T c p :
  avoid c (map fst (compound T)) = true -> forallb nonempty (map fst (compound T)) = true ->
  compound_match (compound T) (p ++ [c]) = None /\ existsb (endswith (p ++ [c])) (map fst (compound T)) = false.
Proof.
  intros Ha Hn. induction (compound T) as [|[k ft] l IH]; simpl in *; [split; reflexivity|].
  apply andb_true_iff in Ha as [Ha1 Ha2]. apply andb_true_iff in Hn as [Hn1 Hn2]. apply negb_true_iff in Ha1.
  rewrite (endswith_tail_false p c k Hn1 Ha1). simpl. apply IH; assumption.
Qed.

Theorem tail_unsupported T c p :
  tail_ok c T = true ->
  get_extractor_lower T (p ++ [c]) None = NotSupported /\ is_supported_lower T (p ++ [c]) None = false.
Proof.
  unfold tail_ok. intros H. repeat (apply andb_true_iff in H as [H ?]).
  match goal with Hm : negb (mem_str [] (supported T)) = true |- _ => rename Hm into Hempty end.
  match goal with Hs : avoid c (supported T) = true |- _ => rename Hs into Hsup end.
  match goal with Hs : forallb nonempty (map fst (compound T)) = true |- _ => rename Hs into Hcn end.
  match goal with Hs : avoid c (map fst (compound T)) = true |- _ => rename Hs into Hca end.
  match goal with Hs : avoid c (map fst (aliases T)) = true |- _ => rename Hs into Hal end.
  match goal with Hs : avoid c (map fst (registry T)) = true |- _ => rename Hs into Hreg end.
  match goal with Hs : not_slash c = true |- _ => rename Hs into Hsl end.
  rename H into Hdot.
  destruct (compound_match_tail T c p Hca Hcn) as [Hcm Hex].
  assert (Hsplit : splitext_ext (p ++ [c]) = match splitext_ext p with [] => [] | e => e ++ [c] end).
  { apply splitext_append; simpl; [rewrite Hdot | rewrite Hsl]; reflexivity. }
  split.
  - unfold get_extractor_lower, file_type_from_extension. rewrite Hcm, Hsplit.
    destruct (splitext_ext p) as [|d e] eqn:Ep; [reflexivity|].
    change ((d :: e) ++ [c]) with (d :: (e ++ [c])). cbv iota.
    destruct (nonempty (e ++ [c])) eqn:En; [|reflexivity].
    unfold resolve_alias.
    assert (Hl : last_is c (e ++ [c]) = true) by apply last_is_app.
    assert (Hna : assoc (e ++ [c]) (aliases T) = None) by (apply assoc_None_keys; apply (not_in_avoid c _ _ Hal Hl)).
    rewrite Hna.
    assert (Hnk : has_key (e ++ [c]) (registry T) = false).
    { destruct (has_key (e ++ [c]) (registry T)) eqn:Ek; [|reflexivity]. apply has_key_In in Ek.
      exfalso. exact (not_in_avoid c _ _ Hreg Hl Ek). }
    rewrite Hnk. reflexivity.
  - unfold is_supported_lower. rewrite Hex, Hsplit.
    destruct (splitext_ext p) as [|d e] eqn:Ep.
    + apply negb_true_iff in Hempty. rewrite Hempty. reflexivity.
    + assert (Hl : last_is c ((d :: e) ++ [c]) = true) by apply last_is_app.
      destruct (mem_str ((d :: e) ++ [c]) (supported T)) eqn:Em; [|reflexivity].
      apply mem_str_In in Em. exfalso. exact (not_in_avoid c _ _ Hsup Hl Em).
Qed.
