(* C07 — executable model of sharepoint2text/parsing/router.py (definitions only). *)
From S2T Require Export Lib.PyStr.

Definition DOT : N := 46.
Definition SLASH : N := 47.
Definition not_dot (c : N) : bool := negb (N.eqb c DOT).
Definition not_slash (c : N) : bool := negb (N.eqb c SLASH).

(* os.path.splitext(p)[1] on POSIX (genericpath._splitext, sep='/', altsep=None).
   rb  = reversed basename; the extension starts at the last dot of the basename, provided
   some character before that dot is not a dot (leading dots do not start an extension). *)
Definition splitext_ext (p : str) : str :=
  let rb := takeWhile not_slash (rev p) in
  match dropWhile not_dot rb with
  | [] => []
  | _dot :: pre_rev =>
      if existsb not_dot pre_rev then DOT :: rev (takeWhile not_dot rb) else []
  end.

Definition extractor := (str * str)%type.   (* (module path, function name) *)

Record tables := {
  registry  : list (str * extractor);   (* _EXTRACTOR_REGISTRY, insertion order *)
  aliases   : list (str * str);         (* _EXTENSION_ALIASES *)
  compound  : list (str * str);         (* _COMPOUND_EXTENSIONS *)
  supported : list str;                 (* _SUPPORTED_EXTENSIONS (a frozenset: order irrelevant) *)
  mime_map  : list (str * str)          (* MIME_TYPE_MAPPING *)
}.

Inductive outcome :=
| Extractor (e : extractor)
| NotSupported.                          (* ExtractionFileFormatNotSupportedError *)

Definition nonempty (x : str) : bool := match x with [] => false | _ => true end.

Section Router.
  Variable T : tables.

  (* first compound extension (dict order) the lower-cased path ends with *)
  Fixpoint compound_match (l : list (str * str)) (pl : str) : option str :=
    match l with
    | [] => None
    | (c, ft) :: l' => if endswith pl c then Some ft else compound_match l' pl
    end.

  Definition resolve_alias (ext : str) : str :=
    match assoc ext (aliases T) with Some b => b | None => ext end.

  (* _file_type_from_extension(path_lower) *)
  Definition file_type_from_extension (pl : str) : option str :=
    match compound_match (compound T) pl with
    | Some ft => Some ft
    | None =>
        match splitext_ext pl with
        | [] => None                                  (* if not extension *)
        | _ :: ext =>
            if nonempty ext then
              let ext' := resolve_alias ext in
              if has_key ext' (registry T) then Some ext' else None
            else None                                 (* if not ext *)
        end
    end.

  (* _get_extractor(file_type) *)
  Definition get_by_type (ft : str) : outcome :=
    match assoc ft (registry T) with Some e => Extractor e | None => NotSupported end.

  (* both entry points as functions of path_lower and the guessed MIME type *)
  Definition is_supported_lower (pl : str) (mime_type : option str) : bool :=
    if existsb (endswith pl) (map fst (compound T)) then true
    else if mem_str (splitext_ext pl) (supported T) then true
    else match mime_type with
         | Some m => nonempty m && has_key m (mime_map T)      (* bool(m and m in MAPPING) *)
         | None => false
         end.

  Definition get_extractor_lower (pl : str) (mime_type : option str) : outcome :=
    let by_mime :=
      match mime_type with
      | Some m => match assoc m (mime_map T) with
                  | Some ft => get_by_type ft
                  | None => NotSupported
                  end
      | None => NotSupported
      end in
    match file_type_from_extension pl with
    | Some ft => if nonempty ft then get_by_type ft else by_mime   (* `if file_type:` *)
    | None => by_mime
    end.

  (* str.lower and mimetypes.guess_type are arbitrary functions *)
  Variable lower : str -> str.
  Variable mime : str -> option str.

  Definition is_supported_file (p : str) : bool :=
    let pl := lower p in is_supported_lower pl (mime pl).

  Definition get_extractor (p : str) : outcome :=
    let pl := lower p in get_extractor_lower pl (mime pl).
End Router.

(* ---- decidable well-formedness of the tables (re-decided by the kernel for today's tables) *)
Definition dotted (x : str) : str := DOT :: x.

Definition expected_supported (T : tables) : list str :=
  map dotted (map fst (registry T)) ++ map dotted (map fst (aliases T)) ++ map fst (compound T).

Definition subset_str (a b : list str) : bool := forallb (fun x => mem_str x b) a.

Definition wf (T : tables) : bool :=
  forallb (fun kv => nonempty (fst kv)) (registry T)
  && forallb (fun ab => nonempty (fst ab) && has_key (snd ab) (registry T)) (aliases T)
  && forallb (fun cf => has_key (snd cf) (registry T)) (compound T)
  && forallb (fun mf => nonempty (fst mf) && has_key (snd mf) (registry T)) (mime_map T)
  && subset_str (supported T) (expected_supported T)
  && subset_str (expected_supported T) (supported T).

(* the first table entry that breaks wf, as a hint for the failing-input search *)
Definition first_bad (T : tables) : list str :=
  map fst (filter (fun kv => negb (nonempty (fst kv))) (registry T))
  ++ map fst (filter (fun ab => negb (nonempty (fst ab) && has_key (snd ab) (registry T))) (aliases T))
  ++ map fst (filter (fun cf => negb (has_key (snd cf) (registry T))) (compound T))
  ++ map fst (filter (fun mf => negb (nonempty (fst mf) && has_key (snd mf) (registry T))) (mime_map T))
  ++ filter (fun x => negb (mem_str x (expected_supported T))) (supported T)
  ++ filter (fun x => negb (mem_str x (supported T))) (expected_supported T).

(* alias targets are final (an alias never points at another alias) *)
Definition aliases_final (T : tables) : bool :=
  forallb (fun ab => negb (has_key (snd ab) (aliases T))) (aliases T).

(* documented extension -> documented extractor function (README tables) *)
Definition routes_to (T : tables) (ext fn : str) : bool :=
  match get_extractor_lower T (s "stem" ++ ext) None with
  | Extractor (_, f) => str_eqb f fn
  | NotSupported => false
  end.
