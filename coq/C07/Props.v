(* C07 — property theorems (parametric in the routing tables, in str.lower and in the MIME database).
   Nothing but statements closed by `exact`, each followed by Print Assumptions. *)
From S2T Require Import Lib.PyStr C07.Model C07.Proofs C07.Tail.

(* is_supported_file(p) is true exactly when get_extractor(p) returns an extractor *)
Theorem C07_supported_iff_extractor :
  forall (T : tables) (lower : str -> str) (mime : str -> option str) (p : str),
    wf T = true ->
    (is_supported_file T lower mime p = true <-> exists e, get_extractor T lower mime p = Extractor e).
Proof. intros T lower mime p H. exact (supported_iff_extractor_lower T (lower p) (mime (lower p)) (wf_WF T H)). Qed.
Print Assumptions C07_supported_iff_extractor.

(* otherwise: the format-not-supported error (the model's only other outcome) *)
Theorem C07_else_not_supported :
  forall (T : tables) (lower : str -> str) (mime : str -> option str) (p : str),
    wf T = true -> is_supported_file T lower mime p = false -> get_extractor T lower mime p = NotSupported.
Proof. intros T lower mime p H. exact (not_supported_lower T (lower p) (mime (lower p)) (wf_WF T H)). Qed.
Print Assumptions C07_else_not_supported.

(* a recognised extension decides: the result is the registry entry of that extension, whatever
   the host's MIME database says (two arbitrary databases give the same answer) *)
Theorem C07_extension_decides :
  forall (T : tables) (lower : str -> str) (p ft : str),
    wf T = true -> file_type_from_extension T (lower p) = Some ft ->
    forall mime1 mime2 : str -> option str,
      get_extractor T lower mime1 p = get_extractor T lower mime2 p
      /\ get_extractor T lower mime1 p = get_by_type T ft
      /\ (exists e, get_by_type T ft = Extractor e)
      /\ is_supported_file T lower mime1 p = true.
Proof.
  intros T lower p ft H Hf mime1 mime2.
  destruct (extension_decides_lower T (lower p) ft (wf_WF T H) Hf (mime1 (lower p))) as [G1 [S1 E1]].
  destruct (extension_decides_lower T (lower p) ft (wf_WF T H) Hf (mime2 (lower p))) as [G2 _].
  unfold get_extractor, is_supported_file. rewrite G1, G2. auto.
Qed.
Print Assumptions C07_extension_decides.

(* the decision depends only on the lower-cased path *)
Theorem C07_case_insensitive :
  forall (T : tables) (lower : str -> str) (mime : str -> option str) (p q : str),
    lower p = lower q ->
    get_extractor T lower mime p = get_extractor T lower mime q
    /\ is_supported_file T lower mime p = is_supported_file T lower mime q.
Proof. intros T lower mime p q H. unfold get_extractor, is_supported_file. rewrite H. auto. Qed.
Print Assumptions C07_case_insensitive.

(* os.path.splitext on  stem.ext : the extension is found iff the stem's last component has a
   character other than '.', independently of the extension itself *)
Theorem C07_splitext_stem_ext :
  forall stem e : str, plain_ext e = true ->
    splitext_ext (stem ++ DOT :: e) = if stem_ok stem then DOT :: e else [].
Proof. exact splitext_stem_ext. Qed.
Print Assumptions C07_splitext_stem_ext.

(* an alias behaves exactly like its base format, for every stem *)
Theorem C07_alias_as_base :
  forall (T : tables) (a b stem : str),
    wf T = true -> aliases_final T = true ->
    In (a, b) (aliases T) -> assoc a (aliases T) = Some b ->
    plain_ext a = true -> plain_ext b = true ->
    compound_match (compound T) (stem ++ DOT :: a) = None ->
    compound_match (compound T) (stem ++ DOT :: b) = None ->
    file_type_from_extension T (stem ++ DOT :: a) = file_type_from_extension T (stem ++ DOT :: b).
Proof. intros T a b stem H. exact (alias_as_base T a b stem (wf_WF T H)). Qed.
Print Assumptions C07_alias_as_base.

(* characters after the extension belong to the trailing extension: appending anything without '.' and '/' to a
   path extends its extension (or leaves it without one) - "x.docx\n" has the extension ".docx\n" *)
Theorem C07_appended_chars_extend_extension :
  forall p t : str, forallb not_dot t = true -> forallb not_slash t = true ->
    splitext_ext (p ++ t) = match splitext_ext p with [] => [] | e => e ++ t end.
Proof. exact splitext_append. Qed.
Print Assumptions C07_appended_chars_extend_extension.

(* if no key of the routing tables ends with the character c, no path ending in c is routed by extension, and both
   entry points agree on that (tail_ok is decided for today's tables and a list of characters in Inst.v) *)
Theorem C07_trailing_char_unsupported :
  forall (T : tables) (c : N) (p : str), tail_ok c T = true ->
    get_extractor_lower T (p ++ [c]) None = NotSupported /\ is_supported_lower T (p ++ [c]) None = false.
Proof. exact tail_unsupported. Qed.
Print Assumptions C07_trailing_char_unsupported.
