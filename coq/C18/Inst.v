(* C18 — obligations re-decided by the kernel on the constants generated from /repo on this run, and
   non-vacuity witnesses for the boolean hypotheses of C18/Props.v. *)
From Coq Require Import ZArith List Bool.
From S2T Require Import Lib.PyStr C18.Model C18.Proofs C18.Corr Gen.C18Tables.
Local Open Scope nat_scope.

(* the generated constants are usable: _SYSTEM_FIELDS has no duplicates and contains the columns the
   metadata record already carries, the API base is non-empty, the token template has the tenant slot *)
Theorem C18_tables_wf :
  nodup_str system_fields && nonempty graph_base && token_template_has_tenant
  && forallb (fun k => mem_str k system_fields) [s "id"; s "Created"; s "Modified"; s "FileLeafRef"; s "@odata.etag"]
  = true.
Proof. vm_compute. reflexivity. Qed.
Print Assumptions C18_tables_wf.

Definition E0 : env :=
  {| lower := fun x => x; glob := fun _ _ => true; fromiso := fun _ => None; quote := fun x => x;
     sysf := system_fields; base := graph_base;
     token_url := token_prefix ++ s "tenant" ++ token_suffix;
     site_api_url := graph_base ++ s "/sites/contoso.sharepoint.com:/sites/x" |}.

Definition fi (nm i : str) : fitem :=
  {| i_name := Some nm; i_id := Some i; i_web := None; i_dl := None; i_size := Some 3%Z; i_facet := FcObj None false;
     i_modified := None; i_created := Some (s "2024-01-15T10:30:00.9Z");
     i_fields := Some [(s "Project", s "1"); (s "Created", s "2"); (s "@odata.etag", s "3")] |}.

Definition T0 : list node :=
  [File (fi (s "a.txt") (s "f1"));
   Folder (Some (s "Docs")) (Some (s "d1")) (FcObj None false, None)
     [JunkDict; File (fi (s "b c.pdf") (s "f2")); Folder (Some (s "Sub")) (Some (s "d2")) (FcNull, Some FcNull) [File (fi (s "c") (s "f3"))]];
   NonDict; File (fi (s "z") (s "f4"))].

Definition P0 : paging := fun oid =>
  match oid with
  | None => [(1, s "next:1"); (0, s "next:2"); (2, s "next:3")]
  | Some i => if str_eqb i (s "d1") then [(2, s "next:4")] else []
  end.

(* the hypotheses of the theorems are satisfiable *)
Theorem C18_sample_wf :
  server_wf E0 (s "SITE") None P0 T0 && server_wf E0 (s "SITE") (Some (s "drv")) P0 T0
  && nonempty (s "TOK") && fault_ok (FStatus (Some 500%Z)) && fault_ok FNonObj && fault_ok FOs && fault_ok FRead
  && fault_ok (FBadPage {| o_value := []; o_next := None; o_id := None; o_token := None; o_folder := false; o_ok := false |})
  && Nat.eqb (List.length (spec_target E0 (s "SITE") None T0 (s "/Docs/Sub/"))) 1
  && Nat.eqb (List.length (spec_target E0 (s "SITE") None T0 (s "Docs"))) 2
  && Nat.eqb (List.length (spec_target E0 (s "SITE") None T0 (s "a.txt"))) 0
  && forallb (comparable E0 {| created_after := None; created_before := None; modified_after := None;
                              modified_before := None; folder_paths := []; path_patterns := [s "*"];
                              extensions := [s ".pdf"] |}) (spec_files E0 [] T0)
  = true.
Proof. vm_compute. reflexivity. Qed.
Print Assumptions C18_sample_wf.

(* the model on the sample with today's constants: complete listing of 4 files over 3+... pages, a fault at
   request 4 contained, the retry complete *)
Theorem C18_sample_run :
  let fuel := need P0 None T0 in
  let table := server_table E0 (s "SITE") None P0 T0 in
  let wH := healthy E0 (s "TOK") table in
  let wF := faulty wH 4 (resp_of_fault FNonObj) in
  let '(r, s1) := run E0 wH (list_all_files E0 fuel) st0 in
  let '(rf, sf) := run E0 wF (list_all_files E0 fuel) st0 in
  let '(rr, _) := run E0 wF (list_all_files E0 fuel) sf in
  res_eqb r (Ok (spec_files E0 [] T0)) && Nat.eqb (List.length (spec_files E0 [] T0)) 4
  && Nat.eqb (nreq s1) 16
  && match rf with Raise (RequestError None u) => str_eqb u (s "next:2") | _ => false end
  && Nat.eqb (opened sf) (closed sf)
  && res_eqb rr r
  = true.
Proof. vm_compute. reflexivity. Qed.
Print Assumptions C18_sample_run.

(* the guard on today's constants: the root listing of an otherwise healthy endpoint names itself as next page;
   list_all_files raises the request error for that url after token + site + ONE listing request (replayed on the
   real client by the check).  links_in is satisfiable: the only nextLink of this world is u. *)
Theorem C18_cycle_witness :
  let u := children_url E0 (s "SITE") None None in
  let table := [(site_api_url E0, site_obj (s "SITE")); (u, page_obj [] (Some u))] in
  let '(r, s1) := run E0 (healthy E0 (s "TOK") table) (list_all_files E0 60) st0 in
  match r with Raise (RequestError None u') => str_eqb u' u | _ => false end
  && Nat.eqb (nreq s1) 3 && Nat.eqb (opened s1) (closed s1) && Nat.eqb (unseen [u] []) 1
  = true.
Proof. vm_compute. reflexivity. Qed.
Print Assumptions C18_cycle_witness.
