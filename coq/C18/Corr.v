(* C18 — correspondence helpers: run the model on a recorded case and compare with what the
   implementation did (result or exception, request log, opened/closed responses, caches, retry). *)
From Coq Require Import ZArith List Bool.
From S2T Require Import Lib.PyStr C18.Model.
Local Open Scope nat_scope.

Definition opt_eqb {A} (f : A -> A -> bool) (a b : option A) : bool :=
  match a, b with Some x, Some y => f x y | None, None => true | _, _ => false end.
Fixpoint list_eqb {A} (f : A -> A -> bool) (a b : list A) : bool :=
  match a, b with
  | [], [] => true
  | x :: a', y :: b' => f x y && list_eqb f a' b'
  | _, _ => false
  end.
Definition kv_eqb (a b : str * str) : bool := str_eqb (fst a) (fst b) && str_eqb (snd a) (snd b).

Definition fmeta_eqb (a b : fmeta) : bool :=
  str_eqb (m_name a) (m_name b) && str_eqb (m_id a) (m_id b) && str_eqb (m_web a) (m_web b)
  && opt_eqb str_eqb (m_dl a) (m_dl b) && opt_eqb Z.eqb (m_size a) (m_size b)
  && opt_eqb str_eqb (m_mime a) (m_mime b) && opt_eqb str_eqb (m_modified a) (m_modified b)
  && opt_eqb str_eqb (m_created a) (m_created b) && opt_eqb str_eqb (m_parent a) (m_parent b)
  && opt_eqb (list_eqb kv_eqb) (m_custom a) (m_custom b).

Definition err_eqb (a b : err) : bool :=
  match a, b with
  | RequestError s1 u1, RequestError s2 u2 => opt_eqb Z.eqb s1 s2 && str_eqb u1 u2
  | AuthError, AuthError => true
  | PyTypeError, PyTypeError => true
  | _, _ => false                       (* OutOfFuel never equals an observation *)
  end.

Definition res_eqb (a b : res (list fmeta)) : bool :=
  match a, b with
  | Ok x, Ok y => list_eqb fmeta_eqb x y
  | Raise e1, Raise e2 => err_eqb e1 e2
  | _, _ => false
  end.

Definition log_eqb (a b : list (bool * str)) : bool :=
  list_eqb (fun x y => Bool.eqb (fst x) (fst y) && str_eqb (snd x) (snd y)) a b.

(* oracle tables recorded from the real library *)
Record oracles := {
  t_lower : list (str * str);
  t_glob : list (str * list (str * bool));     (* path -> pattern -> fnmatch result *)
  t_iso : list (str * option dt);
  t_quote : list (str * str)
}.

Definition mk_env (sysfields : list str) (b tokurl siteurl : str) (o : oracles)
           (miss_glob : bool) (miss_iso : option dt) : env :=
  {| lower := fun x => match assoc x (t_lower o) with Some v => v | None => x end;
     glob := fun p pat => match assoc p (t_glob o) with
                          | Some l => match assoc pat l with Some v => v | None => miss_glob end
                          | None => miss_glob end;
     fromiso := fun x => match assoc x (t_iso o) with Some v => v | None => miss_iso end;
     quote := fun x => match assoc x (t_quote o) with Some v => v | None => x end;
     sysf := sysfields; base := b; token_url := tokurl; site_api_url := siteurl |}.

Fixpoint paging_of (tbl : list (option str * list (nat * str))) (oid : option str) : list (nat * str) :=
  match tbl with
  | [] => []
  | (k, v) :: r => if opt_eqb str_eqb k oid then v else paging_of r oid
  end.

Fixpoint with_faults (w : world) (fs : list (nat * resp)) : world :=
  match fs with [] => w | (k, r) :: rest => faulty (with_faults w rest) k r end.

(* one observed run of the implementation *)
Record obs := {
  ob_faults : list (nat * resp);            (* responses forced at request indices *)
  ob_result : res (list fmeta);             (* list(...) or the exception *)
  ob_log : list (bool * str);               (* requests made: (is token request, url) *)
  ob_opened : nat; ob_closed : nat;         (* response objects handed out / close() calls *)
  ob_tok : option str; ob_sid : option str; (* client._access_token, client._site_id afterwards *)
  ob_retry : res (list fmeta);              (* the same call again on the same client, transport healthy now *)
  ob_full : bool                            (* false: compare the result only.  Used when FileFilter.matches raised
                                               TypeError (naive vs aware bound): the generator stops at the first
                                               offending file, the model collects the walk first, so the request
                                               logs differ although the outcome is the same *)
}.

Record case := {
  c_or : oracles;
  c_site : str; c_drive : option str; c_token : str;
  c_tree : list node;
  c_paging : list (option str * list (nat * str));
  c_filter : option ffilter;                (* None = list_all_files *)
  c_since : option (bool * dt);             (* Some (created?, since): called through list_files_created_since /
                                               list_files_modified_since with the folder_paths and extensions of c_filter *)
  c_obs : list obs
}.

Definition the_prog (E : env) (fuel : nat) (c : case) : prog (list fmeta) :=
  match c_filter c with
  | None => list_all_files E fuel
  | Some f =>
      match c_since c with
      | Some (cr, since) => list_files_since E fuel cr since (folder_paths f) (extensions f) (c_drive c)
      | None => list_files_filtered E fuel f (c_drive c)
      end
  end.

Definition check_obs (E : env) (c : case) (o : obs) : bool :=
  let P := paging_of (c_paging c) in
  let fuel := need P None (c_tree c) + 3 in
  let table := server_table E (c_site c) (c_drive c) P (c_tree c) in
  let w := with_faults (healthy E (c_token c) table) (ob_faults o) in
  let '(r, s1) := run E w (the_prog E fuel c) st0 in
  let '(r2, _) := run E w (the_prog E fuel c) s1 in
  res_eqb r (ob_result o) &&
  (negb (ob_full o) ||
   log_eqb (urls s1) (ob_log o)
   && Nat.eqb (opened s1) (ob_opened o) && Nat.eqb (closed s1) (ob_closed o)
   && opt_eqb str_eqb (tok s1) (ob_tok o) && opt_eqb str_eqb (sid s1) (ob_sid o)
   && res_eqb r2 (ob_retry o)).

(* the oracle tables are complete for the model's queries iff the answer does not depend on the value
   given to a missing entry: evaluate under two different defaults *)
Definition corr_case (sysfields : list str) (b tokurl siteurl : str) (c : case) : bool :=
  let E1 := mk_env sysfields b tokurl siteurl (c_or c) false None in
  let E2 := mk_env sysfields b tokurl siteurl (c_or c) true (Some {| dt_local := 0; dt_off := Some 0%Z |}) in
  forallb (check_obs E1 c) (c_obs c) && forallb (check_obs E2 c) (c_obs c).

(* string-level correspondence of the pieces modelled after str methods *)
Definition norm_case (c : str * str) : bool := str_eqb (iso_norm (fst c)) (snd c).
Definition strip_case (c : str * str) : bool := str_eqb (strip_slash (fst c)) (snd c).
