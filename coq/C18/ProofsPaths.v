(* C18 — list_files_filtered restricted by FileFilter.folder_paths *)
From Coq Require Import ZArith List Bool Lia ZifyBool.
From S2T Require Import Lib.PyStr C18.Model C18.Proofs.
Local Open Scope nat_scope.

Lemma list_sum_In {A} (f : A -> nat) l x : In x l -> f x <= list_sum (map f l).
Proof.
  induction l as [|y l IH]; simpl; [tauto|]. intros [->|H]; [lia|]. specialize (IH H). lia.
Qed.

Lemma pages_no_folder : forall cuts url items u o, In (u, o) (pages url cuts items) -> o_folder o = false.
Proof.
  induction cuts as [|[n link] cuts IH]; intros url items u o; simpl.
  - intros [H|[]]. inversion H; reflexivity.
  - intros [H|H]; [inversion H; reflexivity | eapply IH; eauto].
Qed.

Section Paths.
  Variable E : env.
  Variable site : str.
  Variable drive : option str.
  Variable P : paging.

  Lemma node_entries_no_folder : forall n u o, In (u, o) (node_entries E site drive P n) -> o_folder o = false.
  Proof.
    apply (node_ind' (fun n => forall u o, In (u, o) (node_entries E site drive P n) -> o_folder o = false));
      try (intros; simpl in *; tauto).
    intros nm i fc ch HF u o. cbn [node_entries]. intro H. apply in_app_or in H as [H|H].
    - eapply pages_no_folder; eauto.
    - apply in_flat_map in H as (c & Hc & Hin). rewrite Forall_forall in HF. eapply HF; eauto.
  Qed.

  (* a resolvable folder has a path entry in the server table *)
  Lemma path_folders_entry : forall n path u i ch,
    In (u, (i, ch)) (path_folders E site drive path n) ->
    In (u, item_obj i true) (node_path_entries E site drive path n).
  Proof.
    apply (node_ind' (fun n => forall path u i ch, In (u, (i, ch)) (path_folders E site drive path n) ->
                                 In (u, item_obj i true) (node_path_entries E site drive path n)));
      try (intros; simpl in *; tauto).
    intros nm i0 fc0 ch0 HF path u i ch. destruct nm as [nm|]; cbn [path_folders node_path_entries]; [|tauto].
    intros [H|H]; [inversion H; left; reflexivity|]. right.
    apply in_flat_map in H as (c & Hc & Hin). apply in_flat_map. exists c. split; [exact Hc|].
    rewrite Forall_forall in HF. eapply HF; eauto.
  Qed.

  (* ... and its sub-table, well-formedness and fuel need are those of a sub-tree *)
  Lemma path_folders_sub : forall n path u i ch,
    In (u, (i, ch)) (path_folders E site drive path n) -> ids_ok n = true -> links_ok P n = true ->
    pages_ok E site drive P n = true ->
    incl (folder_entries E site drive P i ch ++ flat_map (node_entries E site drive P) ch) (node_entries E site drive P n)
    /\ forallb ids_ok ch = true /\ forallb (links_ok P) ch = true /\ cuts_ok (P i) = true
    /\ need P i ch <= need_node P n
    /\ nodup_str_pre (children_url E site drive i :: map snd (P i)) = true
    /\ forallb (pages_ok E site drive P) ch = true.
  Proof.
    apply (node_ind' (fun n => forall path u i ch,
      In (u, (i, ch)) (path_folders E site drive path n) -> ids_ok n = true -> links_ok P n = true ->
      pages_ok E site drive P n = true ->
      incl (folder_entries E site drive P i ch ++ flat_map (node_entries E site drive P) ch) (node_entries E site drive P n)
      /\ forallb ids_ok ch = true /\ forallb (links_ok P) ch = true /\ cuts_ok (P i) = true
      /\ need P i ch <= need_node P n
      /\ nodup_str_pre (children_url E site drive i :: map snd (P i)) = true
      /\ forallb (pages_ok E site drive P) ch = true));
      try (intros; simpl in *; tauto).
    intros nm i0 fc0 ch0 HF path u i ch. destruct nm as [nm|]; cbn [path_folders]; [|simpl; tauto].
    intros Hin Hi Hl Hp. cbn [ids_ok] in Hi. cbn [links_ok] in Hl. cbn [pages_ok] in Hp.
    apply andb_true_iff in Hi as [Hi0 Hi]. apply andb_true_iff in Hl as [Hl0 Hl]. apply andb_true_iff in Hp as [Hp0 Hp].
    destruct Hin as [H|H].
    - inversion H; subst. repeat split; auto. apply incl_refl.
    - apply in_flat_map in H as (c & Hc & Hin). rewrite Forall_forall in HF.
      rewrite forallb_forall in Hi, Hl, Hp.
      destruct (HF c Hc _ _ _ _ Hin (Hi c Hc) (Hl c Hc) (Hp c Hc)) as (Hincl & H1 & H2 & H3 & H4 & H5 & H6).
      repeat split; auto.
      + intros x Hx. cbn [node_entries]. apply in_or_app. right. apply in_flat_map. exists c. split; auto.
      + change (need_node P (Folder (Some nm) i0 fc0 ch0)) with (need P i0 ch0). unfold need at 2.
        pose proof (list_sum_In (need_node P) ch0 c Hc). lia.
  Qed.

  (* every table entry for a path that says "folder" comes from a resolvable folder *)
  Lemma path_entries_folder : forall n path u o,
    In (u, o) (node_path_entries E site drive path n) -> o_folder o = true ->
    exists ic, In (u, ic) (path_folders E site drive path n).
  Proof.
    apply (node_ind' (fun n => forall path u o, In (u, o) (node_path_entries E site drive path n) ->
                                 o_folder o = true -> exists ic, In (u, ic) (path_folders E site drive path n))).
    - intros f path u o. cbn [node_path_entries]. destruct (i_name f); [|simpl; tauto].
      intros [H|[]] Hf. inversion H; subst. discriminate.
    - intros nm i0 fc0 ch0 HF path u o. destruct nm as [nm|]; cbn [path_folders node_path_entries]; [|simpl; tauto].
      intros [H|H] Hf.
      + inversion H; subst. eexists. left. reflexivity.
      + apply in_flat_map in H as (c & Hc & Hin). rewrite Forall_forall in HF.
        destruct (HF c Hc _ _ _ Hin Hf) as [ic Hic]. exists ic. right. apply in_flat_map. exists c. auto.
    - simpl; tauto.
    - simpl; tauto.
  Qed.

  Variable tk : str.
  Variable T : list node.
  Hypothesis Hwf : server_wf E site drive P T = true.
  Hypothesis Htk : nonempty tk = true.
  Let table := server_table E site drive P T.

  Lemma wf_parts_d :
    forallb ids_ok T = true /\ cuts_ok (P None) = true /\ forallb (links_ok P) T = true
    /\ nodup_str (token_url E :: map fst table) = true /\ nonempty (base E) = true.
  Proof. unfold server_wf in Hwf. repeat (apply andb_true_iff in Hwf as [Hwf ?]). auto. Qed.

  Lemma wf_pages_d :
    nodup_str_pre (children_url E site drive None :: map snd (P None)) = true
    /\ forallb (pages_ok E site drive P) T = true.
  Proof. unfold server_wf in Hwf. repeat (apply andb_true_iff in Hwf as [Hwf ?]). auto. Qed.

  Lemma table_folder_entries u o :
    In (u, o) table -> o_folder o = true -> exists ic, In (u, ic) (flat_map (path_folders E site drive []) T).
  Proof.
    unfold table, server_table, child_entries, folder_entries, path_entries. intros [H|H] Hf.
    - inversion H; subst. discriminate.
    - apply in_app_or in H as [H|H]; [apply in_app_or in H as [H|H]|].
      + rewrite (pages_no_folder _ _ _ _ _ H) in Hf. discriminate.
      + apply in_flat_map in H as (c & _ & Hin). rewrite (node_entries_no_folder _ _ _ Hin) in Hf. discriminate.
      + apply in_flat_map in H as (c & Hc & Hin). destruct (path_entries_folder c [] u o Hin Hf) as [ic Hic].
        exists ic. apply in_flat_map. exists c. auto.
  Qed.

  (* get_site_id against a healthy endpoint, from any admissible cache state *)
  Lemma site_id_ok : forall w n0 s,
    healthy_from w n0 E tk table -> n0 <= nreq s -> cache_ok tk site s ->
    exists s', run E w (get_site_id E) s = (Ok site, s')
               /\ tok s' = Some tk /\ sid s' = Some site /\ balanced s s' /\ nreq s <= nreq s'.
  Proof.
    intros w n0 s Hw Hn Hc. destruct wf_parts_d as (_ & _ & _ & Hnd & _).
    assert (Hsv : serves w n0 tk table) by (eapply healthy_from_serves; eauto).
    assert (Hsite : In (site_api_url E, site_obj site) table) by (left; reflexivity).
    unfold get_site_id. cbn [run].
    destruct Hc as [[Ht Hs]|[Ht [Hs|Hs]]]; rewrite Hs; cbn [run].
    - pose proof (fetch_token_ok E w s tk (healthy_from_token E tk table w n0 _ Hw Hn) Htk) as Hft.
      rewrite (get_json_after_fetch E w _ s tk _ Ht Hft eq_refl).
      set (s1 := set_tok tk (adv s [(true, token_url E)])).
      assert (Hn1 : n0 <= nreq s1) by (unfold s1, nreq; simpl; rewrite app_length; unfold nreq in Hn; lia).
      rewrite (get_json_ok E w s1 tk _ _ n0 table Hsv Hn1 eq_refl Hsite). cbn [site_obj o_id run].
      eexists; split; [reflexivity|]. unfold balanced, nreq; simpl. rewrite !app_length. simpl. repeat split; auto; lia.
    - rewrite (get_json_ok E w s tk _ _ n0 table Hsv Hn Ht Hsite). cbn [site_obj o_id run].
      eexists; split; [reflexivity|]. unfold balanced, nreq; simpl. rewrite !app_length. simpl. repeat split; auto; lia.
    - eexists; split; [reflexivity|]. unfold balanced. repeat split; auto; lia.
  Qed.

  (* one entry of folder_paths *)
  Lemma target_ok : forall f p w n0 s fuel,
    healthy_from w n0 E tk table -> n0 <= nreq s -> tok s = Some tk -> need P None T <= fuel ->
    forallb (comparable E f) (spec_target E site drive T p) = true ->
    exists s', run E w (walk_and_filter E fuel site f (Some p) drive) s
               = (Ok (filter (spec_matches E f) (spec_target E site drive T p)), s')
               /\ tok s' = Some tk /\ balanced s s' /\ nreq s <= nreq s'.
  Proof.
    intros f p w n0 s fuel Hw Hn Ht Hfuel Hcmp.
    destruct wf_parts_d as (Hi & Hcu & Hl & Hnd & Hb). destruct wf_pages_d as (Hpg0 & Hpg).
    assert (Hsv : serves w n0 tk table) by (eapply healthy_from_serves; eauto).
    assert (Hfilter : forall l, forallb (comparable E f) l = true ->
                                filter_matches E f l = Ok (filter (spec_matches E f) l)).
    { intros l Hc. apply filter_matches_filter. intros m Hm. apply matches_spec.
      rewrite forallb_forall in Hc. auto. }
    unfold walk_and_filter, spec_target in *. cbn [truthy dflt]. destruct (nonempty p) eqn:Hp.
    - (* lookup by path *)
      cbn [run]. unfold resolve in *.
      set (key := path_url E site drive p) in *.
      destruct (assoc key (flat_map (path_folders E site drive []) T)) as [[i ch]|] eqn:Hres.
      + (* the folder exists *)
        apply assoc_In in Hres. apply in_flat_map in Hres as (c & Hc & Hin).
        pose proof (path_folders_entry c [] key i ch Hin) as Hent.
        rewrite forallb_forall in Hi, Hl.
        assert (Hpc : pages_ok E site drive P c = true) by (rewrite forallb_forall in Hpg; auto).
        destruct (path_folders_sub c [] key i ch Hin (Hi c Hc) (Hl c Hc) Hpc) as (Hincl & H1 & H2 & H3 & H4 & H5 & H6).
        assert (Hkey : In (key, item_obj i true) table).
        { unfold table, server_table. right. apply in_or_app. right. unfold path_entries.
          apply in_flat_map. exists c. auto. }
        rewrite (get_json_ok E w s tk _ _ n0 table Hsv Hn Ht Hkey). cbn [item_obj o_folder o_id].
        rewrite run_bind.
        destruct (walk_any E site drive P Hb i ch p w (adv s [(false, key)]) tk n0 fuel) as [l R]; auto.
        { eapply serves_incl; [exact Hsv|]. intros x Hx. unfold table, server_table, child_entries.
          right. apply in_or_app. left. apply in_or_app. right. apply in_flat_map. exists c. split; auto. }
        { rewrite nreq_adv. clear - Hn. lia. }
        { pose proof (list_sum_In (need_node P) T c Hc) as Hls. unfold need in Hfuel. clear - Hls Hfuel H4. lia. }
        clear H5 H6 Hpg Hpg0 Hpc.
        rewrite R, (Hfilter _ Hcmp). cbn [lift run]. eexists; split; [reflexivity|].
        unfold balanced, nreq; simpl. rewrite !app_length. simpl. repeat split; auto; lia.
      + (* no such folder: 404, or an entry that is not a folder *)
        clear Hpg Hpg0.
        rewrite (get_json_cached E w key s tk Ht). unfold send. rewrite (Hw (nreq s) _ Hn).
        unfold healthy. cbn [r_url r_auth].
        assert (Hst : forall x : res (list fmeta), exists s', (x, open_close (log (false, key) s)) = (x, s')
                   /\ tok s' = Some tk /\ balanced s s' /\ nreq s <= nreq s').
        { intro x. eexists; split; [reflexivity|]. unfold balanced, nreq; simpl. rewrite app_length. simpl.
          repeat split; auto; lia. }
        destruct (str_eqb key (token_url E)).
        { change (is_2xx (Some 200%Z)) with true. cbv iota. cbn [token_obj o_folder run filter]. apply Hst. }
        rewrite str_eqb_refl.
        destruct (assoc key table) as [o|] eqn:Ha.
        * change (is_2xx (Some 200%Z)) with true. cbv iota.
          destruct (o_folder o) eqn:Hfo.
          { exfalso. apply assoc_In in Ha. destruct (table_folder_entries key o Ha Hfo) as [ic Hic].
            apply assoc_None_keys in Hres. apply Hres. apply in_map_iff. exists (key, ic). auto. }
          cbn [run filter]. apply Hst.
        * cbn [is_404]. change (Z.eqb 404 404) with true. cbv iota. cbn [run filter]. apply Hst.
    - (* "" : the whole drive *)
      rewrite run_bind.
      destruct (walk_any E site drive P Hb None T [] w s tk n0 fuel) as [l R]; auto.
      { eapply serves_incl; [exact Hsv|]. intros x Hx. unfold table, server_table, child_entries. right.
        apply in_or_app. left. exact Hx. }
      clear Hpg Hpg0.
      rewrite R, (Hfilter _ Hcmp). cbn [lift run]. eexists; split; [reflexivity|].
      unfold balanced, nreq; simpl. rewrite !app_length. repeat split; auto; lia.
  Qed.

  Lemma over_folders_ok : forall f l w n0 s fuel,
    healthy_from w n0 E tk table -> n0 <= nreq s -> tok s = Some tk -> need P None T <= fuel ->
    forallb (comparable E f) (flat_map (spec_target E site drive T) l) = true ->
    exists s', run E w (over_folders E fuel site f drive l) s
               = (Ok (flat_map (fun p => filter (spec_matches E f) (spec_target E site drive T p)) l), s')
               /\ balanced s s'.
  Proof.
    intros f l. induction l as [|p l IH]; intros w n0 s fuel Hw Hn Ht Hfuel Hcmp.
    - exists s. split; [reflexivity | unfold balanced; lia].
    - cbn [flat_map] in Hcmp. rewrite forallb_app in Hcmp. apply andb_true_iff in Hcmp as [Hc1 Hc2].
      cbn [over_folders]. rewrite run_bind.
      destruct (target_ok f p w n0 s fuel Hw Hn Ht Hfuel Hc1) as (s1 & R1 & Ht1 & Hb1 & Hn1).
      rewrite R1. rewrite run_bind.
      destruct (IH w n0 s1 fuel Hw) as (s2 & R2 & Hb2); auto; [lia|].
      rewrite R2. cbn [run flat_map]. exists s2. split; [reflexivity | unfold balanced in *; lia].
  Qed.

  Lemma filtered_paths_ok : forall f w n0 s fuel,
    healthy_from w n0 E tk table -> n0 <= nreq s -> cache_ok tk site s -> need P None T <= fuel ->
    folder_paths f <> [] ->
    forallb (comparable E f) (flat_map (spec_target E site drive T) (folder_paths f)) = true ->
    exists s', run E w (list_files_filtered E fuel f drive) s
               = (Ok (flat_map (fun p => filter (spec_matches E f) (spec_target E site drive T p)) (folder_paths f)), s')
               /\ balanced s s'.
  Proof.
    intros f w n0 s fuel Hw Hn Hc Hfuel Hne Hcmp.
    unfold list_files_filtered. rewrite run_bind.
    destruct (site_id_ok w n0 s Hw Hn Hc) as (s1 & R1 & Ht1 & _ & Hb1 & Hn1). rewrite R1.
    destruct (folder_paths f) as [|p l] eqn:Hfp; [congruence|]. rewrite <- Hfp in *.
    destruct (over_folders_ok f (folder_paths f) w n0 s1 fuel Hw) as (s2 & R2 & Hb2); auto; [lia|].
    exists s2. split; [exact R2 | unfold balanced in *; lia].
  Qed.
End Paths.
