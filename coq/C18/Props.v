From S2T Require Import Lib.PyStr C18.Model C18.Proofs.
