(* C18 — property theorems about the model of sharepoint_io/client.py.  Only statements closed by `exact`,
   each followed by Print Assumptions.  Quantification: every env (oracles str.lower, fnmatch, fromisoformat,
   quote; constants), every library tree T, every paging P (arbitrary partition of every folder's children
   into pages, server-chosen nextLinks), every start state, every sufficient fuel; no size bound. *)
From Coq Require Import ZArith List Bool Lia.
From S2T Require Import Lib.PyStr C18.Model C18.Proofs C18.ProofsPaths.
Local Open Scope nat_scope.

(* _walk_drive_items over ANY folder of ANY library: whenever the world serves the folder's sub-table
   (its pages and, recursively, its sub-folders' pages) the walk returns exactly the reference listing
   (every file once, with its parent path, nothing else, in order), all requests succeed, and
   OutOfFuel is not returned for any fuel >= need.  Any drive, any folder id, any parent path. *)
Theorem C18_walk_exact :
  forall (E : env) (site : str) (drive : option str) (P : paging) (oid : option str) (ch : list node)
         (path : str) (w : world) (s : st) (t : str) (n0 fuel : nat),
    nonempty (base E) = true ->
    serves w n0 t (folder_entries E site drive P oid ch ++ flat_map (node_entries E site drive P) ch) ->
    cuts_ok (P oid) = true -> forallb ids_ok ch = true -> forallb (links_ok P) ch = true ->
    nodup_str_pre (children_url E site drive oid :: map snd (P oid)) = true ->
    forallb (pages_ok E site drive P) ch = true ->
    n0 <= nreq s -> tok s = Some t -> need P oid ch <= fuel ->
    exists l, run E w (walk E fuel site drive oid path) s = (Ok (spec_files E path ch), adv s (api l)).
Proof. intros E site drive P oid ch path w s t n0 fuel Hb. exact (walk_any E site drive P Hb oid ch path w s t n0 fuel). Qed.
Print Assumptions C18_walk_exact.

(* list_all_files against a healthy endpoint, from every cache state a client can be in (nothing cached,
   token cached, token and site id cached): the complete reference listing; afterwards both caches hold
   the server's values and every response opened was closed *)
Theorem C18_list_all_files_exact :
  forall (E : env) (tk site : str) (P : paging) (T : list node) (w : world) (n0 : nat) (s : st) (fuel : nat),
    server_wf E site None P T = true -> nonempty tk = true ->
    healthy_from w n0 E tk (server_table E site None P T) -> n0 <= nreq s -> cache_ok tk site s ->
    need P None T <= fuel ->
    exists s', run E w (list_all_files E fuel) s = (Ok (spec_files E [] T), s')
               /\ tok s' = Some tk /\ sid s' = Some site /\ balanced s s' /\ nreq s <= nreq s'.
Proof. intros E tk site P T w n0 s fuel Hwf Htk. exact (list_all_ok E tk site P T Hwf Htk w n0 s fuel). Qed.
Print Assumptions C18_list_all_files_exact.

(* list_files_filtered (whole drive): exactly the files of the reference listing that satisfy the
   declarative predicate spec_matches, in order — provided no timestamp/bound pair mixes naive and aware
   datetimes (otherwise Python raises TypeError, which the model reproduces) *)
Theorem C18_filtered_is_filter_of_walk :
  forall (E : env) (tk site : str) (P : paging) (T : list node) (w : world) (n0 : nat) (s : st) (fuel : nat)
         (f : ffilter),
    server_wf E site None P T = true -> nonempty tk = true ->
    healthy_from w n0 E tk (server_table E site None P T) -> n0 <= nreq s -> cache_ok tk site s ->
    need P None T <= fuel -> folder_paths f = [] ->
    forallb (comparable E f) (spec_files E [] T) = true ->
    exists s', run E w (list_files_filtered E fuel f None) s
               = (Ok (filter (spec_matches E f) (spec_files E [] T)), s') /\ balanced s s'.
Proof.
  intros E tk site P T w n0 s fuel f Hwf Htk Hw Hn Hc Hf Hp Hcmp.
  destruct (list_all_ok E tk site P T Hwf Htk w n0 s fuel Hw Hn Hc Hf) as (s' & R & _ & _ & Hb & _).
  exists s'. rewrite (filtered_as_all E w fuel f s Hp), R.
  rewrite (filter_matches_filter E f (spec_matches E f)); [auto|].
  intros m Hm. apply matches_spec. rewrite forallb_forall in Hcmp. exact (Hcmp m Hm).
Qed.
Print Assumptions C18_filtered_is_filter_of_walk.

(* list_files_filtered restricted by FileFilter.folder_paths (any drive): for each entry, in order, the folder is
   looked up by path (url = root:/quote(strip(p))); an unknown path (404) or a path that is not a folder
   contributes nothing; otherwise the sub-tree of THAT folder is walked and filtered, parent paths starting at
   the entry as given (unquoted); "" designates the whole drive (spec_target) *)
Theorem C18_filtered_by_folder_paths :
  forall (E : env) (tk site : str) (drive : option str) (P : paging) (T : list node) (w : world) (n0 : nat)
         (s : st) (fuel : nat) (f : ffilter),
    server_wf E site drive P T = true -> nonempty tk = true ->
    healthy_from w n0 E tk (server_table E site drive P T) -> n0 <= nreq s -> cache_ok tk site s ->
    need P None T <= fuel -> folder_paths f <> [] ->
    forallb (comparable E f) (flat_map (spec_target E site drive T) (folder_paths f)) = true ->
    exists s', run E w (list_files_filtered E fuel f drive) s
               = (Ok (flat_map (fun p => filter (spec_matches E f) (spec_target E site drive T p)) (folder_paths f)), s')
               /\ balanced s s'.
Proof.
  intros E tk site drive P T w n0 s fuel f Hwf Htk.
  exact (filtered_paths_ok E site drive P tk T Hwf Htk f w n0 s fuel).
Qed.
Print Assumptions C18_filtered_by_folder_paths.

(* FileFilter.matches = created in [after, before) and modified in [after, before) and name ends with one of
   the extensions after lower-casing both and one pattern matches the FULL path *)
Theorem C18_matches_spec :
  forall (E : env) (f : ffilter) (m : fmeta),
    comparable E f m = true ->
    matches E f m = Ok (range_spec E (created_after f) (created_before f) (m_created m)
                        && range_spec E (modified_after f) (modified_before f) (m_modified m)
                        && (match extensions f with
                            | [] => true
                            | exts => existsb (fun e => endswith (lower E (m_name m)) (lower E e)) exts
                            end)
                        && (match path_patterns f with
                            | [] => true
                            | pats => existsb (fun p => glob E (full_path m) p) pats
                            end)).
Proof. exact matches_spec. Qed.
Print Assumptions C18_matches_spec.

(* inclusive-after, exclusive-before: a timestamp equal to the bound passes `after` and fails `before` *)
Theorem C18_bounds_inclusive_exclusive :
  forall d x : dt,
    (dt_cmp d x = Some Eq -> dt_ge d x = true /\ dt_lt d x = false) /\
    (dt_cmp d x = Some Gt -> dt_ge d x = true /\ dt_lt d x = false) /\
    (dt_cmp d x = Some Lt -> dt_ge d x = false /\ dt_lt d x = true).
Proof. exact bounds_meaning. Qed.
Print Assumptions C18_bounds_inclusive_exclusive.

(* comparing the timestamp truncated to microseconds (what the repaired _parse_iso_datetime hands on) with
   microsecond bounds gives the same answers as comparing the exact instant *)
Theorem C18_floor_preserves_bounds :
  forall x u b : Z, (0 < u)%Z ->
    ((b <=? x / u) = (b * u <=? x))%Z /\ ((x / u <? b) = (x <? b * u))%Z.
Proof. exact floor_preserves_bounds. Qed.
Print Assumptions C18_floor_preserves_bounds.

(* fault containment: for EVERY request index k0 of the healthy run and EVERY fault kind, a fresh client's
   list_all_files raises the client's own error for exactly that request (status and url of request k0;
   SharePointAuthError for an unusable token body), every opened response is closed, the caches hold
   nothing or the values of successful responses, and the run stopped at that request *)
Theorem C18_fault_contained :
  forall (E : env) (tk site : str) (P : paging) (T : list node) (fuel : nat),
    server_wf E site None P T = true -> nonempty tk = true -> need P None T <= fuel ->
    let wH := healthy E tk (server_table E site None P T) in
    exists sH, run E wH (list_all_files E fuel) st0 = (Ok (spec_files E [] T), sH) /\
      forall (k0 : nat) (f : fault), fault_ok f = true -> k0 < nreq sH ->
        exists it u s',
          nth_error (urls sH) k0 = Some (it, u)
          /\ run E (faulty wH k0 (resp_of_fault f)) (list_all_files E fuel) st0 = (Raise (err_of it u f), s')
          /\ opened s' = closed s' /\ cache_ok tk site s' /\ nreq s' = S k0.
Proof.
  intros E tk site P T fuel Hwf Htk Hf wH.
  destruct (healthy_run E tk site P T Hwf Htk fuel Hf) as [l R].
  eexists. split; [exact R|]. intros k0 f Hok Hk.
  exact (fault_all E tk site P T Hwf Htk fuel k0 f l Hf Hok R Hk).
Qed.
Print Assumptions C18_fault_contained.

(* retry: after such a failure, calling list_all_files again on the same client (transport healthy from
   then on) returns the complete listing and leaves no response open *)
Theorem C18_retry_complete :
  forall (E : env) (tk site : str) (P : paging) (T : list node) (fuel k0 : nat) (f : fault) (e : err) (s' : st),
    server_wf E site None P T = true -> nonempty tk = true -> need P None T <= fuel ->
    let wF := faulty (healthy E tk (server_table E site None P T)) k0 (resp_of_fault f) in
    run E wF (list_all_files E fuel) st0 = (Raise e, s') -> cache_ok tk site s' -> S k0 <= nreq s' ->
    exists s'', run E wF (list_all_files E fuel) s' = (Ok (spec_files E [] T), s'') /\ balanced s' s''.
Proof.
  intros E tk site P T fuel k0 f e s' Hwf Htk Hf wF _ Hc Hn.
  exact (retry_ok E tk site P T Hwf Htk fuel k0 (resp_of_fault f) s' Hf Hc Hn).
Qed.
Print Assumptions C18_retry_complete.

(* every response opened is closed: for every program over _get_json, EVERY world (any fault sequence, any
   number of faults) and every start state, opened - closed is unchanged by the run *)
Theorem C18_responses_closed_always :
  forall (A : Type) (E : env) (w : world) (p : prog A) (s : st),
    opened s = closed s -> opened (snd (run E w p s)) = closed (snd (run E w p s)).
Proof.
  intros A E w p s H. destruct (run_facts E w p s) as (_ & Hb). unfold balanced in Hb. lia.
Qed.
Print Assumptions C18_responses_closed_always.

(* HISTORICAL, about the PRE-FIX definitions (list_items_paginated_v0 / get_folders_v0 = the loops before /repo
   commit c964930, without the seen-URL guard): if the page served at u names u as its own next page, then for
   EVERY fuel the loop performs exactly `fuel` further requests and is still not finished — the old Python loop
   never ended and never raised.  Finding nextlink-cycle-no-guard, fixed by c964930. *)
Theorem C18_pagination_termination_refuted_v0 :
  forall (E : env) (path u : str) (items : list item) (fuel : nat) (w : world) (s : st) (t : str) (n0 : nat),
    serves w n0 t [(u, page_obj items (Some u))] -> nonempty u = true -> n0 <= nreq s -> tok s = Some t ->
    (exists s', run E w (list_items_paginated_v0 E fuel (Some u) path) s = (Raise OutOfFuel, s')
                /\ nreq s' = nreq s + fuel /\ opened s' + closed s = closed s' + opened s)
    /\ (exists s', run E w (get_folders_v0 fuel (Some u)) s = (Raise OutOfFuel, s') /\ nreq s' = nreq s + fuel).
Proof.
  intros E path u items fuel w s t n0 Hs Hu Hn Ht. split.
  - exact (paginate_self_loop E path u items fuel w s t n0 Hs Hu Hn Ht).
  - exact (folders_self_loop u items E fuel w s t n0 Hs Hu Hn Ht).
Qed.
Print Assumptions C18_pagination_termination_refuted_v0.

(* TERMINATION of the guarded loops (today's code) against ANY server, no server_wf: whatever the transport
   answers (any world: faults, cycles, repeated or dangling nextLinks), if the nextLinks it ever delivers lie in
   a finite list U — and the start url too — then both listing loops finish (return or raise the client's error)
   within |U| + 1 iterations from an empty seen set: OutOfFuel is never the result for any fuel > |U|.  More
   precisely the measure is the number of urls of U not yet followed (unseen U seen). *)
Theorem C18_pagination_terminates :
  forall (E : env) (path : str) (w : world) (U : list str) (fuel : nat) (seen : list str) (cur : option str) (s : st),
    links_in w U -> (truthy cur = true -> In (dflt cur) U) -> unseen U seen < fuel ->
    fst (run E w (list_items_paginated E fuel seen cur path) s) <> Raise OutOfFuel
    /\ fst (run E w (get_folders fuel seen cur) s) <> Raise OutOfFuel
    /\ unseen U seen <= List.length U.
Proof.
  intros E path w U fuel seen cur s HL Hc Hm. split; [|split].
  - exact (paginate_terminates E path w U HL fuel seen cur s Hc Hm).
  - exact (folders_terminates E w U HL fuel seen cur s Hc Hm).
  - exact (unseen_bound U seen).
Qed.
Print Assumptions C18_pagination_terminates.

(* what the guard does: a page that names itself as next page makes the listing raise the client's request error
   (status None) carrying that url, after exactly one request *)
Theorem C18_repeated_link_raises :
  forall (E : env) (path u : str) (items : list item) (w : world) (s : st) (t : str) (n0 fuel : nat),
    serves w n0 t [(u, page_obj items (Some u))] -> nonempty u = true -> n0 <= nreq s -> tok s = Some t -> 2 <= fuel ->
    run E w (list_items_paginated E fuel [] (Some u) path) s = (Raise (RequestError None u), adv s [(false, u)]).
Proof. intros E path u items. exact (paginate_self_loop_guarded E path u items). Qed.
Print Assumptions C18_repeated_link_raises.

(* list_files_created_since / list_files_modified_since (whole drive): exactly the files whose created /
   modified timestamp is >= since (inclusive; the OTHER timestamp is not consulted) and whose name ends with one
   of the extensions, in listing order *)
Theorem C18_files_since_spec :
  forall (E : env) (tk site : str) (P : paging) (T : list node) (w : world) (n0 : nat) (s : st) (fuel : nat)
         (created : bool) (since : dt) (exts : list str),
    server_wf E site None P T = true -> nonempty tk = true ->
    healthy_from w n0 E tk (server_table E site None P T) -> n0 <= nreq s -> cache_ok tk site s ->
    need P None T <= fuel ->
    forallb (comparable E (since_filter created since [] exts)) (spec_files E [] T) = true ->
    exists s', run E w (list_files_since E fuel created since [] exts None) s
               = (Ok (filter (since_pred E created since exts) (spec_files E [] T)), s') /\ balanced s s'.
Proof.
  intros E tk site P T w n0 s fuel created since exts Hwf Htk Hw Hn Hc Hf Hcmp.
  destruct (C18_filtered_is_filter_of_walk E tk site P T w n0 s fuel (since_filter created since [] exts)
              Hwf Htk Hw Hn Hc Hf eq_refl Hcmp) as (s' & R & Hb).
  exists s'. split; [|exact Hb]. unfold list_files_since. rewrite R.
  rewrite (filter_ext _ _ (since_matches E created since [] exts)). reflexivity.
Qed.
Print Assumptions C18_files_since_spec.
