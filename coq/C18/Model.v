(* C18 — executable model of sharepoint2text/sharepoint_io/client.py (definitions only).

   Layers
     1. JSON view of what the client inspects (items, objects), metadata records
     2. transport: scripted world  nat(request index) -> request -> response ; _send, fetch_access_token,
        _ensure_token/_get_headers, _get_json as state transformers over the client state
        (request log, opened/closed response counters, _access_token and _site_id caches)
     3. the listing logic above _get_json as a small interaction tree `prog` (ApiGet = one _get_json call),
        interpreted by `run`;  _list_items_paginated, _get_folders_from_url, _walk_drive_items,
        get_site_id, list_all_files, _get_folder_by_path, _walk_and_filter, list_files_filtered
     4. FileFilter.matches and _parse_iso_datetime's string normalisation (as repaired by
        fixes/C18-subsecond-dates.patch)
     5. the simulated Graph server: library tree + arbitrary paging  ->  table url -> object,
        and the reference listing spec_files.
   Oracles (fields of `env`, universally quantified in the theorems, recorded in the correspondence):
   str.lower, fnmatch.fnmatch, datetime.fromisoformat, urllib.parse.quote(safe="/").               *)
From Coq Require Import ZArith List Bool Lia.
From S2T Require Export Lib.PyStr.
Local Open Scope nat_scope.

Definition SLASH : N := 47%N.
Definition DOT : N := 46%N.
Definition PLUS : N := 43%N.
Definition MINUS : N := 45%N.
Definition ZERO : N := 48%N.
Definition ZED : N := 90%N.

Definition nonempty (x : str) : bool := match x with [] => false | _ => true end.
Definition dflt (x : option str) : str := match x with Some v => v | None => [] end.
(* Python truthiness of an `str | None` *)
Definition truthy (x : option str) : bool := match x with Some v => nonempty v | None => false end.

(* ------------------------------------------------------------------ 1. JSON views, records *)
(* JSON value of a facet member ("folder" / "file") of a drive item.  What the client looks at:
   KEY PRESENCE decides (`"folder" in item`, `"file" in item`) — so {} , {"childCount": n}, null and even a
   non-object all count as "has the facet"; only file.mimeType is read from inside, and only when the value is
   an object *)
Inductive facet :=
| FcNull                                        (* "folder": null *)
| FcObj (mime : option str) (other_members : bool)   (* {} = FcObj None false ; {"hashes": ..} = FcObj None true *)
| FcOther.                                      (* true, 5, "x", [..] *)

Record fitem := {
  i_name : option str;        (* "name" *)
  i_id : option str;          (* "id" *)
  i_web : option str;         (* "webUrl" *)
  i_dl : option str;          (* "@microsoft.graph.downloadUrl" *)
  i_size : option Z;          (* "size" *)
  i_facet : facet;            (* value of the "file" member when this record describes a File node *)
  i_modified : option str;    (* "lastModifiedDateTime" *)
  i_created : option str;     (* "createdDateTime" *)
  i_fields : option (list (str * str))  (* listItem.fields (key, canonical value) or None if absent/not objects *)
}.

(* an element of "value": a JSON object seen through its members, or something else *)
Record ditem := {
  d_folder : option facet;    (* None = no "folder" key *)
  d_file : option facet;      (* None = no "file" key *)
  d_f : fitem                 (* the other members (name, id, ... are shared by files and folders) *)
}.
Inductive item :=
| IDict (d : ditem)
| INonDict.                                      (* array element that is not an object *)

Definition is_folder (d : ditem) : bool := match d_folder d with Some _ => true | None => false end.  (* "folder" in item *)
Definition is_file (d : ditem) : bool := match d_file d with Some _ => true | None => false end.      (* "file" in item *)

Record fmeta := {
  m_name : str; m_id : str; m_web : str; m_dl : option str; m_size : option Z; m_mime : option str;
  m_modified : option str; m_created : option str; m_parent : option str;
  m_custom : option (list (str * str))
}.

(* a JSON object as seen through the keys the client reads *)
Record obj := {
  o_value : list item;      (* data.get("value", []) *)
  o_next : option str;      (* data.get("@odata.nextLink") *)
  o_id : option str;        (* data.get("id") when it is a str *)
  o_token : option str;     (* data.get("access_token") *)
  o_folder : bool;          (* "folder" in data *)
  o_ok : bool               (* listing shape: "value" absent or a list, "@odata.nextLink" absent, null or a str
                               (checked by _get_page, fixes/C18-malformed-listing-body.patch) *)
}.

Inductive body := BObj (o : obj) | BBadJson | BNonObj | BBadUtf8.

Inductive resp :=
| RHttpError (code : Z)               (* request_func raises urllib.error.HTTPError *)
| RUrlError                           (* request_func raises urllib.error.URLError *)
| ROsError                            (* request_func raises another OSError / http.client.HTTPException
                                         (TimeoutError, ConnectionResetError, RemoteDisconnected) *)
| RReadError                          (* a response object is returned, its read() raises OSError / HTTPException *)
| ROk (status : option Z) (b : body). (* request_func returns a response object *)

Record req := { r_url : str; r_auth : option str }.   (* full_url, bearer token of the Authorization header *)
Definition world := nat -> req -> resp.

Inductive err :=
| RequestError (status : option Z) (url : str)   (* SharePointRequestError(status_code, url) *)
| AuthError                                      (* SharePointAuthError *)
| PyTypeError                                    (* naive/aware datetime comparison in FileFilter.matches *)
| OutOfFuel.                                     (* model artefact; theorems state it is never returned *)

Inductive res (A : Type) := Ok (a : A) | Raise (e : err).
Arguments Ok {A} a.
Arguments Raise {A} e.

(* datetime: local wall-clock microseconds and UTC offset in microseconds (None = naive) *)
Record dt := { dt_local : Z; dt_off : option Z }.

Record env := {
  lower : str -> str;                 (* str.lower *)
  glob : str -> str -> bool;          (* fnmatch.fnmatch(path, pattern) *)
  fromiso : str -> option dt;         (* datetime.fromisoformat, None = ValueError *)
  quote : str -> str;                 (* urllib.parse.quote(x, safe="/") *)
  sysf : list str;                    (* _SYSTEM_FIELDS *)
  base : str;                         (* _GRAPH_API_BASE *)
  token_url : str;                    (* _TOKEN_ENDPOINT_TEMPLATE.format(tenant_id=...) *)
  site_api_url : str                  (* {base}/sites/{hostname}:{site_path} *)
}.

(* ------------------------------------------------------------------ 2. transport and caches *)
(* request log entry: (is_token_request, url) *)
Record st := {
  urls : list (bool * str);
  opened : nat;             (* response objects obtained (incl. HTTPError objects) *)
  closed : nat;             (* close() calls on them *)
  tok : option str;         (* _access_token *)
  sid : option str          (* _site_id *)
}.
Definition st0 : st := {| urls := []; opened := 0; closed := 0; tok := None; sid := None |}.
Definition nreq (s : st) : nat := List.length (urls s).

Definition log (e : bool * str) (s : st) : st :=
  {| urls := urls s ++ [e]; opened := opened s; closed := closed s; tok := tok s; sid := sid s |}.
Definition open_close (s : st) : st :=
  {| urls := urls s; opened := S (opened s); closed := S (closed s); tok := tok s; sid := sid s |}.
Definition set_tok (t : str) (s : st) : st :=
  {| urls := urls s; opened := opened s; closed := closed s; tok := Some t; sid := sid s |}.
Definition set_sid (v : str) (s : st) : st :=
  {| urls := urls s; opened := opened s; closed := closed s; tok := tok s; sid := Some v |}.

Definition is_2xx (status : option Z) : bool :=
  match status with Some n => ((200 <=? n) && (n <? 300))%Z | None => false end.

(* _send: the HTTPError object is read and closed (repaired), a returned response is read and closed in
   `finally`, a non-2xx status is rejected after closing *)
Definition send (w : world) (is_tok : bool) (r : req) (s : st) : res body * st :=
  let s1 := log (is_tok, r_url r) s in
  match w (nreq s) r with
  | RHttpError code => (Raise (RequestError (Some code) (r_url r)), open_close s1)
  | RUrlError => (Raise (RequestError None (r_url r)), s1)
  | ROsError => (Raise (RequestError None (r_url r)), s1)
  | RReadError => (Raise (RequestError None (r_url r)), open_close s1)   (* closed in `finally` *)
  | ROk status b =>
      if is_2xx status then (Ok b, open_close s1)
      else (Raise (RequestError status (r_url r)), open_close s1)
  end.

(* fetch_access_token (repaired: undecodable / non-object bodies are SharePointAuthError) *)
Definition fetch_token (E : env) (w : world) (s : st) : res str * st :=
  match send w true {| r_url := token_url E; r_auth := None |} s with
  | (Raise e, s') => (Raise e, s')
  | (Ok (BObj o), s') =>
      if truthy (o_token o) then (Ok (dflt (o_token o)), set_tok (dflt (o_token o)) s')
      else (Raise AuthError, s')
  | (Ok _, s') => (Raise AuthError, s')
  end.

(* _ensure_token *)
Definition ensure_token (E : env) (w : world) (s : st) : res str * st :=
  match tok s with Some t => (Ok t, s) | None => fetch_token E w s end.

(* _get_json (repaired: a body that is valid JSON but not an object is a SharePointRequestError) *)
Definition get_json (E : env) (w : world) (url : str) (s : st) : res obj * st :=
  match ensure_token E w s with
  | (Raise e, s') => (Raise e, s')
  | (Ok t, s1) =>
      match send w false {| r_url := url; r_auth := Some t |} s1 with
      | (Raise e, s') => (Raise e, s')
      | (Ok (BObj o), s') => (Ok o, s')
      | (Ok _, s') => (Raise (RequestError None url), s')
      end
  end.

(* ------------------------------------------------------------------ 3. listing logic *)
Inductive prog (A : Type) : Type :=
| Ret (a : A)
| Fail (e : err)
| ApiGet (url : str) (k : obj -> prog A)              (* data = self._get_json(url) *)
| ApiGet404 (url : str) (k : option obj -> prog A)    (* same inside try/except status 404 -> None *)
| GetSid (k : option str -> prog A)
| SetSid (v : str) (p : prog A).
Arguments Ret {A} a.
Arguments Fail {A} e.
Arguments ApiGet {A} url k.
Arguments ApiGet404 {A} url k.
Arguments GetSid {A} k.
Arguments SetSid {A} v p.

(* `except SharePointRequestError as exc: if exc.status_code == 404` *)
Definition is_404 (e : err) : bool :=
  match e with RequestError (Some c) _ => Z.eqb c 404 | _ => false end.

Fixpoint run {A} (E : env) (w : world) (p : prog A) (s : st) : res A * st :=
  match p with
  | Ret a => (Ok a, s)
  | Fail e => (Raise e, s)
  | ApiGet u k =>
      match get_json E w u s with
      | (Ok o, s') => run E w (k o) s'
      | (Raise e, s') => (Raise e, s')
      end
  | ApiGet404 u k =>
      match get_json E w u s with
      | (Ok o, s') => run E w (k (Some o)) s'
      | (Raise e, s') => if is_404 e then run E w (k None) s' else (Raise e, s')
      end
  | GetSid k => run E w (k (sid s)) s
  | SetSid v p => run E w p (set_sid v s)
  end.

Fixpoint bind {A B} (p : prog A) (f : A -> prog B) : prog B :=
  match p with
  | Ret a => f a
  | Fail e => Fail e
  | ApiGet u k => ApiGet u (fun o => bind (k o) f)
  | ApiGet404 u k => ApiGet404 u (fun o => bind (k o) f)
  | GetSid k => GetSid (fun c => bind (k c) f)
  | SetSid v p => SetSid v (bind p f)
  end.

Definition join_path (parent name : str) : str :=
  if nonempty parent then parent ++ SLASH :: name else name.

Definition odata_prefix : str := s "@odata".

(* _extract_custom_fields + `custom_fields if custom_fields else None` *)
Definition custom_of (E : env) (f : option (list (str * str))) : option (list (str * str)) :=
  match f with
  | None => None
  | Some l =>
      match filter (fun kv => negb (mem_str (fst kv) (sysf E)) && negb (startswith (fst kv) odata_prefix)) l with
      | [] => None
      | c => Some c
      end
  end.

(* _parse_file_item *)
Definition mime_of (fc : option facet) : option str :=
  match fc with Some (FcObj m _) => m | _ => None end.   (* file_info.get("mimeType") if isinstance(file_info, dict) *)

Definition parse_file_item (E : env) (path : str) (d : ditem) : fmeta :=
  let f := d_f d in
  {| m_name := dflt (i_name f); m_id := dflt (i_id f); m_web := dflt (i_web f); m_dl := i_dl f;
     m_size := i_size f; m_mime := mime_of (d_file d); m_modified := i_modified f; m_created := i_created f;
     m_parent := if nonempty path then Some path else None;
     m_custom := custom_of E (i_fields f) |}.

(* the loop body of _list_items_paginated over one page *)
Definition files_of (E : env) (path : str) (items : list item) : list fmeta :=
  flat_map (fun it => match it with
                      | IDict d => if is_folder d then [] else if is_file d then [parse_file_item E path d] else []
                      | INonDict => []
                      end) items.

(* the loop body of _get_folders_from_url over one page *)
Definition folders_of (items : list item) : list (option str * option str) :=
  flat_map (fun it => match it with
                      | IDict d => if is_folder d then [(i_name (d_f d), i_id (d_f d))] else []
                      | INonDict => []
                      end) items.

(* _list_items_paginated: `seen_urls = set(); while current_url: if current_url in seen_urls: raise ...;
   seen_urls.add(current_url); items, next_url = self._get_page(current_url)` *)
Fixpoint list_items_paginated (E : env) (fuel : nat) (seen : list str) (cur : option str) (path : str)
  : prog (list fmeta) :=
  if truthy cur then
    if mem_str (dflt cur) seen then Fail (RequestError None (dflt cur))      (* Pagination loop: nextLink repeats *)
    else
    match fuel with
    | 0 => Fail OutOfFuel
    | S f => ApiGet (dflt cur) (fun o =>
               if o_ok o then
                 bind (list_items_paginated E f (dflt cur :: seen) (o_next o) path)
                      (fun r => Ret (files_of E path (o_value o) ++ r))
               else Fail (RequestError None (dflt cur)))
    end
  else Ret [].

(* _get_folders_from_url (same guard) *)
Fixpoint get_folders (fuel : nat) (seen : list str) (cur : option str) : prog (list (option str * option str)) :=
  if truthy cur then
    if mem_str (dflt cur) seen then Fail (RequestError None (dflt cur))
    else
    match fuel with
    | 0 => Fail OutOfFuel
    | S f => ApiGet (dflt cur) (fun o =>
               if o_ok o then bind (get_folders f (dflt cur :: seen) (o_next o)) (fun r => Ret (folders_of (o_value o) ++ r))
               else Fail (RequestError None (dflt cur)))
    end
  else Ret [].

(* _list_items_paginated_v0: `while current_url:` *)
Fixpoint list_items_paginated_v0 (E : env) (fuel : nat) (cur : option str) (path : str) : prog (list fmeta) :=
  if truthy cur then
    match fuel with
    | 0 => Fail OutOfFuel
    | S f => ApiGet (dflt cur) (fun o =>
               if o_ok o then
                 bind (list_items_paginated_v0 E f (o_next o) path) (fun r => Ret (files_of E path (o_value o) ++ r))
               else Fail (RequestError None (dflt cur)))
    end
  else Ret [].

(* _get_folders_v0_from_url *)
Fixpoint get_folders_v0 (fuel : nat) (cur : option str) : prog (list (option str * option str)) :=
  if truthy cur then
    match fuel with
    | 0 => Fail OutOfFuel
    | S f => ApiGet (dflt cur) (fun o =>
               if o_ok o then bind (get_folders_v0 f (o_next o)) (fun r => Ret (folders_of (o_value o) ++ r))
               else Fail (RequestError None (dflt cur)))
    end
  else Ret [].

Definition expand_suffix : str := s "?$expand=listItem($expand=fields)".

(* _build_children_url *)
Definition children_url (E : env) (site : str) (drive : option str) (oid : option str) : str :=
  match drive, oid with
  | None, None => base E ++ s "/sites/" ++ site ++ s "/drive/root/children" ++ expand_suffix
  | None, Some i => base E ++ s "/sites/" ++ site ++ s "/drive/items/" ++ i ++ s "/children" ++ expand_suffix
  | Some d, None => base E ++ s "/sites/" ++ site ++ s "/drives/" ++ d ++ s "/root/children" ++ expand_suffix
  | Some d, Some i =>
      base E ++ s "/sites/" ++ site ++ s "/drives/" ++ d ++ s "/items/" ++ i ++ s "/children" ++ expand_suffix
  end.

(* the `for item in self._get_folders_from_url(url)` loop of _walk_drive_items *)
Fixpoint walk_folders (rec : option str -> str -> prog (list fmeta)) (path : str)
         (l : list (option str * option str)) : prog (list fmeta) :=
  match l with
  | [] => Ret []
  | (nm, i) :: r =>
      let np := join_path path (dflt nm) in
      if truthy i then
        bind (rec i np) (fun a => bind (walk_folders rec path r) (fun b => Ret (a ++ b)))
      else walk_folders rec path r
  end.

(* _walk_drive_items *)
Fixpoint walk (E : env) (fuel : nat) (site : str) (drive : option str) (oid : option str) (path : str)
  : prog (list fmeta) :=
  match fuel with
  | 0 => Fail OutOfFuel
  | S f =>
      let url := children_url E site drive oid in
      bind (list_items_paginated E f [] (Some url) path) (fun files =>
      bind (get_folders f [] (Some url)) (fun folders =>
      bind (walk_folders (walk E f site drive) path folders) (fun sub => Ret (files ++ sub))))
  end.

(* get_site_id *)
Definition get_site_id (E : env) : prog str :=
  GetSid (fun c =>
    match c with
    | Some v => Ret v
    | None => ApiGet (site_api_url E) (fun o =>
                match o_id o with
                | Some v => SetSid v (Ret v)
                | None => Fail (RequestError None (site_api_url E))
                end)
    end).

(* list_all_files *)
Definition list_all_files (E : env) (fuel : nat) : prog (list fmeta) :=
  bind (get_site_id E) (fun site => walk E fuel site None None []).

(* ------------------------------------------------------------------ 4. FileFilter *)
Record ffilter := {
  created_after : option dt; created_before : option dt;
  modified_after : option dt; modified_before : option dt;
  folder_paths : list str; path_patterns : list str; extensions : list str
}.

Definition not_plus (c : N) : bool := negb (N.eqb c PLUS).
Definition not_minus (c : N) : bool := negb (N.eqb c MINUS).
Definition not_dot (c : N) : bool := negb (N.eqb c DOT).
Definition has_char (c : N) (x : str) : bool := existsb (N.eqb c) x.

(* x.ljust(6, "0") *)
Definition ljust6 (x : str) : str := x ++ repeat ZERO (6 - List.length x).

(* the string _parse_iso_datetime hands to datetime.fromisoformat (repaired version: the fraction is
   cut/padded to six digits instead of being dropped) *)
Definition iso_norm (x : str) : str :=
  let x1 := if endswith x [ZED] then removelast x ++ s "+00:00" else x in
  if has_char DOT x1 then
    let b := takeWhile not_dot x1 in
    let rest := tl (dropWhile not_dot x1) in            (* dt_string.split(".", 1) *)
    let '(fraction, tz) :=
      if has_char PLUS rest then (takeWhile not_plus rest, dropWhile not_plus rest)
      else if has_char MINUS rest then (takeWhile not_minus rest, dropWhile not_minus rest)
      else (rest, []) in
    b ++ DOT :: ljust6 (firstn 6 fraction) ++ tz
  else x1.

Definition parse_iso (E : env) (x : str) : option dt := fromiso E (iso_norm x).

(* a < b / a >= b on datetimes: None = TypeError (naive vs aware) *)
Definition dt_cmp (a b : dt) : option comparison :=
  match dt_off a, dt_off b with
  | Some x, Some y => Some ((dt_local a - x) ?= (dt_local b - y))%Z
  | None, None => Some (dt_local a ?= dt_local b)%Z
  | _, _ => None
  end.

(* one of the two date blocks of FileFilter.matches; Ok true = falls through to the next check *)
Definition check_range (E : env) (after before : option dt) (field : option str) : res bool :=
  match after, before with
  | None, None => Ok true
  | _, _ =>
      if truthy field then
        match parse_iso E (dflt field) with
        | None => Ok false
        | Some d =>
            let r1 := match after with
                      | Some a => match dt_cmp d a with
                                  | None => Raise PyTypeError
                                  | Some Lt => Ok false
                                  | Some _ => Ok true
                                  end
                      | None => Ok true
                      end in
            match r1 with
            | Ok true =>
                match before with
                | Some b => match dt_cmp d b with
                            | None => Raise PyTypeError
                            | Some Lt => Ok true
                            | Some _ => Ok false
                            end
                | None => Ok true
                end
            | r => r
            end
        end
      else Ok false
  end.

(* SharePointFileMetadata.get_full_path *)
Definition full_path (m : fmeta) : str :=
  if truthy (m_parent m) then dflt (m_parent m) ++ SLASH :: m_name m else m_name m.

Definition ext_ok (E : env) (f : ffilter) (m : fmeta) : bool :=
  match extensions f with
  | [] => true
  | exts => existsb (fun e => endswith (lower E (m_name m)) (lower E e)) exts
  end.

Definition pat_ok (E : env) (f : ffilter) (m : fmeta) : bool :=
  match path_patterns f with
  | [] => true
  | pats => existsb (fun p => glob E (full_path m) p) pats
  end.

(* FileFilter.matches *)
Definition matches (E : env) (f : ffilter) (m : fmeta) : res bool :=
  match check_range E (created_after f) (created_before f) (m_created m) with
  | Ok true =>
      match check_range E (modified_after f) (modified_before f) (m_modified m) with
      | Ok true => Ok (ext_ok E f m && pat_ok E f m)
      | r => r
      end
  | r => r
  end.

(* `for file_meta in ...: if file_filter.matches(file_meta): yield` collected by list() *)
Fixpoint filter_matches (E : env) (f : ffilter) (l : list fmeta) : res (list fmeta) :=
  match l with
  | [] => Ok []
  | m :: r =>
      match matches E f m with
      | Raise e => Raise e
      | Ok b => match filter_matches E f r with
                | Raise e => Raise e
                | Ok r' => Ok (if b then m :: r' else r')
                end
      end
  end.

Definition lift {A} (r : res A) : prog A := match r with Ok a => Ret a | Raise e => Fail e end.

Definition not_slash (c : N) : bool := negb (N.eqb c SLASH).
(* x.strip("/") *)
Definition strip_slash (x : str) : str := rev (dropWhile (N.eqb SLASH) (rev (dropWhile (N.eqb SLASH) x))).

(* url of _get_folder_by_path *)
Definition path_url (E : env) (site : str) (drive : option str) (p : str) : str :=
  match drive with
  | None => base E ++ s "/sites/" ++ site ++ s "/drive/root:/" ++ quote E (strip_slash p)
  | Some d => base E ++ s "/sites/" ++ site ++ s "/drives/" ++ d ++ s "/root:/" ++ quote E (strip_slash p)
  end.

(* _walk_and_filter *)
Definition walk_and_filter (E : env) (fuel : nat) (site : str) (f : ffilter) (folder : option str)
           (drive : option str) : prog (list fmeta) :=
  if truthy folder then
    ApiGet404 (path_url E site drive (dflt folder)) (fun r =>
      match r with
      | Some o =>
          if o_folder o then
            bind (walk E fuel site drive (o_id o) (dflt folder)) (fun l => lift (filter_matches E f l))
          else Ret []
      | None => Ret []
      end)
  else bind (walk E fuel site drive None []) (fun l => lift (filter_matches E f l)).

Fixpoint over_folders (E : env) (fuel : nat) (site : str) (f : ffilter) (drive : option str) (l : list str)
  : prog (list fmeta) :=
  match l with
  | [] => Ret []
  | p :: r => bind (walk_and_filter E fuel site f (Some p) drive) (fun a =>
              bind (over_folders E fuel site f drive r) (fun b => Ret (a ++ b)))
  end.

(* list(client.list_files_filtered(file_filter, drive_id=drive)) *)
Definition list_files_filtered (E : env) (fuel : nat) (f : ffilter) (drive : option str) : prog (list fmeta) :=
  bind (get_site_id E) (fun site =>
    match folder_paths f with
    | [] => walk_and_filter E fuel site f None drive
    | l => over_folders E fuel site f drive l
    end).

(* list_files_created_since / list_files_modified_since: FileFilter(created_after|modified_after = since,
   folder_paths = folder_paths or [], extensions = extensions or []) handed to list_files_filtered *)
Definition since_filter (created : bool) (since : dt) (fps exts : list str) : ffilter :=
  {| created_after := if created then Some since else None; created_before := None;
     modified_after := if created then None else Some since; modified_before := None;
     folder_paths := fps; path_patterns := []; extensions := exts |}.
Definition list_files_since (E : env) (fuel : nat) (created : bool) (since : dt) (fps exts : list str)
           (drive : option str) : prog (list fmeta) :=
  list_files_filtered E fuel (since_filter created since fps exts) drive.

(* ------------------------------------------------------------------ 5. simulated library and server *)
Inductive node :=
| File (f : fitem)
| Folder (name : option str) (id : option str) (fc : facet * option facet) (ch : list node)
    (* fc = (value of the "folder" member, value of an additional "file" member if any) *)
| JunkDict
| NonDict.

Definition named (nm i : option str) : fitem :=
  {| i_name := nm; i_id := i; i_web := None; i_dl := None; i_size := None; i_facet := FcNull; i_modified := None;
     i_created := None; i_fields := None |}.

Definition item_of (n : node) : item :=
  match n with
  | File f => IDict {| d_folder := None; d_file := Some (i_facet f); d_f := f |}
  | Folder nm i fc _ => IDict {| d_folder := Some (fst fc); d_file := snd fc; d_f := named nm i |}
  | JunkDict => IDict {| d_folder := None; d_file := None; d_f := named (Some (s "pkg")) (Some (s "junk")) |}
  | NonDict => INonDict
  end.

(* paging of a folder's child list: cuts [(n1, link1); (n2, link2); ...] = first page n1 items and
   nextLink link1, the page served at link1 has the next n2 items and nextLink link2, ..., the last
   page has the remaining items and no nextLink.  Every partition into >= 1 pages (incl. empty pages,
   any page size) is such a list; the nextLink urls are chosen by the server. *)
Definition paging := option str -> list (nat * str).

Definition page_obj (items : list item) (next : option str) : obj :=
  {| o_value := items; o_next := next; o_id := None; o_token := None; o_folder := false; o_ok := true |}.

Fixpoint pages (url : str) (cuts : list (nat * str)) (items : list item) : list (str * obj) :=
  match cuts with
  | [] => [(url, page_obj items None)]
  | (n, link) :: r => (url, page_obj (firstn n items) (Some link)) :: pages link r (skipn n items)
  end.

Section Server.
  Variable E : env.
  Variable site : str.
  Variable drive : option str.
  Variable P : paging.

  Definition folder_entries (oid : option str) (ch : list node) : list (str * obj) :=
    pages (children_url E site drive oid) (P oid) (map item_of ch).

  Fixpoint node_entries (n : node) : list (str * obj) :=
    match n with
    | Folder _ i _ ch => folder_entries i ch ++ flat_map node_entries ch
    | _ => []
    end.

  (* children listings of the whole library (root + every folder) *)
  Definition child_entries (T : list node) : list (str * obj) :=
    folder_entries None T ++ flat_map node_entries T.

  Definition item_obj (i : option str) (is_folder : bool) : obj :=
    {| o_value := []; o_next := None; o_id := i; o_token := None; o_folder := is_folder; o_ok := true |}.

  (* items addressable by path (root:/a/b): folders and files that have a name *)
  Fixpoint node_path_entries (path : str) (n : node) : list (str * obj) :=
    match n with
    | Folder (Some nm) i _ ch =>
        let p := join_path path nm in
        (path_url E site drive p, item_obj i true) :: flat_map (node_path_entries p) ch
    | File f =>
        match i_name f with
        | Some nm => [(path_url E site drive (join_path path nm), item_obj (i_id f) false)]
        | None => []
        end
    | _ => []
    end.

  Definition path_entries (T : list node) : list (str * obj) := flat_map (node_path_entries []) T.
End Server.

Definition token_obj (t : str) : obj :=
  {| o_value := []; o_next := None; o_id := None; o_token := Some t; o_folder := false; o_ok := true |}.
Definition site_obj (i : str) : obj :=
  {| o_value := []; o_next := None; o_id := Some i; o_token := None; o_folder := false; o_ok := true |}.

(* a healthy Graph endpoint over a table url -> object: the token endpoint issues `tk`, every other
   url needs that bearer token (401 otherwise) and is served from the table (404 when unknown) *)
Definition healthy (E : env) (tk : str) (table : list (str * obj)) : world := fun _ r =>
  if str_eqb (r_url r) (token_url E) then ROk (Some 200%Z) (BObj (token_obj tk))
  else match r_auth r with
       | Some t => if str_eqb t tk then
                     match assoc (r_url r) table with
                     | Some o => ROk (Some 200%Z) (BObj o)
                     | None => RHttpError 404
                     end
                   else RHttpError 401
       | None => RHttpError 401
       end.

(* the same endpoint with the response to request number k0 replaced *)
Definition faulty (w : world) (k0 : nat) (fr : resp) : world := fun k r => if Nat.eqb k k0 then fr else w k r.

Definition server_table (E : env) (site : str) (drive : option str) (P : paging) (T : list node) : list (str * obj) :=
  (site_api_url E, site_obj site) :: child_entries E site drive P T ++ path_entries E site drive T.

(* reference listing: files of a folder in order, then its sub-folders depth-first, each file once with
   the path of its parent *)
Fixpoint spec_node (E : env) (path : str) (n : node) : list fmeta :=
  match n with
  | Folder nm _ _ ch =>
      let p := join_path path (dflt nm) in
      files_of E p (map item_of ch) ++ flat_map (spec_node E p) ch
  | _ => []
  end.
Definition spec_files (E : env) (path : str) (ch : list node) : list fmeta :=
  files_of E path (map item_of ch) ++ flat_map (spec_node E path) ch.

(* folders addressable by path: (url of the root:/path lookup, (folder id, children)) *)
Fixpoint path_folders (E : env) (site : str) (drive : option str) (path : str) (n : node)
  : list (str * (option str * list node)) :=
  match n with
  | Folder (Some nm) i _ ch =>
      let p := join_path path nm in
      (path_url E site drive p, (i, ch)) :: flat_map (path_folders E site drive p) ch
  | _ => []
  end.

(* the folder a folder_paths entry designates (None: no such folder -> 404 or not a folder -> skipped) *)
Definition resolve (E : env) (site : str) (drive : option str) (T : list node) (p : str)
  : option (option str * list node) :=
  assoc (path_url E site drive p) (flat_map (path_folders E site drive []) T).

(* reference listing for one entry of FileFilter.folder_paths: the files below the designated folder, their
   parent paths starting at the folder path AS GIVEN (not quoted, not stripped); "" = the whole drive *)
Definition spec_target (E : env) (site : str) (drive : option str) (T : list node) (p : str) : list fmeta :=
  if nonempty p then
    match resolve E site drive T p with
    | Some (_, ch) => spec_files E p ch
    | None => []
    end
  else spec_files E [] T.

(* well-formedness of the simulated library/server (boolean) *)
Fixpoint ids_ok (n : node) : bool :=
  match n with
  | Folder _ i _ ch => truthy i && forallb ids_ok ch
  | _ => true
  end.

Definition cuts_ok (c : list (nat * str)) : bool := forallb (fun x => nonempty (snd x)) c.
Fixpoint links_ok (P : paging) (n : node) : bool :=
  match n with
  | Folder _ i _ ch => cuts_ok (P i) && forallb (links_ok P) ch
  | _ => true
  end.

Fixpoint nodup_str_pre (l : list str) : bool :=
  match l with
  | [] => true
  | x :: r => negb (mem_str x r) && nodup_str_pre r
  end.

(* the urls of the pages of one folder listing are pairwise distinct (otherwise the client's loop guard fires) *)
Fixpoint pages_ok (E : env) (site : str) (drive : option str) (P : paging) (n : node) : bool :=
  match n with
  | Folder _ i _ ch => nodup_str_pre (children_url E site drive i :: map snd (P i))
                       && forallb (pages_ok E site drive P) ch
  | _ => true
  end.

Fixpoint nodup_str (l : list str) : bool :=
  match l with
  | [] => true
  | x :: r => negb (mem_str x r) && nodup_str r
  end.

(* the server is a function of the url: no two listings / pages share a url, nextLinks are non-empty,
   every folder has a non-empty id, and the token endpoint is not one of the API urls *)
Definition server_wf (E : env) (site : str) (drive : option str) (P : paging) (T : list node) : bool :=
  forallb ids_ok T && cuts_ok (P None) && forallb (links_ok P) T
  && nodup_str_pre (children_url E site drive None :: map snd (P None)) && forallb (pages_ok E site drive P) T
  && nodup_str (token_url E :: map fst (server_table E site drive P T))
  && nonempty (base E).

(* fuel that suffices for walking a folder *)
Fixpoint need_node (P : paging) (n : node) : nat :=
  match n with
  | Folder _ i _ ch => 2 + List.length (P i) + list_sum (map (need_node P) ch)
  | _ => 0
  end.
Definition need (P : paging) (oid : option str) (ch : list node) : nat :=
  2 + List.length (P oid) + list_sum (map (need_node P) ch).

(* fault kinds of the property: HTTP error, network error, non-2xx status without exception,
   undecodable body, syntactically broken JSON, JSON that is not an object *)
Inductive fault :=
| FHttp (code : Z) | FUrl | FStatus (status : option Z) | FBadJson | FNonObj | FBadUtf8
| FOs                    (* TimeoutError / ConnectionResetError / RemoteDisconnected raised by the transport *)
| FRead                  (* read() of the returned response raises *)
| FBadPage (o : obj).    (* a JSON object of the wrong shape: "value" not a list or nextLink not a string *)

Definition resp_of_fault (f : fault) : resp :=
  match f with
  | FHttp c => RHttpError c
  | FUrl => RUrlError
  | FStatus st => ROk st (BObj (page_obj [] None))
  | FBadJson => ROk (Some 200%Z) BBadJson
  | FNonObj => ROk (Some 200%Z) BNonObj
  | FBadUtf8 => ROk (Some 200%Z) BBadUtf8
  | FOs => ROsError
  | FRead => RReadError
  | FBadPage o => ROk (Some 200%Z) (BObj o)
  end.

Definition fault_ok (f : fault) : bool :=
  match f with
  | FStatus st => negb (is_2xx st)
  | FBadPage o => negb (o_ok o) && match o_id o with None => true | _ => false end && negb (truthy (o_token o))
  | _ => true
  end.

(* the client's error for a fault at a token request / an API request to `u` *)
Definition err_of (is_tok : bool) (u : str) (f : fault) : err :=
  match f with
  | FHttp c => RequestError (Some c) u
  | FUrl => RequestError None u
  | FStatus st => RequestError st u
  | FOs | FRead => RequestError None u
  | _ => if is_tok then AuthError else RequestError None u
  end.
