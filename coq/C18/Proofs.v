(* C18 — lemmas about the model of sharepoint_io/client.py *)
From Coq Require Import ZArith List Bool Lia ZifyBool.
From S2T Require Import Lib.PyStr C18.Model.
Local Open Scope nat_scope.

(* ------------------------------------------------------------------ state bookkeeping *)
(* the state after `l` further successful requests *)
Definition adv (s : st) (l : list (bool * str)) : st :=
  {| urls := urls s ++ l; opened := opened s + List.length l; closed := closed s + List.length l;
     tok := tok s; sid := sid s |}.

Lemma adv_nil s : adv s [] = s.
Proof. destruct s; unfold adv; simpl. rewrite app_nil_r, !Nat.add_0_r. reflexivity. Qed.

Lemma adv_adv s l1 l2 : adv (adv s l1) l2 = adv s (l1 ++ l2).
Proof. destruct s; unfold adv; simpl. rewrite app_assoc, app_length, !Nat.add_assoc. reflexivity. Qed.

Lemma open_close_log s e : open_close (log e s) = adv s [e].
Proof. destruct s; unfold open_close, log, adv; simpl. rewrite !Nat.add_1_r. reflexivity. Qed.

Lemma nreq_adv s l : nreq (adv s l) = nreq s + List.length l.
Proof. unfold nreq, adv; simpl. apply app_length. Qed.

Lemma tok_adv s l : tok (adv s l) = tok s. Proof. reflexivity. Qed.
Lemma sid_adv s l : sid (adv s l) = sid s. Proof. reflexivity. Qed.

Lemma nonempty_app (a b : str) : nonempty a = true -> nonempty (a ++ b) = true.
Proof. destruct a; simpl; [discriminate | reflexivity]. Qed.

(* ------------------------------------------------------------------ interpreter *)
Lemma run_bind {A B} E w (p : prog A) (f : A -> prog B) s :
  run E w (bind p f) s =
  match run E w p s with
  | (Ok a, s') => run E w (f a) s'
  | (Raise e, s') => (Raise e, s')
  end.
Proof.
  revert s; induction p as [a|e|u k IH|u k IH|k IH|v p IH]; intro s; simpl; auto.
  - destruct (get_json E w u s) as [[o|e] s']; auto.
  - destruct (get_json E w u s) as [[o|e] s']; auto. destruct (is_404 e); auto.
Qed.

(* a world that serves a table (with bearer token t) from request index n0 on *)
Definition serves (w : world) (n0 : nat) (t : str) (T : list (str * obj)) : Prop :=
  forall k u o, n0 <= k -> In (u, o) T -> w k {| r_url := u; r_auth := Some t |} = ROk (Some 200%Z) (BObj o).

Lemma serves_incl w n0 t T T' : serves w n0 t T -> incl T' T -> serves w n0 t T'.
Proof. intros H Hi k u o Hk Hin. apply H; auto. Qed.

Lemma serves_app_l w n0 t A B : serves w n0 t (A ++ B) -> serves w n0 t A.
Proof. intro H. eapply serves_incl; [exact H | apply incl_appl, incl_refl]. Qed.
Lemma serves_app_r w n0 t A B : serves w n0 t (A ++ B) -> serves w n0 t B.
Proof. intro H. eapply serves_incl; [exact H | apply incl_appr, incl_refl]. Qed.

Lemma get_json_ok E w s t u o n0 T :
  serves w n0 t T -> n0 <= nreq s -> tok s = Some t -> In (u, o) T ->
  get_json E w u s = (Ok o, adv s [(false, u)]).
Proof.
  intros Hs Hn Ht Hin. unfold get_json, ensure_token. rewrite Ht. unfold send. cbn [r_url].
  rewrite (Hs (nreq s) u o Hn Hin). cbn [is_2xx]. simpl (_ && _)%bool. cbv iota.
  rewrite open_close_log. reflexivity.
Qed.

(* ------------------------------------------------------------------ pagination *)
Definition api (l : list str) : list (bool * str) := map (fun u => (false, u)) l.

Lemma files_of_app E path a b : files_of E path (a ++ b) = files_of E path a ++ files_of E path b.
Proof. unfold files_of. apply flat_map_app. Qed.
Lemma folders_of_app a b : folders_of (a ++ b) = folders_of a ++ folders_of b.
Proof. unfold folders_of. apply flat_map_app. Qed.

Lemma paginate_ok E path : forall cuts url items w s t n0 fuel,
  serves w n0 t (pages url cuts items) -> cuts_ok cuts = true -> nonempty url = true ->
  n0 <= nreq s -> tok s = Some t -> List.length cuts < fuel ->
  run E w (list_items_paginated E fuel (Some url) path) s
  = (Ok (files_of E path items), adv s (api (url :: map snd cuts))).
Proof.
  induction cuts as [|[n link] cuts IH]; intros url items w s t n0 fuel Hs Hc Hu Hn Ht Hf;
    (destruct fuel as [|f]; [simpl in Hf; lia|]).
  - cbn [list_items_paginated truthy dflt]. rewrite Hu. cbn [run].
    erewrite get_json_ok; eauto; [|left; reflexivity].
    rewrite run_bind. cbn [page_obj o_next o_value]. destruct f; cbn [list_items_paginated truthy run];
      rewrite app_nil_r; reflexivity.
  - cbn [list_items_paginated truthy dflt]. rewrite Hu. cbn [run].
    erewrite get_json_ok; eauto; [|left; reflexivity].
    rewrite run_bind. cbn [page_obj o_next o_value].
    simpl in Hc. apply andb_true_iff in Hc as [Hl Hc]. cbn [snd] in Hl.
    erewrite (IH link (skipn n items) w (adv s [(false, url)]) t n0 f); eauto.
    + cbn [run]. rewrite <- files_of_app, firstn_skipn, adv_adv. reflexivity.
    + eapply serves_incl; [exact Hs|]. intros x Hx. right. exact Hx.
    + rewrite nreq_adv. lia.
    + simpl in Hf. lia.
Qed.

Lemma folders_ok E : forall cuts url items w s t n0 fuel,
  serves w n0 t (pages url cuts items) -> cuts_ok cuts = true -> nonempty url = true ->
  n0 <= nreq s -> tok s = Some t -> List.length cuts < fuel ->
  run E w (get_folders fuel (Some url)) s
  = (Ok (folders_of items), adv s (api (url :: map snd cuts))).
Proof.
  induction cuts as [|[n link] cuts IH]; intros url items w s t n0 fuel Hs Hc Hu Hn Ht Hf;
    (destruct fuel as [|f]; [simpl in Hf; lia|]).
  - cbn [get_folders truthy dflt]. rewrite Hu. cbn [run].
    erewrite get_json_ok; eauto; [|left; reflexivity].
    rewrite run_bind. cbn [page_obj o_next o_value]. destruct f; cbn [get_folders truthy run];
      rewrite app_nil_r; reflexivity.
  - cbn [get_folders truthy dflt]. rewrite Hu. cbn [run].
    erewrite get_json_ok; eauto; [|left; reflexivity].
    rewrite run_bind. cbn [page_obj o_next o_value].
    simpl in Hc. apply andb_true_iff in Hc as [Hl Hc]. cbn [snd] in Hl.
    erewrite (IH link (skipn n items) w (adv s [(false, url)]) t n0 f); eauto.
    + cbn [run]. rewrite <- folders_of_app, firstn_skipn, adv_adv. reflexivity.
    + eapply serves_incl; [exact Hs|]. intros x Hx. right. exact Hx.
    + rewrite nreq_adv. lia.
    + simpl in Hf. lia.
Qed.

(* ------------------------------------------------------------------ induction over the library tree *)
Section NodeInd.
  Variable Q : node -> Prop.
  Hypothesis HFile : forall f, Q (File f).
  Hypothesis HFolder : forall nm i ch, Forall Q ch -> Q (Folder nm i ch).
  Hypothesis HJunk : Q JunkDict.
  Hypothesis HNon : Q NonDict.
  Fixpoint node_ind' (n : node) : Q n :=
    match n with
    | File f => HFile f
    | Folder nm i ch =>
        HFolder nm i ch ((fix go (l : list node) : Forall Q l :=
                            match l with
                            | [] => Forall_nil Q
                            | c :: r => Forall_cons c (node_ind' c) (go r)
                            end) ch)
    | JunkDict => HJunk
    | NonDict => HNon
    end.
End NodeInd.

Section Walk.
  Variable E : env.
  Variable site : str.
  Variable drive : option str.
  Variable P : paging.
  Hypothesis Hbase : nonempty (base E) = true.

  Lemma children_url_nonempty oid : nonempty (children_url E site drive oid) = true.
  Proof. unfold children_url. destruct drive, oid; apply nonempty_app; exact Hbase. Qed.

  (* the walk of a folder's children returns the reference listing, for any world serving the folder's
     sub-table, from any state holding the token, for any sufficient fuel *)
  Definition walk_spec (oid : option str) (ch : list node) : Prop :=
    forall path w s t n0 fuel,
      serves w n0 t (folder_entries E site drive P oid ch ++ flat_map (node_entries E site drive P) ch) ->
      cuts_ok (P oid) = true -> forallb ids_ok ch = true -> forallb (links_ok P) ch = true ->
      n0 <= nreq s -> tok s = Some t -> need P oid ch <= fuel ->
      exists l, run E w (walk E fuel site drive oid path) s = (Ok (spec_files E path ch), adv s (api l)).

  Definition node_spec (n : node) : Prop :=
    match n with Folder _ i ch => walk_spec i ch | _ => True end.

  Lemma walk_folders_ok : forall ch, Forall node_spec ch ->
    forall path w s t n0 f,
      serves w n0 t (flat_map (node_entries E site drive P) ch) ->
      forallb ids_ok ch = true -> forallb (links_ok P) ch = true ->
      n0 <= nreq s -> tok s = Some t -> list_sum (map (need_node P) ch) <= f ->
      exists l, run E w (walk_folders (walk E f site drive) path (folders_of (map item_of ch))) s
                = (Ok (flat_map (spec_node E path) ch), adv s (api l)).
  Proof.
    induction 1 as [|c ch Hc HF IH]; intros path w s t n0 f Hs Hi Hl Hn Ht Hf.
    - exists []. simpl. rewrite adv_nil. reflexivity.
    - cbn [forallb] in Hi, Hl. apply andb_true_iff in Hi as [Hi1 Hi2]. apply andb_true_iff in Hl as [Hl1 Hl2].
      assert (Hf' : need_node P c + list_sum (map (need_node P) ch) <= f) by exact Hf. clear Hf. rename Hf' into Hf.
      cbn [flat_map] in Hs.
      destruct c as [fi|nm i ch'| |];
        try (eapply IH; eauto; try (eapply serves_app_r; exact Hs); try (cbn [need_node] in Hf; lia); fail).
      change (folders_of (map item_of (Folder nm i ch' :: ch))) with ((nm, i) :: folders_of (map item_of ch)).
      cbn [walk_folders flat_map].
      cbn [ids_ok] in Hi1. apply andb_true_iff in Hi1 as [Hti Hi1]. rewrite Hti.
      cbn [links_ok] in Hl1. apply andb_true_iff in Hl1 as [Hci Hl1].
      cbn [node_spec] in Hc.
      destruct (Hc (join_path path (dflt nm)) w s t n0 f) as [l1 R1]; auto.
      { eapply serves_app_l. exact Hs. }
      { change (need_node P (Folder nm i ch')) with (need P i ch') in Hf. lia. }
      destruct (IH path w (adv s (api l1)) t n0 f) as [l2 R2]; auto.
      { eapply serves_app_r. exact Hs. }
      { rewrite nreq_adv. lia. }
      { change (need_node P (Folder nm i ch')) with (need P i ch') in Hf. unfold need in Hf. lia. }
      exists (l1 ++ l2). rewrite run_bind, R1. cbv beta iota. rewrite run_bind, R2. cbn [run spec_node].
      rewrite adv_adv. unfold api. rewrite map_app. reflexivity.
  Qed.

  Lemma walk_children : forall oid ch, Forall node_spec ch -> walk_spec oid ch.
  Proof.
    intros oid ch HF path w s t n0 fuel Hs Hc Hi Hl Hn Ht Hf.
    unfold need in Hf. destruct fuel as [|f]; [lia|].
    cbn [walk]. rewrite run_bind.
    assert (Hs1 : serves w n0 t (pages (children_url E site drive oid) (P oid) (map item_of ch))).
    { eapply serves_app_l. exact Hs. }
    rewrite (paginate_ok E path (P oid) _ (map item_of ch) w s t n0 f Hs1 Hc (children_url_nonempty oid) Hn Ht);
      [|lia].
    rewrite run_bind.
    rewrite (folders_ok E (P oid) _ (map item_of ch) w _ t n0 f Hs1 Hc (children_url_nonempty oid));
      [|rewrite nreq_adv; lia | exact Ht | lia].
    rewrite adv_adv.
    set (l0 := api _ ++ api _).
    destruct (walk_folders_ok ch HF path w (adv s l0) t n0 f) as [l2 R2]; auto.
    { eapply serves_app_r. exact Hs. }
    { rewrite nreq_adv. lia. }
    { lia. }
    rewrite run_bind, R2. cbn [run]. rewrite adv_adv. unfold l0, api. rewrite <- !map_app.
    eexists. unfold spec_files. reflexivity.
  Qed.

  Lemma node_spec_all : forall n, node_spec n.
  Proof.
    apply node_ind'; cbn [node_spec]; auto. intros nm i ch HF. apply walk_children. exact HF.
  Qed.

  Lemma walk_any : forall oid ch, walk_spec oid ch.
  Proof. intros. apply walk_children. apply Forall_forall. intros n _. apply node_spec_all. Qed.
End Walk.
