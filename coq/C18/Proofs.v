(* C18 — lemmas about the model of sharepoint_io/client.py *)
From Coq Require Import ZArith List Bool Lia ZifyBool.
From S2T Require Import Lib.PyStr C18.Model.
Local Open Scope nat_scope.

(* ------------------------------------------------------------------ state bookkeeping *)
(* the state after `l` further successful requests *)
Definition adv (s : st) (l : list (bool * str)) : st :=
  {| urls := urls s ++ l; opened := opened s + List.length l; closed := closed s + List.length l;
     tok := tok s; sid := sid s |}.

Lemma adv_nil s : adv s [] = s.
Proof. destruct s; unfold adv; simpl. rewrite app_nil_r, !Nat.add_0_r. reflexivity. Qed.

Lemma adv_adv s l1 l2 : adv (adv s l1) l2 = adv s (l1 ++ l2).
Proof. destruct s; unfold adv; simpl. rewrite app_assoc, app_length, !Nat.add_assoc. reflexivity. Qed.

Lemma open_close_log s e : open_close (log e s) = adv s [e].
Proof. destruct s; unfold open_close, log, adv; simpl. rewrite !Nat.add_1_r. reflexivity. Qed.

Lemma nreq_adv s l : nreq (adv s l) = nreq s + List.length l.
Proof. unfold nreq, adv; simpl. apply app_length. Qed.

Lemma tok_adv s l : tok (adv s l) = tok s. Proof. reflexivity. Qed.
Lemma sid_adv s l : sid (adv s l) = sid s. Proof. reflexivity. Qed.

Lemma nonempty_app (a b : str) : nonempty a = true -> nonempty (a ++ b) = true.
Proof. destruct a; simpl; [discriminate | reflexivity]. Qed.

(* ------------------------------------------------------------------ interpreter *)
Lemma run_bind {A B} E w (p : prog A) (f : A -> prog B) s :
  run E w (bind p f) s =
  match run E w p s with
  | (Ok a, s') => run E w (f a) s'
  | (Raise e, s') => (Raise e, s')
  end.
Proof.
  revert s; induction p as [a|e|u k IH|u k IH|k IH|v p IH]; intro s; simpl; auto.
  - destruct (get_json E w u s) as [[o|e] s']; auto.
  - destruct (get_json E w u s) as [[o|e] s']; auto. destruct (is_404 e); auto.
Qed.

(* a world that serves a table (with bearer token t) from request index n0 on *)
Definition serves (w : world) (n0 : nat) (t : str) (T : list (str * obj)) : Prop :=
  forall k u o, n0 <= k -> In (u, o) T -> w k {| r_url := u; r_auth := Some t |} = ROk (Some 200%Z) (BObj o).

Lemma serves_incl w n0 t T T' : serves w n0 t T -> incl T' T -> serves w n0 t T'.
Proof. intros H Hi k u o Hk Hin. apply H; auto. Qed.

Lemma serves_app_l w n0 t A B : serves w n0 t (A ++ B) -> serves w n0 t A.
Proof. intro H. eapply serves_incl; [exact H | apply incl_appl, incl_refl]. Qed.
Lemma serves_app_r w n0 t A B : serves w n0 t (A ++ B) -> serves w n0 t B.
Proof. intro H. eapply serves_incl; [exact H | apply incl_appr, incl_refl]. Qed.

Lemma get_json_ok E w s t u o n0 T :
  serves w n0 t T -> n0 <= nreq s -> tok s = Some t -> In (u, o) T ->
  get_json E w u s = (Ok o, adv s [(false, u)]).
Proof.
  intros Hs Hn Ht Hin. unfold get_json, ensure_token. rewrite Ht. unfold send. cbn [r_url].
  rewrite (Hs (nreq s) u o Hn Hin). cbn [is_2xx]. simpl (_ && _)%bool. cbv iota.
  rewrite open_close_log. reflexivity.
Qed.

(* ------------------------------------------------------------------ pagination *)
Definition api (l : list str) : list (bool * str) := map (fun u => (false, u)) l.

Lemma files_of_app E path a b : files_of E path (a ++ b) = files_of E path a ++ files_of E path b.
Proof. unfold files_of. apply flat_map_app. Qed.
Lemma folders_of_app a b : folders_of (a ++ b) = folders_of a ++ folders_of b.
Proof. unfold folders_of. apply flat_map_app. Qed.

Lemma fresh_step url seen l :
  mem_str url l = false -> forallb (fun x => negb (mem_str x seen)) l = true ->
  forallb (fun x => negb (mem_str x (url :: seen))) l = true.
Proof.
  induction l as [|a l IH]; cbn [forallb]; intros Hm Hf; [reflexivity|].
  cbn [mem_str] in Hm. apply orb_false_iff in Hm as [Hm1 Hm2]. apply andb_true_iff in Hf as [Hf1 Hf2].
  rewrite (IH Hm2 Hf2), andb_true_r. cbn [mem_str].
  assert (str_eqb a url = false) as ->.
  { apply str_eqb_neq. apply str_eqb_neq in Hm1. congruence. }
  exact Hf1.
Qed.

(* the urls of the pages are pairwise distinct and none was followed before: the loop guard stays silent *)
Definition fresh (seen : list str) (l : list str) : bool :=
  nodup_str_pre l && forallb (fun x => negb (mem_str x seen)) l.

Lemma fresh_cons seen u l : fresh seen (u :: l) = true -> mem_str u seen = false /\ fresh (u :: seen) l = true.
Proof.
  unfold fresh. cbn [nodup_str_pre forallb]. intro H. apply andb_true_iff in H as [H1 H2].
  apply andb_true_iff in H1 as [Hn Hd]. apply andb_true_iff in H2 as [Hs Hf].
  apply negb_true_iff in Hn. apply negb_true_iff in Hs. split; [exact Hs|].
  rewrite Hd. simpl. apply fresh_step; assumption.
Qed.

Lemma fresh_nil l : nodup_str_pre l = true -> fresh [] l = true.
Proof.
  intro H. unfold fresh. rewrite H. simpl. induction l as [|a l IH]; [reflexivity|].
  cbn [forallb mem_str negb andb]. apply IH. simpl in H. apply andb_true_iff in H as [_ H]. exact H.
Qed.

Lemma paginate_ok E path : forall cuts url items seen w s t n0 fuel,
  serves w n0 t (pages url cuts items) -> cuts_ok cuts = true -> nonempty url = true ->
  fresh seen (url :: map snd cuts) = true ->
  n0 <= nreq s -> tok s = Some t -> List.length cuts < fuel ->
  run E w (list_items_paginated E fuel seen (Some url) path) s
  = (Ok (files_of E path items), adv s (api (url :: map snd cuts))).
Proof.
  induction cuts as [|[n link] cuts IH]; intros url items seen w s t n0 fuel Hs Hc Hu Hfr Hn Ht Hf;
    (destruct fuel as [|f]; [simpl in Hf; lia|]); apply fresh_cons in Hfr as [Hns Hfr].
  - cbn [list_items_paginated truthy dflt]. rewrite Hu, Hns. cbn [run].
    erewrite get_json_ok; eauto; [|left; reflexivity].
    cbn [page_obj o_ok]. rewrite run_bind. cbn [page_obj o_next o_value]. destruct f; cbn [list_items_paginated truthy run];
      rewrite app_nil_r; reflexivity.
  - cbn [list_items_paginated truthy dflt]. rewrite Hu, Hns. cbn [run].
    erewrite get_json_ok; eauto; [|left; reflexivity].
    cbn [page_obj o_ok]. rewrite run_bind. cbn [page_obj o_next o_value].
    simpl in Hc. apply andb_true_iff in Hc as [Hl Hc]. cbn [snd] in Hl.
    cbn [map snd] in Hfr.
    rewrite (IH link (skipn n items) (url :: seen) w (adv s [(false, url)]) t n0 f); auto.
    + cbn [run]. rewrite <- files_of_app, firstn_skipn, adv_adv. reflexivity.
    + eapply serves_incl; [exact Hs|]. intros x Hx. right. exact Hx.
    + rewrite nreq_adv. lia.
    + simpl in Hf. lia.
Qed.

Lemma folders_ok E : forall cuts url items seen w s t n0 fuel,
  serves w n0 t (pages url cuts items) -> cuts_ok cuts = true -> nonempty url = true ->
  fresh seen (url :: map snd cuts) = true ->
  n0 <= nreq s -> tok s = Some t -> List.length cuts < fuel ->
  run E w (get_folders fuel seen (Some url)) s
  = (Ok (folders_of items), adv s (api (url :: map snd cuts))).
Proof.
  induction cuts as [|[n link] cuts IH]; intros url items seen w s t n0 fuel Hs Hc Hu Hfr Hn Ht Hf;
    (destruct fuel as [|f]; [simpl in Hf; lia|]); apply fresh_cons in Hfr as [Hns Hfr].
  - cbn [get_folders truthy dflt]. rewrite Hu, Hns. cbn [run].
    erewrite get_json_ok; eauto; [|left; reflexivity].
    cbn [page_obj o_ok]. rewrite run_bind. cbn [page_obj o_next o_value]. destruct f; cbn [get_folders truthy run];
      rewrite app_nil_r; reflexivity.
  - cbn [get_folders truthy dflt]. rewrite Hu, Hns. cbn [run].
    erewrite get_json_ok; eauto; [|left; reflexivity].
    cbn [page_obj o_ok]. rewrite run_bind. cbn [page_obj o_next o_value].
    simpl in Hc. apply andb_true_iff in Hc as [Hl Hc]. cbn [snd] in Hl.
    cbn [map snd] in Hfr.
    rewrite (IH link (skipn n items) (url :: seen) w (adv s [(false, url)]) t n0 f); auto.
    + cbn [run]. rewrite <- folders_of_app, firstn_skipn, adv_adv. reflexivity.
    + eapply serves_incl; [exact Hs|]. intros x Hx. right. exact Hx.
    + rewrite nreq_adv. lia.
    + simpl in Hf. lia.
Qed.

(* ------------------------------------------------------------------ induction over the library tree *)
Section NodeInd.
  Variable Q : node -> Prop.
  Hypothesis HFile : forall f, Q (File f).
  Hypothesis HFolder : forall nm i fc ch, Forall Q ch -> Q (Folder nm i fc ch).
  Hypothesis HJunk : Q JunkDict.
  Hypothesis HNon : Q NonDict.
  Fixpoint node_ind' (n : node) : Q n :=
    match n with
    | File f => HFile f
    | Folder nm i fc ch =>
        HFolder nm i fc ch ((fix go (l : list node) : Forall Q l :=
                            match l with
                            | [] => Forall_nil Q
                            | c :: r => Forall_cons c (node_ind' c) (go r)
                            end) ch)
    | JunkDict => HJunk
    | NonDict => HNon
    end.
End NodeInd.

Section Walk.
  Variable E : env.
  Variable site : str.
  Variable drive : option str.
  Variable P : paging.
  Hypothesis Hbase : nonempty (base E) = true.

  Lemma children_url_nonempty oid : nonempty (children_url E site drive oid) = true.
  Proof. unfold children_url. destruct drive, oid; apply nonempty_app; exact Hbase. Qed.

  (* the walk of a folder's children returns the reference listing, for any world serving the folder's
     sub-table, from any state holding the token, for any sufficient fuel *)
  Definition walk_spec (oid : option str) (ch : list node) : Prop :=
    forall path w s t n0 fuel,
      serves w n0 t (folder_entries E site drive P oid ch ++ flat_map (node_entries E site drive P) ch) ->
      cuts_ok (P oid) = true -> forallb ids_ok ch = true -> forallb (links_ok P) ch = true ->
      nodup_str_pre (children_url E site drive oid :: map snd (P oid)) = true ->
      forallb (pages_ok E site drive P) ch = true ->
      n0 <= nreq s -> tok s = Some t -> need P oid ch <= fuel ->
      exists l, run E w (walk E fuel site drive oid path) s = (Ok (spec_files E path ch), adv s (api l)).

  Definition node_spec (n : node) : Prop :=
    match n with Folder _ i _ ch => walk_spec i ch | _ => True end.

  Lemma walk_folders_ok : forall ch, Forall node_spec ch ->
    forall path w s t n0 f,
      serves w n0 t (flat_map (node_entries E site drive P) ch) ->
      forallb ids_ok ch = true -> forallb (links_ok P) ch = true -> forallb (pages_ok E site drive P) ch = true ->
      n0 <= nreq s -> tok s = Some t -> list_sum (map (need_node P) ch) <= f ->
      exists l, run E w (walk_folders (walk E f site drive) path (folders_of (map item_of ch))) s
                = (Ok (flat_map (spec_node E path) ch), adv s (api l)).
  Proof.
    induction 1 as [|c ch Hc HF IH]; intros path w s t n0 f Hs Hi Hl Hp Hn Ht Hf.
    - exists []. simpl. rewrite adv_nil. reflexivity.
    - cbn [forallb] in Hi, Hl, Hp. apply andb_true_iff in Hi as [Hi1 Hi2]. apply andb_true_iff in Hl as [Hl1 Hl2].
      apply andb_true_iff in Hp as [Hp1 Hp2].
      assert (Hf' : need_node P c + list_sum (map (need_node P) ch) <= f) by exact Hf. clear Hf. rename Hf' into Hf.
      cbn [flat_map] in Hs.
      destruct c as [fi|nm i fc ch'| |];
        try (eapply IH; eauto; try (eapply serves_app_r; exact Hs); try (cbn [need_node] in Hf; lia); fail).
      change (folders_of (map item_of (Folder nm i fc ch' :: ch))) with ((nm, i) :: folders_of (map item_of ch)).
      cbn [walk_folders flat_map].
      cbn [ids_ok] in Hi1. apply andb_true_iff in Hi1 as [Hti Hi1]. rewrite Hti.
      cbn [links_ok] in Hl1. apply andb_true_iff in Hl1 as [Hci Hl1].
      cbn [pages_ok] in Hp1. apply andb_true_iff in Hp1 as [Hpi Hp1].
      cbn [node_spec] in Hc.
      destruct (Hc (join_path path (dflt nm)) w s t n0 f) as [l1 R1]; auto.
      { eapply serves_app_l. exact Hs. }
      { change (need_node P (Folder nm i fc ch')) with (need P i ch') in Hf. lia. }
      destruct (IH path w (adv s (api l1)) t n0 f) as [l2 R2]; auto.
      { eapply serves_app_r. exact Hs. }
      { rewrite nreq_adv. lia. }
      { change (need_node P (Folder nm i fc ch')) with (need P i ch') in Hf. unfold need in Hf. lia. }
      exists (l1 ++ l2). rewrite run_bind, R1. cbv beta iota. rewrite run_bind, R2. cbn [run spec_node].
      rewrite adv_adv. unfold api. rewrite map_app. reflexivity.
  Qed.

  Lemma walk_children : forall oid ch, Forall node_spec ch -> walk_spec oid ch.
  Proof.
    intros oid ch HF path w s t n0 fuel Hs Hc Hi Hl Hnd Hp Hn Ht Hf.
    unfold need in Hf. destruct fuel as [|f]; [lia|].
    cbn [walk]. rewrite run_bind.
    assert (Hs1 : serves w n0 t (pages (children_url E site drive oid) (P oid) (map item_of ch))).
    { eapply serves_app_l. exact Hs. }
    rewrite (paginate_ok E path (P oid) _ (map item_of ch) [] w s t n0 f Hs1 Hc (children_url_nonempty oid)
               (fresh_nil _ Hnd) Hn Ht);
      [|lia].
    rewrite run_bind.
    rewrite (folders_ok E (P oid) _ (map item_of ch) [] w _ t n0 f Hs1 Hc (children_url_nonempty oid) (fresh_nil _ Hnd));
      [|rewrite nreq_adv; lia | exact Ht | lia].
    rewrite adv_adv.
    set (l0 := api _ ++ api _).
    destruct (walk_folders_ok ch HF path w (adv s l0) t n0 f) as [l2 R2]; auto.
    { eapply serves_app_r. exact Hs. }
    { rewrite nreq_adv. lia. }
    { lia. }
    rewrite run_bind, R2. cbn [run]. rewrite adv_adv. unfold l0, api. rewrite <- !map_app.
    eexists. unfold spec_files. reflexivity.
  Qed.

  Lemma node_spec_all : forall n, node_spec n.
  Proof.
    apply node_ind'; cbn [node_spec]; auto. intros nm i fc ch HF. apply walk_children. exact HF.
  Qed.

  Lemma walk_any : forall oid ch, walk_spec oid ch.
  Proof. intros. apply walk_children. apply Forall_forall. intros n _. apply node_spec_all. Qed.
End Walk.

(* ------------------------------------------------------------------ the healthy endpoint serves its table *)
Lemma assoc_nodup {A} (T : list (str * A)) u o :
  nodup_str (map fst T) = true -> In (u, o) T -> assoc u T = Some o.
Proof.
  induction T as [|[k v] T IH]; simpl; intros Hn Hin; [tauto|].
  apply andb_true_iff in Hn as [Hk Hn]. destruct Hin as [Heq|Hin].
  - inversion Heq; subst. rewrite str_eqb_refl. reflexivity.
  - destruct (str_eqb u k) eqn:Eq; [|auto].
    apply str_eqb_eq in Eq; subst. exfalso. apply negb_true_iff in Hk.
    assert (mem_str k (map fst T) = true) as Hm.
    { apply mem_str_In. apply in_map_iff. exists (k, o); auto. }
    congruence.
Qed.

Definition healthy_from (w : world) (n0 : nat) (E : env) (tk : str) (T : list (str * obj)) : Prop :=
  forall k r, n0 <= k -> w k r = healthy E tk T k r.

Lemma healthy_from_serves E tk T w n0 :
  nodup_str (token_url E :: map fst T) = true -> healthy_from w n0 E tk T -> serves w n0 tk T.
Proof.
  intros Hn Hw k u o Hk Hin. rewrite (Hw k _ Hk). unfold healthy; cbn [r_url r_auth].
  simpl in Hn. apply andb_true_iff in Hn as [Ht Hn].
  destruct (str_eqb u (token_url E)) eqn:Eq.
  - apply str_eqb_eq in Eq; subst. apply negb_true_iff in Ht.
    assert (mem_str (token_url E) (map fst T) = true) as Hm.
    { apply mem_str_In, in_map_iff. exists (token_url E, o); auto. }
    congruence.
  - rewrite str_eqb_refl. rewrite (assoc_nodup T u o Hn Hin). reflexivity.
Qed.

Lemma healthy_from_token E tk T w n0 k :
  healthy_from w n0 E tk T -> n0 <= k ->
  w k {| r_url := token_url E; r_auth := None |} = ROk (Some 200%Z) (BObj (token_obj tk)).
Proof. intros Hw Hk. rewrite (Hw k _ Hk). unfold healthy; cbn [r_url]. rewrite str_eqb_refl. reflexivity. Qed.

Lemma healthy_from_faulty E tk T w k0 fr :
  healthy_from w 0 E tk T -> healthy_from (faulty w k0 fr) (S k0) E tk T.
Proof.
  intros Hw k r Hk. unfold faulty. destruct (Nat.eqb k k0) eqn:Eq; [apply Nat.eqb_eq in Eq; lia|].
  apply Hw. lia.
Qed.

(* ------------------------------------------------------------------ token / site-id plumbing *)
Lemma fetch_token_ok E w s tk :
  w (nreq s) {| r_url := token_url E; r_auth := None |} = ROk (Some 200%Z) (BObj (token_obj tk)) ->
  nonempty tk = true ->
  fetch_token E w s = (Ok tk, set_tok tk (adv s [(true, token_url E)])).
Proof.
  intros Hw Hne. unfold fetch_token, send. cbn [r_url]. rewrite Hw. change (is_2xx (Some 200%Z)) with true. cbv iota.
  cbn [token_obj o_token truthy dflt]. rewrite Hne. rewrite open_close_log. reflexivity.
Qed.

Lemma get_json_after_fetch E w u s t s1 :
  tok s = None -> fetch_token E w s = (Ok t, s1) -> tok s1 = Some t ->
  get_json E w u s = get_json E w u s1.
Proof. intros H0 Hf H1. unfold get_json, ensure_token. rewrite H0, Hf, H1. reflexivity. Qed.

Definition cache_ok (tk site : str) (s : st) : Prop :=
  (tok s = None /\ sid s = None) \/ (tok s = Some tk /\ (sid s = None \/ sid s = Some site)).

(* difference opened - closed is invariant: written additively *)
Definition balanced (s s' : st) : Prop := opened s' + closed s = closed s' + opened s.

Section ListAll.
  Variable E : env.
  Variable tk site : str.
  Variable P : paging.
  Variable T : list node.
  Hypothesis Hwf : server_wf E site None P T = true.
  Hypothesis Htk : nonempty tk = true.

  Let table := server_table E site None P T.

  Lemma wf_parts :
    forallb ids_ok T = true /\ cuts_ok (P None) = true /\ forallb (links_ok P) T = true
    /\ nodup_str (token_url E :: map fst table) = true /\ nonempty (base E) = true.
  Proof.
    unfold server_wf in Hwf. repeat (apply andb_true_iff in Hwf as [Hwf ?]). auto.
  Qed.

  Lemma wf_pages :
    nodup_str_pre (children_url E site None None :: map snd (P None)) = true
    /\ forallb (pages_ok E site None P) T = true.
  Proof. unfold server_wf in Hwf. repeat (apply andb_true_iff in Hwf as [Hwf ?]). auto. Qed.

  (* C18_walk_exact *)
  Lemma walk_root_exact : forall w n0 s fuel path,
    healthy_from w n0 E tk table -> n0 <= nreq s -> tok s = Some tk -> need P None T <= fuel ->
    exists l, run E w (walk E fuel site None None path) s = (Ok (spec_files E path T), adv s (api l)).
  Proof.
    intros w n0 s fuel path Hw Hn Ht Hf.
    destruct wf_parts as (Hi & Hc & Hl & Hnd & Hb). destruct wf_pages as (Hp0 & Hp).
    eapply (walk_any E site None P Hb None T path w s tk n0 fuel); auto.
    eapply serves_incl; [eapply healthy_from_serves; eauto|].
    unfold table, server_table, child_entries. intros x Hx. right. apply in_or_app. left. exact Hx.
  Qed.

  Lemma list_all_ok : forall w n0 s fuel,
    healthy_from w n0 E tk table -> n0 <= nreq s -> cache_ok tk site s -> need P None T <= fuel ->
    exists s', run E w (list_all_files E fuel) s = (Ok (spec_files E [] T), s')
               /\ tok s' = Some tk /\ sid s' = Some site /\ balanced s s' /\ nreq s <= nreq s'.
  Proof.
    intros w n0 s fuel Hw Hn Hc Hf.
    destruct wf_parts as (Hi & Hcu & Hl & Hnd & Hb).
    assert (Hsv : serves w n0 tk table) by (eapply healthy_from_serves; eauto).
    assert (Hsite : In (site_api_url E, site_obj site) table) by (left; reflexivity).
    unfold list_all_files. rewrite run_bind. unfold get_site_id. cbn [run].
    destruct Hc as [[Ht Hs]|[Ht [Hs|Hs]]]; rewrite Hs.
    - (* nothing cached: token request, site request, walk *)
      cbn [run].
      pose proof (fetch_token_ok E w s tk (healthy_from_token E tk table w n0 _ Hw Hn) Htk) as Hft.
      rewrite (get_json_after_fetch E w _ s tk _ Ht Hft eq_refl).
      set (s1 := set_tok tk (adv s [(true, token_url E)])).
      assert (Hn1 : n0 <= nreq s1) by (unfold s1, nreq; simpl; rewrite app_length; unfold nreq in Hn; lia).
      rewrite (get_json_ok E w s1 tk _ _ n0 table Hsv Hn1 eq_refl Hsite).
      cbn [site_obj o_id run].
      set (s2 := set_sid site (adv s1 [(false, site_api_url E)])).
      destruct (walk_root_exact w n0 s2 fuel [] Hw) as [l R]; auto.
      { unfold s2, nreq; simpl. rewrite !app_length. unfold nreq in Hn. lia. }
      rewrite R. eexists; split; [reflexivity|]. unfold balanced, nreq; simpl. rewrite !app_length. simpl. repeat split; auto; lia.
    - (* token cached, site id not *)
      cbn [run].
      rewrite (get_json_ok E w s tk _ _ n0 table Hsv Hn Ht Hsite).
      cbn [site_obj o_id run].
      set (s2 := set_sid site (adv s [(false, site_api_url E)])).
      destruct (walk_root_exact w n0 s2 fuel [] Hw) as [l R]; auto.
      { unfold s2, nreq; simpl. rewrite !app_length. unfold nreq in Hn. lia. }
      rewrite R. eexists; split; [reflexivity|]. unfold balanced, nreq; simpl. rewrite !app_length. simpl. repeat split; auto; lia.
    - (* both cached *)
      cbn [run].
      destruct (walk_root_exact w n0 s fuel [] Hw) as [l R]; auto.
      rewrite R. eexists; split; [reflexivity|]. unfold balanced, nreq; simpl. rewrite !app_length. repeat split; auto; lia.
  Qed.
End ListAll.

(* ------------------------------------------------------------------ generic facts about any program in any world *)
Lemma send_facts w b r s :
  let s' := snd (send w b r s) in
  urls s' = urls s ++ [(b, r_url r)] /\ balanced s s' /\ tok s' = tok s /\ sid s' = sid s.
Proof.
  unfold send, balanced. destruct (w (nreq s) r) as [c| | | |stt bd]; [| | | |destruct (is_2xx stt)]; simpl; repeat split; lia.
Qed.

Lemma fetch_token_facts E w s :
  let s' := snd (fetch_token E w s) in
  urls s' = urls s ++ [(true, token_url E)] /\ balanced s s' /\ sid s' = sid s.
Proof.
  unfold fetch_token.
  pose proof (send_facts w true {| r_url := token_url E; r_auth := None |} s) as H.
  destruct (send w true _ s) as [[bd|e] s1]; cbn [snd r_url] in *; destruct H as (Hu & Hb & Ht & Hs).
  - destruct bd as [o| | |]; [destruct (truthy (o_token o))|..]; simpl; auto.
  - simpl; auto.
Qed.

Lemma get_json_facts E w u s :
  let s' := snd (get_json E w u s) in
  (exists l, urls s' = urls s ++ l) /\ balanced s s' /\ sid s' = sid s.
Proof.
  unfold get_json, ensure_token. destruct (tok s) as [t|] eqn:Ht.
  - pose proof (send_facts w false {| r_url := u; r_auth := Some t |} s) as H.
    destruct (send w false _ s) as [[bd|e] s1]; cbn [snd r_url] in *; destruct H as (Hu & Hb & _ & Hs);
      [destruct bd|]; simpl; (split; [eexists; exact Hu|auto]).
  - pose proof (fetch_token_facts E w s) as H0.
    destruct (fetch_token E w s) as [[t|e] s0]; cbn [snd] in *; destruct H0 as (Hu0 & Hb0 & Hs0).
    + pose proof (send_facts w false {| r_url := u; r_auth := Some t |} s0) as H.
      destruct (send w false _ s0) as [[bd|e] s1]; cbn [snd r_url] in *; destruct H as (Hu & Hb & _ & Hs);
        [destruct bd|]; simpl; (split; [eexists; rewrite Hu, Hu0, <- app_assoc; reflexivity|]);
        unfold balanced in *; split; try congruence; lia.
    + simpl. split; [eexists; exact Hu0|auto].
Qed.

(* every response opened during a run is closed — for every program, world and start state *)
Lemma run_facts {A} E w (p : prog A) : forall s,
  let s' := snd (run E w p s) in (exists l, urls s' = urls s ++ l) /\ balanced s s'.
Proof.
  induction p as [a|e|u k IH|u k IH|k IH|v p IH]; intro s; cbn [run].
  - simpl. split; [exists []; rewrite app_nil_r; reflexivity | unfold balanced; lia].
  - simpl. split; [exists []; rewrite app_nil_r; reflexivity | unfold balanced; lia].
  - pose proof (get_json_facts E w u s) as H. destruct (get_json E w u s) as [[o|e] s1]; cbn [snd] in *.
    + destruct H as ([l Hl] & Hb & _). destruct (IH o s1) as ([l2 Hl2] & Hb2).
      split; [exists (l ++ l2); rewrite Hl2, Hl, app_assoc; reflexivity | unfold balanced in *; lia].
    + destruct H as (Hl & Hb & _). auto.
  - pose proof (get_json_facts E w u s) as H. destruct (get_json E w u s) as [[o|e] s1]; cbn [snd] in *.
    + destruct H as ([l Hl] & Hb & _). destruct (IH (Some o) s1) as ([l2 Hl2] & Hb2).
      split; [exists (l ++ l2); rewrite Hl2, Hl, app_assoc; reflexivity | unfold balanced in *; lia].
    + destruct H as ([l Hl] & Hb & _). destruct (is_404 e).
      * destruct (IH None s1) as ([l2 Hl2] & Hb2).
        split; [exists (l ++ l2); rewrite Hl2, Hl, app_assoc; reflexivity | unfold balanced in *; lia].
      * simpl. split; [exists l; exact Hl | exact Hb].
  - apply IH.
  - destruct (IH (set_sid v s)) as ([l Hl] & Hb). split; [exists l; exact Hl | exact Hb].
Qed.

(* ------------------------------------------------------------------ programs without handler and without cache write *)
Fixpoint plain {A} (p : prog A) : Prop :=
  match p with
  | Ret _ | Fail _ => True
  | ApiGet u k => (forall o, plain (k o))
                  /\ (forall o, o_ok o = false -> o_id o = None -> k o = Fail (RequestError None u))
  | ApiGet404 _ _ => False
  | GetSid k => forall c, plain (k c)
  | SetSid _ _ => False
  end.

Lemma plain_bind {A B} (p : prog A) (f : A -> prog B) : plain p -> (forall a, plain (f a)) -> plain (bind p f).
Proof.
  induction p as [a|e|u k IH|u k IH|k IH|v p IH]; simpl; intros Hp Hf; auto; try tauto.
  destruct Hp as [Hp Hs]. split; [intro o; apply IH; auto|].
  intros o H1 H2. rewrite (Hs o H1 H2). reflexivity.
Qed.

Lemma plain_paginate E path : forall fuel seen cur, plain (list_items_paginated E fuel seen cur path).
Proof.
  induction fuel as [|f IH]; intros seen cur; cbn [list_items_paginated]; destruct (truthy cur); simpl; auto;
    destruct (mem_str (dflt cur) seen); simpl; auto.
  split; [|intros o H _; rewrite H; reflexivity].
  intro o. destruct (o_ok o); [|exact I]. apply plain_bind; [apply IH | intro; exact I].
Qed.

Lemma plain_folders : forall fuel seen cur, plain (get_folders fuel seen cur).
Proof.
  induction fuel as [|f IH]; intros seen cur; cbn [get_folders]; destruct (truthy cur); simpl; auto;
    destruct (mem_str (dflt cur) seen); simpl; auto.
  split; [|intros o H _; rewrite H; reflexivity].
  intro o. destruct (o_ok o); [|exact I]. apply plain_bind; [apply IH | intro; exact I].
Qed.

Lemma plain_walk_folders rec path : (forall i p, plain (rec i p)) -> forall l, plain (walk_folders rec path l).
Proof.
  intros Hr. induction l as [|[nm i] l IH]; cbn [walk_folders]; [exact I|].
  destruct (truthy i); [|exact IH].
  apply plain_bind; [apply Hr|]. intro a. apply plain_bind; [exact IH | intro; exact I].
Qed.

Lemma plain_walk E site drive : forall fuel oid path, plain (walk E fuel site drive oid path).
Proof.
  induction fuel as [|f IH]; intros oid path; cbn [walk]; [exact I|].
  apply plain_bind; [apply plain_paginate|]. intro files.
  apply plain_bind; [apply plain_folders|]. intro folders.
  apply plain_bind; [apply plain_walk_folders; intros; apply IH | intro; exact I].
Qed.

Lemma get_json_cached E w u s t :
  tok s = Some t ->
  get_json E w u s =
  match send w false {| r_url := u; r_auth := Some t |} s with
  | (Raise e, s') => (Raise e, s')
  | (Ok (BObj o), s') => (Ok o, s')
  | (Ok _, s') => (Raise (RequestError None u), s')
  end.
Proof. intro Ht. unfold get_json, ensure_token. rewrite Ht. reflexivity. Qed.

Lemma send_fault w k0 f u t s :
  nreq s = k0 -> fault_ok f = true ->
  exists s', send (faulty w k0 (resp_of_fault f)) false {| r_url := u; r_auth := Some t |} s
             = (match f with
                | FHttp _ | FUrl | FStatus _ | FOs | FRead => Raise (err_of false u f)
                | FBadJson => Ok BBadJson | FNonObj => Ok BNonObj | FBadUtf8 => Ok BBadUtf8
                | FBadPage o => Ok (BObj o)
                end, s')
             /\ urls s' = urls s ++ [(false, u)] /\ balanced s s' /\ tok s' = tok s /\ sid s' = sid s.
Proof.
  intros Hk Hf. unfold send, faulty. rewrite Hk, Nat.eqb_refl. unfold balanced.
  destruct f as [c| |stt| | | | | |o]; cbn [resp_of_fault r_url err_of];
    try (change (is_2xx (Some 200%Z)) with true; cbv iota);
    try (cbn [fault_ok] in Hf; apply negb_true_iff in Hf; rewrite Hf);
    eexists; (split; [reflexivity|]); simpl; repeat split; lia.
Qed.

(* a fault at request k0 of a successful healthy run makes the run raise the client's error for that
   request; the failed run is a prefix of the healthy one *)
Lemma fault_raises {A} E wH k0 f (p : prog A) :
  plain p -> fault_ok f = true ->
  forall s t a s1,
    tok s = Some t -> run E wH p s = (Ok a, s1) -> nreq s <= k0 < nreq s1 ->
    exists u s', nth_error (urls s1) k0 = Some (false, u)
                 /\ run E (faulty wH k0 (resp_of_fault f)) p s = (Raise (err_of false u f), s')
                 /\ nreq s' = S k0 /\ balanced s s' /\ tok s' = Some t /\ sid s' = sid s.
Proof.
  intros Hp Hf. induction p as [a0|e|u k IH|u k IH|k IH|v p IH]; intros s t a s1 Ht Hr Hk; cbn [run] in *.
  - inversion Hr; subst. lia.
  - discriminate.
  - cbn [plain] in Hp. destruct Hp as [Hp Hstrict].
    rewrite (get_json_cached E wH u s t Ht) in Hr. rewrite (get_json_cached E _ u s t Ht).
    destruct (Nat.eq_dec (nreq s) k0) as [Heq|Hne].
    + (* the fault hits this request *)
      destruct (send_fault wH k0 f u t s Heq Hf) as (s' & Hsend & Hu & Hb & Htk & Hsd).
      rewrite Hsend.
      assert (Hlog : exists l, urls s1 = (urls s ++ [(false, u)]) ++ l).
      { pose proof (send_facts wH false {| r_url := u; r_auth := Some t |} s) as Hs.
        destruct (send wH false _ s) as [[bd|e] sm]; cbn [snd r_url] in *; [|discriminate].
        destruct Hs as (Hum & _). destruct bd as [o| | |]; try discriminate.
        destruct (run_facts E wH (k o) sm) as ([l Hl] & _). rewrite Hr in Hl. cbn [snd] in Hl.
        exists l. rewrite Hl, Hum. reflexivity. }
      destruct Hlog as [l Hl].
      exists u, s'. split.
      { rewrite Hl, nth_error_app1 by (rewrite app_length; simpl; unfold nreq in Heq; lia).
        rewrite nth_error_app2 by (unfold nreq in Heq; lia).
        unfold nreq in Heq. rewrite <- Heq, Nat.sub_diag. reflexivity. }
      split.
      { destruct f as [c| |stt| | | | | |o]; try reflexivity.
        cbn [fault_ok] in Hf. apply andb_true_iff in Hf as [Hf _]. apply andb_true_iff in Hf as [H1 H2].
        apply negb_true_iff in H1. destruct (o_id o) eqn:Hid; [discriminate|].
        rewrite (Hstrict o H1 Hid). reflexivity. }
      unfold nreq. rewrite Hu, app_length. simpl. unfold nreq in Heq. repeat split; auto; try lia; congruence.
    + (* the fault is later: this request behaves as in the healthy run *)
      assert (Hsame : send (faulty wH k0 (resp_of_fault f)) false {| r_url := u; r_auth := Some t |} s
                      = send wH false {| r_url := u; r_auth := Some t |} s).
      { unfold send, faulty. destruct (Nat.eqb (nreq s) k0) eqn:Eq; [apply Nat.eqb_eq in Eq; lia | reflexivity]. }
      rewrite Hsame.
      pose proof (send_facts wH false {| r_url := u; r_auth := Some t |} s) as Hs.
      destruct (send wH false _ s) as [[bd|e] sm]; cbn [snd r_url] in *; [|discriminate].
      destruct Hs as (Hum & Hbm & Htm & Hsm). destruct bd as [o| | |]; try discriminate.
      destruct (IH o (Hp o) sm t a s1) as (u' & s' & H1 & H2 & H3 & H4 & H5 & H6); auto.
      { congruence. }
      { unfold nreq in *. rewrite Hum, app_length. simpl. lia. }
      exists u', s'. repeat split; auto; unfold balanced in *; try lia; congruence.
  - cbn [plain] in Hp. contradiction.
  - cbn [plain] in Hp. eapply IH; eauto.
  - cbn [plain] in Hp. contradiction.
Qed.

(* ------------------------------------------------------------------ faults in list_all_files from a fresh client *)
Section Faults.
  Variable E : env.
  Variable tk site : str.
  Variable P : paging.
  Variable T : list node.
  Hypothesis Hwf : server_wf E site None P T = true.
  Hypothesis Htk : nonempty tk = true.

  Let table := server_table E site None P T.
  Let wH := healthy E tk table.

  (* state of a fresh client after the token request and the site request succeeded *)
  Definition s_tok : st := set_tok tk (adv st0 [(true, token_url E)]).
  Definition s_site : st := set_sid site (adv s_tok [(false, site_api_url E)]).

  Lemma site_not_token : str_eqb (site_api_url E) (token_url E) = false.
  Proof.
    destruct (wf_parts E site P T Hwf) as (_ & _ & _ & Hnd & _).
    unfold server_table in Hnd. cbn [map fst nodup_str mem_str] in Hnd.
    apply andb_true_iff in Hnd as [Ht _]. apply negb_true_iff in Ht. apply orb_false_iff in Ht as [Ht _].
    destruct (str_eqb (site_api_url E) (token_url E)) eqn:Eq; [|reflexivity].
    apply str_eqb_eq in Eq. rewrite Eq, str_eqb_refl in Ht. discriminate.
  Qed.

  Lemma token_step w : (forall r, w 0 r = wH 0 r) -> fetch_token E w st0 = (Ok tk, s_tok).
  Proof.
    intro H0. apply fetch_token_ok; [|exact Htk].
    change (nreq st0) with 0. rewrite H0. unfold wH, healthy. cbn [r_url]. rewrite str_eqb_refl. reflexivity.
  Qed.

  Lemma site_step w : (forall r, w 1 r = wH 1 r) -> get_json E w (site_api_url E) s_tok = (Ok (site_obj site), adv s_tok [(false, site_api_url E)]).
  Proof.
    intro H1. rewrite (get_json_cached E w _ s_tok tk eq_refl). unfold send.
    change (nreq s_tok) with 1. rewrite H1. unfold wH, healthy. cbn [r_url r_auth].
    rewrite site_not_token, str_eqb_refl. unfold table, server_table. cbn [assoc]. rewrite str_eqb_refl.
    change (is_2xx (Some 200%Z)) with true. cbv iota. rewrite open_close_log. reflexivity.
  Qed.

  Lemma get_site_id_fresh w :
    (forall r, w 0 r = wH 0 r) -> (forall r, w 1 r = wH 1 r) ->
    run E w (get_site_id E) st0 = (Ok site, s_site).
  Proof.
    intros H0 H1. unfold get_site_id. cbn [run st0 sid].
    rewrite (get_json_after_fetch E w _ st0 tk s_tok eq_refl (token_step w H0) eq_refl).
    rewrite (site_step w H1). cbn [site_obj o_id run]. reflexivity.
  Qed.

  Lemma healthy_run : forall fuel, need P None T <= fuel ->
    exists l, run E wH (list_all_files E fuel) st0 = (Ok (spec_files E [] T), adv s_site (api l)).
  Proof.
    intros fuel Hf. unfold list_all_files. rewrite run_bind, (get_site_id_fresh wH) by reflexivity.
    apply (walk_root_exact E tk site P T Hwf wH 0 s_site fuel []); auto; try (intros k r _; reflexivity).
    unfold nreq; simpl; lia.
  Qed.

  Lemma fault_all : forall fuel k0 f l,
    need P None T <= fuel -> fault_ok f = true ->
    run E wH (list_all_files E fuel) st0 = (Ok (spec_files E [] T), adv s_site (api l)) ->
    k0 < nreq (adv s_site (api l)) ->
    exists it u s',
      nth_error (urls (adv s_site (api l))) k0 = Some (it, u)
      /\ run E (faulty wH k0 (resp_of_fault f)) (list_all_files E fuel) st0 = (Raise (err_of it u f), s')
      /\ opened s' = closed s' /\ cache_ok tk site s' /\ nreq s' = S k0.
  Proof.
    intros fuel k0 f l Hfuel Hf Hrun Hk.
    set (wF := faulty wH k0 (resp_of_fault f)).
    destruct k0 as [|[|k0]].
    - (* the token request fails *)
      exists true, (token_url E).
      unfold list_all_files. rewrite run_bind. unfold get_site_id. cbn [run st0 sid].
      unfold get_json, ensure_token, fetch_token, send. cbn [st0 tok nreq urls List.length r_url].
      unfold wF, faulty. cbn [Nat.eqb].
      destruct f as [c| |stt| | | | | |o]; cbn [resp_of_fault err_of];
        try (change (is_2xx (Some 200%Z)) with true; cbv iota);
        try (cbn [fault_ok] in Hf; apply negb_true_iff in Hf; rewrite Hf);
        try (cbn [fault_ok] in Hf; apply andb_true_iff in Hf as [_ Hf]; apply negb_true_iff in Hf; rewrite Hf);
        eexists; (split; [reflexivity|]); (split; [reflexivity|]); simpl; (split; [reflexivity|]);
        (split; [left; split; reflexivity | reflexivity]).
    - (* the site request fails *)
      exists false, (site_api_url E).
      unfold list_all_files. rewrite run_bind. unfold get_site_id. cbn [run st0 sid].
      assert (H0 : forall r, wF 0 r = wH 0 r) by reflexivity.
      rewrite (get_json_after_fetch E wF _ st0 tk s_tok eq_refl (token_step wF H0) eq_refl).
      rewrite (get_json_cached E wF _ s_tok tk eq_refl).
      destruct (send_fault wH 1 f (site_api_url E) tk s_tok eq_refl Hf) as (s' & Hsend & Hu & Hb & Htk' & Hsd).
      fold wF in Hsend. rewrite Hsend.
      exists s'. split; [reflexivity|]. split.
      { destruct f as [c| |stt| | | | | |o]; try reflexivity.
        cbn [fault_ok] in Hf. apply andb_true_iff in Hf as [Hf _]. apply andb_true_iff in Hf as [_ H2].
        cbn [run]. destruct (o_id o); [discriminate | reflexivity]. }
      unfold balanced in Hb. simpl in Hb. split; [lia|]. split.
      + right. split; [exact Htk' | left; exact Hsd].
      + unfold nreq. rewrite Hu. reflexivity.
    - (* a listing request fails *)
      assert (H0 : forall r, wF 0 r = wH 0 r) by reflexivity.
      assert (H1 : forall r, wF 1 r = wH 1 r) by reflexivity.
      unfold list_all_files in *. rewrite run_bind in *.
      rewrite (get_site_id_fresh wF H0 H1). rewrite (get_site_id_fresh wH) in Hrun by reflexivity.
      destruct (fault_raises E wH (S (S k0)) f _ (plain_walk E site None fuel None []) Hf s_site tk _ _ eq_refl Hrun)
        as (u & s' & Hn & Hr & Hq & Hb & Htk' & Hsd).
      { split; [unfold nreq; simpl; lia | exact Hk]. }
      exists false, u, s'. split; [exact Hn|]. split; [exact Hr|].
      unfold balanced in Hb. simpl in Hb. split; [lia|]. split; [|exact Hq].
      right. split; [exact Htk' | right; exact Hsd].
  Qed.

  (* the same client, called again while the transport is healthy, returns the complete listing *)
  Lemma retry_ok : forall fuel k0 fr s',
    need P None T <= fuel -> cache_ok tk site s' -> S k0 <= nreq s' ->
    exists s'', run E (faulty wH k0 fr) (list_all_files E fuel) s' = (Ok (spec_files E [] T), s'')
                /\ balanced s' s''.
  Proof.
    intros fuel k0 fr s' Hfuel Hc Hn.
    destruct (list_all_ok E tk site P T Hwf Htk (faulty wH k0 fr) (S k0) s' fuel) as (s'' & R & _ & _ & Hb & _); auto.
    { apply healthy_from_faulty. intros k r _. reflexivity. }
    exists s''. auto.
  Qed.
End Faults.

(* ------------------------------------------------------------------ FileFilter.matches *)
Definition dt_ge (d a : dt) : bool := match dt_cmp d a with Some Lt => false | Some _ => true | None => false end.
Definition dt_lt (d b : dt) : bool := match dt_cmp d b with Some Lt => true | _ => false end.
Definition cmp_defined (d : dt) (b : option dt) : bool :=
  match b with Some x => match dt_cmp d x with Some _ => true | None => false end | None => true end.

(* declarative reading of one date block: field present, parses, after <= d (inclusive), d < before (exclusive) *)
Definition range_spec (E : env) (after before : option dt) (field : option str) : bool :=
  match after, before with
  | None, None => true
  | _, _ =>
      truthy field &&
      match parse_iso E (dflt field) with
      | None => false
      | Some d => (match after with Some a => dt_ge d a | None => true end)
                  && (match before with Some b => dt_lt d b | None => true end)
      end
  end.

(* no naive/aware mix between the parsed timestamp and the bounds *)
Definition range_comparable (E : env) (after before : option dt) (field : option str) : bool :=
  match parse_iso E (dflt field) with
  | Some d => cmp_defined d after && cmp_defined d before
  | None => true
  end.

Lemma check_range_spec E a b fld :
  range_comparable E a b fld = true -> check_range E a b fld = Ok (range_spec E a b fld).
Proof.
  unfold range_comparable, check_range, range_spec, dt_ge, dt_lt, cmp_defined. intro H.
  destruct a as [a|], b as [b|]; try reflexivity;
    destruct (truthy fld); try reflexivity; cbn [andb];
    destruct (parse_iso E (dflt fld)) as [d|]; try reflexivity;
    repeat match goal with |- context [dt_cmp ?x ?y] => destruct (dt_cmp x y) as [[| |]|] end;
    simpl in *; try discriminate; reflexivity.
Qed.

Definition spec_matches (E : env) (f : ffilter) (m : fmeta) : bool :=
  range_spec E (created_after f) (created_before f) (m_created m)
  && range_spec E (modified_after f) (modified_before f) (m_modified m)
  && ext_ok E f m && pat_ok E f m.

Definition comparable (E : env) (f : ffilter) (m : fmeta) : bool :=
  range_comparable E (created_after f) (created_before f) (m_created m)
  && range_comparable E (modified_after f) (modified_before f) (m_modified m).

Lemma matches_spec E f m : comparable E f m = true -> matches E f m = Ok (spec_matches E f m).
Proof.
  unfold comparable, matches, spec_matches. intro H. apply andb_true_iff in H as [H1 H2].
  rewrite (check_range_spec E _ _ _ H1), (check_range_spec E _ _ _ H2).
  destruct (range_spec E (created_after f) (created_before f) (m_created m)); [|reflexivity].
  destruct (range_spec E (modified_after f) (modified_before f) (m_modified m)); reflexivity.
Qed.

Lemma bounds_meaning d x :
  (dt_cmp d x = Some Eq -> dt_ge d x = true /\ dt_lt d x = false) /\
  (dt_cmp d x = Some Gt -> dt_ge d x = true /\ dt_lt d x = false) /\
  (dt_cmp d x = Some Lt -> dt_ge d x = false /\ dt_lt d x = true).
Proof. unfold dt_ge, dt_lt. split; [|split]; intro H; rewrite H; split; reflexivity. Qed.

Lemma filter_matches_filter E f g : forall l,
  (forall m, In m l -> matches E f m = Ok (g m)) -> filter_matches E f l = Ok (filter g l).
Proof.
  induction l as [|m l IH]; intro H; [reflexivity|]. cbn [filter_matches filter].
  rewrite (H m (or_introl eq_refl)), IH by (intros; apply H; right; assumption).
  destruct (g m); reflexivity.
Qed.

(* list_files_filtered without folder_paths = the filter applied to what list_all_files returns *)
Lemma filtered_as_all E w fuel f s :
  folder_paths f = [] ->
  run E w (list_files_filtered E fuel f None) s =
  match run E w (list_all_files E fuel) s with
  | (Ok l, s') => match filter_matches E f l with Ok r => (Ok r, s') | Raise e => (Raise e, s') end
  | (Raise e, s') => (Raise e, s')
  end.
Proof.
  intro Hp. unfold list_files_filtered, list_all_files. rewrite Hp, !run_bind.
  destruct (run E w (get_site_id E) s) as [[site|e] s1]; [|reflexivity].
  cbn [walk_and_filter truthy]. rewrite run_bind.
  destruct (run E w (walk E fuel site None None []) s1) as [[l|e] s2]; [|reflexivity].
  destruct (filter_matches E f l); reflexivity.
Qed.

(* truncating an exact instant x (in units of 1/u microsecond, u > 0) to whole microseconds does not change
   its position relative to a bound given in whole microseconds: the parsed value may be compared instead *)
Lemma floor_preserves_bounds (x u b : Z) : (0 < u)%Z ->
  ((b <=? x / u) = (b * u <=? x))%Z /\ ((x / u <? b) = (x <? b * u))%Z.
Proof.
  intro Hu. split.
  - apply eq_true_iff_eq. rewrite !Z.leb_le. split; intro H.
    + apply Z.le_trans with (u * (x / u))%Z; [nia | apply Z.mul_div_le; lia].
    + apply Z.div_le_lower_bound; lia.
  - apply eq_true_iff_eq. rewrite !Z.ltb_lt. split; intro H.
    + apply Z.lt_le_trans with (u * (x / u + 1))%Z; [|nia].
      pose proof (Z.mul_succ_div_gt x u Hu). lia.
    + apply Z.div_lt_upper_bound; lia.
Qed.

(* ------------------------------------------------------------------ a server that repeats a nextLink *)
(* PRE-FIX loops (before /repo commit c964930): _list_items_paginated / _get_folders_from_url had no guard against a nextLink that was already followed:
   if the page served at u names u itself as the next page, the loop issues one request per unit of fuel
   and is still not done — for EVERY fuel, i.e. the Python `while current_url:` never ends. *)
Lemma paginate_self_loop E path u items : forall fuel w s t n0,
  serves w n0 t [(u, page_obj items (Some u))] -> nonempty u = true -> n0 <= nreq s -> tok s = Some t ->
  exists s', run E w (list_items_paginated_v0 E fuel (Some u) path) s = (Raise OutOfFuel, s')
             /\ nreq s' = nreq s + fuel /\ opened s' + closed s = closed s' + opened s.
Proof.
  induction fuel as [|f IH]; intros w s t n0 Hs Hu Hn Ht; cbn [list_items_paginated_v0 truthy dflt]; rewrite Hu.
  - exists s. cbn [run]. repeat split; lia.
  - cbn [run]. erewrite get_json_ok; eauto; [|left; reflexivity].
    cbn [page_obj o_ok]. rewrite run_bind. cbn [page_obj o_next].
    destruct (IH w (adv s [(false, u)]) t n0 Hs Hu) as (s' & R & Hq & Hb); [rewrite nreq_adv; lia | exact Ht |].
    rewrite R. exists s'. split; [reflexivity|]. rewrite nreq_adv in Hq. simpl in *. lia.
Qed.

Lemma folders_self_loop u items : forall E fuel w s t n0,
  serves w n0 t [(u, page_obj items (Some u))] -> nonempty u = true -> n0 <= nreq s -> tok s = Some t ->
  exists s', run E w (get_folders_v0 fuel (Some u)) s = (Raise OutOfFuel, s') /\ nreq s' = nreq s + fuel.
Proof.
  intro E. induction fuel as [|f IH]; intros w s t n0 Hs Hu Hn Ht; cbn [get_folders_v0 truthy dflt]; rewrite Hu.
  - exists s. cbn [run]. split; [reflexivity | lia].
  - cbn [run]. erewrite get_json_ok; eauto; [|left; reflexivity].
    cbn [page_obj o_ok]. rewrite run_bind. cbn [page_obj o_next].
    destruct (IH w (adv s [(false, u)]) t n0 Hs Hu) as (s' & R & Hq); [rewrite nreq_adv; lia | exact Ht |].
    rewrite R. exists s'. split; [reflexivity|]. rewrite nreq_adv in Hq. simpl in *. lia.
Qed.

(* ------------------------------------------------------------------ list_files_created_since / list_files_modified_since *)
Definition since_pred (E : env) (created : bool) (since : dt) (exts : list str) (m : fmeta) : bool :=
  range_spec E (Some since) None (if created then m_created m else m_modified m)
  && match exts with [] => true | _ => existsb (fun e => endswith (lower E (m_name m)) (lower E e)) exts end.

Lemma range_spec_none E x : range_spec E None None x = true.
Proof. reflexivity. Qed.

Lemma since_matches E created since fps exts m :
  spec_matches E (since_filter created since fps exts) m = since_pred E created since exts m.
Proof.
  unfold spec_matches, since_pred, since_filter, ext_ok, pat_ok. destruct created; cbn [created_after created_before
    modified_after modified_before path_patterns extensions]; rewrite range_spec_none, ?andb_true_r, ?andb_true_l;
    destruct exts; reflexivity.
Qed.

(* ------------------------------------------------------------------ the guarded loops terminate against ANY server *)
(* all nextLinks the transport ever delivers lie in the finite list U (a server with finitely many page urls;
   the links may repeat, form cycles, point anywhere in U) *)
Definition links_in (w : world) (U : list str) : Prop :=
  forall k r st o, w k r = ROk st (BObj o) -> truthy (o_next o) = true -> In (dflt (o_next o)) U.

(* urls of U not followed yet: the loop's measure *)
Definition unseen (U seen : list str) : nat := List.length (filter (fun x => negb (mem_str x seen)) U).

Lemma unseen_le U seen u : unseen U (u :: seen) <= unseen U seen.
Proof.
  unfold unseen. induction U as [|a U IH]; [simpl; lia|]. simpl in *.
  destruct (str_eqb a u); destruct (mem_str a seen); simpl in *; lia.
Qed.

Lemma unseen_dec U seen u : In u U -> mem_str u seen = false -> unseen U (u :: seen) < unseen U seen.
Proof.
  intros Hin Hs. induction U as [|a U IH]; [destruct Hin|].
  pose proof (unseen_le U seen u) as Hle. unfold unseen in *. simpl in *.
  destruct Hin as [->|Hin].
  - rewrite str_eqb_refl, Hs. simpl. lia.
  - specialize (IH Hin). destruct (str_eqb a u); destruct (mem_str a seen); simpl in *; lia.
Qed.

Lemma unseen_bound U seen : unseen U seen <= List.length U.
Proof.
  unfold unseen. induction U as [|a U IH]; simpl; [lia|]. destruct (negb (mem_str a seen)); simpl; lia.
Qed.

Lemma send_source w b r s bd s' : send w b r s = (Ok bd, s') -> exists k st, w k r = ROk st bd.
Proof.
  unfold send. destruct (w (nreq s) r) as [c| | | |stt b0] eqn:Hw; try discriminate.
  destruct (is_2xx stt); [|discriminate]. intro H; inversion H; subst. eauto.
Qed.

Lemma send_not_fuel w b r s s' : send w b r s <> (Raise OutOfFuel, s').
Proof.
  unfold send. destruct (w (nreq s) r) as [c| | | |stt b0]; try discriminate. destruct (is_2xx stt); discriminate.
Qed.

Lemma fetch_token_not_fuel E w s s' : fetch_token E w s <> (Raise OutOfFuel, s').
Proof.
  unfold fetch_token. destruct (send w true _ s) as [[bd|e] s1] eqn:Hs.
  - destruct bd as [o| | |]; [destruct (truthy (o_token o))|..]; discriminate.
  - intro H; inversion H; subst. eapply send_not_fuel; eauto.
Qed.

Lemma get_json_source E w u s o s' : get_json E w u s = (Ok o, s') -> exists k r st, w k r = ROk st (BObj o).
Proof.
  unfold get_json. destruct (ensure_token E w s) as [[t|e] s1]; [|discriminate].
  destruct (send w false _ s1) as [[bd|e] s2] eqn:Hs; [|discriminate].
  destruct bd as [o'| | |]; try discriminate. intro H; inversion H; subst.
  destruct (send_source _ _ _ _ _ _ Hs) as (k & st & Hk). eauto.
Qed.

Lemma get_json_not_fuel E w u s s' : get_json E w u s <> (Raise OutOfFuel, s').
Proof.
  unfold get_json, ensure_token. destruct (tok s) as [t|].
  - destruct (send w false _ s) as [[bd|e] s2] eqn:Hs.
    + destruct bd; discriminate.
    + intro H; inversion H; subst. eapply send_not_fuel; eauto.
  - destruct (fetch_token E w s) as [[t|e] s1] eqn:Hf.
    + destruct (send w false _ s1) as [[bd|e] s2] eqn:Hs.
      * destruct bd; discriminate.
      * intro H; inversion H; subst. eapply send_not_fuel; eauto.
    + intro H; inversion H; subst. eapply fetch_token_not_fuel; eauto.
Qed.

Lemma paginate_terminates E path w U : links_in w U ->
  forall fuel seen cur s,
    (truthy cur = true -> In (dflt cur) U) -> unseen U seen < fuel ->
    fst (run E w (list_items_paginated E fuel seen cur path) s) <> Raise OutOfFuel.
Proof.
  intro HL. induction fuel as [|f IH]; intros seen cur s Hc Hm; [lia|].
  cbn [list_items_paginated]. destruct (truthy cur) eqn:Htc; [|simpl; discriminate].
  destruct (mem_str (dflt cur) seen) eqn:Hms; [simpl; discriminate|].
  cbn [run]. destruct (get_json E w (dflt cur) s) as [[o|e] s1] eqn:Hg.
  - destruct (o_ok o); [|simpl; discriminate]. rewrite run_bind.
    pose proof (IH (dflt cur :: seen) (o_next o) s1) as Hrec.
    destruct (run E w (list_items_paginated E f (dflt cur :: seen) (o_next o) path) s1) as [[r|e] s2].
    + simpl. discriminate.
    + simpl in *. apply Hrec.
      * intro Hn. destruct (get_json_source _ _ _ _ _ _ Hg) as (k & r & st & Hk). eapply HL; eauto.
      * pose proof (unseen_dec U seen (dflt cur) (Hc eq_refl) Hms). lia.
  - simpl. intro H; inversion H; subst. eapply get_json_not_fuel; eauto.
Qed.

Lemma folders_terminates E w U : links_in w U ->
  forall fuel seen cur s,
    (truthy cur = true -> In (dflt cur) U) -> unseen U seen < fuel ->
    fst (run E w (get_folders fuel seen cur) s) <> Raise OutOfFuel.
Proof.
  intro HL. induction fuel as [|f IH]; intros seen cur s Hc Hm; [lia|].
  cbn [get_folders]. destruct (truthy cur) eqn:Htc; [|simpl; discriminate].
  destruct (mem_str (dflt cur) seen) eqn:Hms; [simpl; discriminate|].
  cbn [run]. destruct (get_json E w (dflt cur) s) as [[o|e] s1] eqn:Hg.
  - destruct (o_ok o); [|simpl; discriminate]. rewrite run_bind.
    pose proof (IH (dflt cur :: seen) (o_next o) s1) as Hrec.
    destruct (run E w (get_folders f (dflt cur :: seen) (o_next o)) s1) as [[r|e] s2].
    + simpl. discriminate.
    + simpl in *. apply Hrec.
      * intro Hn. destruct (get_json_source _ _ _ _ _ _ Hg) as (k & r & st & Hk). eapply HL; eauto.
      * pose proof (unseen_dec U seen (dflt cur) (Hc eq_refl) Hms). lia.
  - simpl. intro H; inversion H; subst. eapply get_json_not_fuel; eauto.
Qed.

(* a link that was already followed makes the guarded loop raise the client's request error for that url *)
Lemma paginate_self_loop_guarded E path u items : forall w s t n0 fuel,
  serves w n0 t [(u, page_obj items (Some u))] -> nonempty u = true -> n0 <= nreq s -> tok s = Some t -> 2 <= fuel ->
  run E w (list_items_paginated E fuel [] (Some u) path) s = (Raise (RequestError None u), adv s [(false, u)]).
Proof.
  intros w s t n0 fuel Hs Hu Hn Ht Hf. destruct fuel as [|[|f]]; try lia.
  cbn [list_items_paginated truthy dflt mem_str]. rewrite Hu. cbn [run].
  erewrite get_json_ok; eauto; [|left; reflexivity].
  cbn [page_obj o_ok]. rewrite run_bind. cbn [page_obj o_next list_items_paginated truthy dflt mem_str].
  rewrite Hu, str_eqb_refl. reflexivity.
Qed.
