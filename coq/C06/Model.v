(* C06 — executable model (definitions only).
   Part A: observers of OdtContent (data_types.py) over an explicit HEAP of image objects that are
           shared by reference between the document-level list and the units, so that a write through
           an observer is expressible.  `iterate_units_orig` is OdtContent.iterate_units as found
           (writes image.unit_name); `iterate_units_fixed` is the repaired method
           (fixes/C06-odt-iterate-units-copy.patch: dataclasses.replace instead of assignment).
   Part B: Python set iteration order = permutation oracle; the set->sequence sites
           (read_docx `styles`, odt `_extract_styles_from_context`) as found and as repaired; the
           classification of set uses.
   Part C: BytesIO stream model for the caller's input buffer. *)
From Coq Require Import ZArith List Bool Lia ZifyBool.
From S2T Require Import Lib.PyStr C06.Lib.
Import ListNotations.
Open Scope N_scope.

(* ======================================================================= Part A: heap, content *)
Record image := mkImage {
  i_caption : str; i_description : str;
  i_unit_name : option Z;           (* OpenDocumentImage.unit_name *)
  i_rest : str                      (* all other fields (href, name, data ...), never written *)
}.
Definition heap := list image.      (* object id = index *)
Definition ref := nat.

Record paragraph := mkPara { p_text : str; p_style : option str; p_outline : option Z }.
Definition table := list (list str).

Record odt := mkOdt {
  o_title : str;                    (* metadata.title; stands for get_metadata() *)
  o_paragraphs : list paragraph;
  o_tables : list table;
  o_images : list ref;              (* self.images: references into the heap *)
  o_full_text : str
}.

(* OdtUnit; I = representation of the unit's images (ref: shared object, image: private copy) *)
Record ounit (I : Type) := mkUnit {
  u_text : str; u_number : Z; u_level : option Z; u_path : list str;
  u_images : list I; u_tables : list table
}.
Arguments mkUnit {I}. Arguments u_text {I}. Arguments u_number {I}. Arguments u_level {I}.
Arguments u_path {I}. Arguments u_images {I}. Arguments u_tables {I}.

Definition wf (c : odt) (h : heap) : bool := forallb (fun r => Nat.ltb r (List.length h)) (o_images c).

Definition resolve (h : heap) (rs : list ref) : list image :=
  flat_map (fun r => match nth_error h r with Some i => [i] | None => [] end) rs.

(* ----------------------------------------------------------------------- the paragraph walk *)
Record wstate := mkW {
  w_stack : list (Z * str);         (* heading_stack, TOP FIRST *)
  w_level : option Z;               (* current_heading_level *)
  w_path : list str;                (* current_heading_path *)
  w_lines : list str;               (* current_lines *)
  w_tables : list table;            (* current_tables *)
  w_index : Z;                      (* unit_index *)
  w_any : bool;                     (* any_headings *)
  w_tix : nat;                      (* table_index *)
  w_pending : list table;           (* pending_tables *)
  w_intable : bool;                 (* in_table_block *)
  w_units : list (ounit ref)        (* units (image lists still empty) *)
}.

Definition w0 : wstate := mkW [] None [] [] [] 1%Z false 0 [] false [].

Fixpoint last_is (l : list str) (t : str) : bool :=
  match l with
  | [] => false
  | [a] => str_eqb a t
  | _ :: r => last_is r t
  end.

Definition is_nil {A} (l : list A) : bool := match l with [] => true | _ => false end.

(* if not unit_heading_path or unit_heading_path[-1] != token: append *)
Definition push_token (acc : list str) (t : str) : list str :=
  if is_nil acc || negb (last_is acc t) then acc ++ [t] else acc.

Definition base_path (c : odt) : list str := if nonempty (o_title c) then [o_title c] else [].

Definition NL : str := [10].

Definition flush (base : list str) (w : wstate) : wstate :=
  let text := strip (join NL (filter nonempty (w_lines w))) in
  if negb (nonempty text) && is_nil (w_tables w)
  then mkW (w_stack w) (w_level w) (w_path w) [] [] (w_index w) (w_any w) (w_tix w) (w_pending w)
           (w_intable w) (w_units w)
  else mkW (w_stack w) (w_level w) (w_path w) [] [] (w_index w + 1)%Z (w_any w) (w_tix w) (w_pending w)
           (w_intable w)
           (w_units w ++ [mkUnit text (w_index w) (w_level w) (fold_left push_token (w_path w) base) []
                                 (w_tables w)]).

Definition is_table_style (style : str) : bool :=
  startswith style (s "Table") || contains style (s "Table_").

Definition step_para (base : list str) (tables : list table) (w : wstate) (p : paragraph) : wstate :=
  match p_outline p with
  | Some lvl =>
      let ht := strip (p_text p) in
      if nonempty ht then
        let w1 := flush base w in
        let st := (lvl, ht) :: dropWhile (fun e => Z.leb lvl (fst e)) (w_stack w1) in
        mkW st (Some lvl) (filter nonempty (map snd (rev st))) (w_lines w1)
            (w_tables w1 ++ w_pending w1) (w_index w1) true (w_tix w1) [] (w_intable w1) (w_units w1)
      else w
  | None =>
      let style := match p_style p with Some x => x | None => [] end in
      if is_table_style style then
        if w_intable w then w
        else match nth_error tables (w_tix w) with
             | Some t => mkW (w_stack w) (w_level w) (w_path w) (w_lines w) (w_tables w) (w_index w)
                             (w_any w) (S (w_tix w)) (w_pending w ++ [t]) true (w_units w)
             | None => mkW (w_stack w) (w_level w) (w_path w) (w_lines w) (w_tables w) (w_index w)
                           (w_any w) (w_tix w) (w_pending w) true (w_units w)
             end
      else
        let text := strip (p_text p) in
        mkW (w_stack w) (w_level w) (w_path w)
            (if nonempty text then w_lines w ++ [text] else w_lines w)
            (w_tables w) (w_index w) (w_any w) (w_tix w) (w_pending w) false (w_units w)
  end.

Definition walk (c : odt) : wstate :=
  let base := base_path c in
  let w := fold_left (step_para base (o_tables c)) (o_paragraphs c) w0 in
  flush base (mkW (w_stack w) (w_level w) (w_path w) (w_lines w) (w_tables w ++ w_pending w) (w_index w)
                  (w_any w) (w_tix w) [] (w_intable w) (w_units w)).

Definition single_unit {I} (c : odt) (imgs : list I) : ounit I :=
  mkUnit (o_full_text c) 1%Z (if is_nil (base_path c) then None else Some 1%Z) (base_path c) imgs (o_tables c).

(* ----------------------------------------------------------------------- leftovers -> units *)
Fixpoint find_index {A} (f : A -> bool) (l : list A) : option nat :=
  match l with
  | [] => None
  | x :: r => if f x then Some O else match find_index f r with Some k => Some (S k) | None => None end
  end.

Fixpoint find_last_index {A} (f : A -> bool) (l : list A) : option nat :=
  match l with
  | [] => None
  | x :: r => match find_last_index f r with
              | Some k => Some (S k)
              | None => if f x then Some O else None
              end
  end.

Fixpoint upd {A} (k : nat) (f : A -> A) (l : list A) : list A :=
  match l, k with
  | [], _ => []
  | x :: r, O => f x :: r
  | x :: r, S k' => x :: upd k' f r
  end.

Definition header_tokens (t : table) : list str :=
  match t with [] => [] | row :: _ => filter nonempty (map strip row) end.

Definition add_table {I} (t : table) (u : ounit I) : ounit I :=
  mkUnit (u_text u) (u_number u) (u_level u) (u_path u) (u_images u) (u_tables u ++ [t]).

Definition add_image {I} (i : I) (u : ounit I) : ounit I :=
  mkUnit (u_text u) (u_number u) (u_level u) (u_path u) (u_images u ++ [i]) (u_tables u).

Definition attach_table {I} (units : list (ounit I)) (t : table) : list (ounit I) :=
  let toks := header_tokens t in
  let dflt := (List.length units - 1)%nat in
  let k := if is_nil toks then dflt
           else match find_index (fun u => forallb (fun tok => contains (u_text u) tok) toks) units with
                | Some k => k | None => dflt end in
  upd k (add_table t) units.

Definition img_matches {I} (cap desc : str) (u : ounit I) : bool :=
  (nonempty cap && contains (u_text u) cap) || (nonempty desc && contains (u_text u) desc).

Definition level_top (l : option Z) : bool :=
  match l with None => true | Some z => Z.eqb z 1 end.

Definition fallback_index {I} (units : list (ounit I)) : nat :=
  if Nat.eqb (List.length units) 1 then O
  else match find_last_index (fun u => level_top (u_level u)) units with
       | Some k => k | None => (List.length units - 1)%nat end.

Definition unit_for {I} (im : image) (units : list (ounit I)) : nat :=
  match find_index (img_matches (i_caption im) (i_description im)) units with
  | Some k => k | None => fallback_index units end.

Definition set_unit_name (v : Z) (i : image) : image :=
  mkImage (i_caption i) (i_description i) (Some v) (i_rest i).

(* AS FOUND:   image.unit_name = matched_unit.unit_number ; matched_unit.images.append(image) *)
Definition attach_image_orig (st : heap * list (ounit ref)) (r : ref) : heap * list (ounit ref) :=
  let '(h, units) := st in
  match nth_error h r with
  | None => st                                  (* dangling reference: excluded by wf *)
  | Some im =>
      let k := unit_for im units in
      match nth_error units k with
      | None => st                              (* units is non-empty here *)
      | Some u => (upd r (set_unit_name (u_number u)) h, upd k (add_image r) units)
      end
  end.

(* REPAIRED:   matched_unit.images.append(replace(image, unit_name=matched_unit.unit_number)) *)
Definition attach_image_fixed (units : list (ounit image)) (im : image) : list (ounit image) :=
  let k := unit_for im units in
  match nth_error units k with
  | None => units
  | Some u => upd k (add_image (set_unit_name (u_number u) im)) units
  end.

Definition retype {I J} (u : ounit I) : ounit J :=
  mkUnit (u_text u) (u_number u) (u_level u) (u_path u) [] (u_tables u).

Definition with_tables (c : odt) (w : wstate) : list (ounit ref) :=
  fold_left attach_table (skipn (w_tix w) (o_tables c)) (w_units w).

(* OdtContent.iterate_units as found: returns the heap after the call and the yielded units *)
Definition iterate_units_orig (c : odt) (h : heap) : heap * list (ounit ref) :=
  match o_paragraphs c with
  | [] => (h, [single_unit c (o_images c)])
  | _ =>
      let w := walk c in
      if negb (w_any w)
      then (fold_left (fun h' r => upd r (set_unit_name 1%Z) h') (o_images c) h, [single_unit c (o_images c)])
      else match w_units w with
           | [] => (h, [])
           | _ => fold_left attach_image_orig (o_images c) (h, with_tables c w)
           end
  end.

(* the repaired method: same units, private copies of the images, no write *)
Definition iterate_units_fixed (c : odt) (h : heap) : list (ounit image) :=
  match o_paragraphs c with
  | [] => [single_unit c (resolve h (o_images c))]
  | _ =>
      let w := walk c in
      if negb (w_any w)
      then [single_unit c (map (set_unit_name 1%Z) (resolve h (o_images c)))]
      else match w_units w with
           | [] => []
           | _ => fold_left attach_image_fixed (resolve h (o_images c)) (map retype (with_tables c w))
           end
  end.

(* what a consumer sees of units that hold references: the objects as they are after the call *)
Definition view (h : heap) (u : ounit ref) : ounit image :=
  mkUnit (u_text u) (u_number u) (u_level u) (u_path u) (resolve h (u_images u)) (u_tables u).

(* ----------------------------------------------------------------------- to_json, observers *)
Inductive jv :=
| JNone | JInt (z : Z) | JStr (x : str) | JList (l : list jv) | JObj (l : list (str * jv)).

Definition j_opt_int (o : option Z) : jv := match o with Some z => JInt z | None => JNone end.
Definition j_opt_str (o : option str) : jv := match o with Some z => JStr z | None => JNone end.

Definition image_json (i : image) : jv :=
  JObj [(s "caption", JStr (i_caption i)); (s "description", JStr (i_description i));
        (s "unit_name", j_opt_int (i_unit_name i)); (s "rest", JStr (i_rest i))].

Definition para_json (p : paragraph) : jv :=
  JObj [(s "text", JStr (p_text p)); (s "style_name", j_opt_str (p_style p));
        (s "outline_level", j_opt_int (p_outline p))].

Definition table_json (t : table) : jv := JList (map (fun row => JList (map JStr row)) t).

(* serialize_extraction(self): every field, images looked up in the heap as it is NOW *)
Definition to_json (c : odt) (h : heap) : jv :=
  JObj [(s "title", JStr (o_title c));
        (s "paragraphs", JList (map para_json (o_paragraphs c)));
        (s "tables", JList (map table_json (o_tables c)));
        (s "images", JList (map image_json (resolve h (o_images c))));
        (s "full_text", JStr (o_full_text c))].

Inductive obs := GetFullText | IterUnits | IterImages | IterTables | GetMetadata | ToJson.

Definition obs_eqb (a b : obs) : bool :=
  match a, b with
  | GetFullText, GetFullText | IterUnits, IterUnits | IterImages, IterImages
  | IterTables, IterTables | GetMetadata, GetMetadata | ToJson, ToJson => true
  | _, _ => false
  end.

Inductive value :=
| VStr (x : str) | VUnits (l : list (ounit image)) | VImages (l : list image)
| VTables (l : list table) | VJson (j : jv).

(* one observer call: heap afterwards and the value the caller gets.  fixed=false: code as found *)
Definition step (fixed : bool) (o : obs) (c : odt) (h : heap) : heap * value :=
  match o with
  | GetFullText => (h, VStr (o_full_text c))
  | GetMetadata => (h, VStr (o_title c))
  | IterImages => (h, VImages (resolve h (o_images c)))
  | IterTables => (h, VTables (o_tables c))
  | ToJson => (h, VJson (to_json c h))
  | IterUnits =>
      if fixed then (h, VUnits (iterate_units_fixed c h))
      else let '(h', us) := iterate_units_orig c h in (h', VUnits (map (view h') us))
  end.

Definition run (fixed : bool) (os : list obs) (c : odt) (h : heap) : heap :=
  fold_left (fun h' o => fst (step fixed o c h')) os h.

Definition image_eqb (a b : image) : bool :=
  str_eqb (i_caption a) (i_caption b) && str_eqb (i_description a) (i_description b) &&
  match i_unit_name a, i_unit_name b with
  | None, None => true | Some x, Some y => Z.eqb x y | _, _ => false end &&
  str_eqb (i_rest a) (i_rest b).

Fixpoint heap_eqb (a b : heap) : bool :=
  match a, b with
  | [], [] => true
  | x :: a', y :: b' => image_eqb x y && heap_eqb a' b'
  | _, _ => false
  end.

(* iterate_units (as found) would write only values that are already there *)
Definition stable (c : odt) (h : heap) : bool := heap_eqb (fst (iterate_units_orig c h)) h.

Definition mem_obs (o : obs) (l : list obs) : bool := existsb (obs_eqb o) l.

(* ======================================================================= Part B: set order *)
(* a Python set built by inserting the elements of l, then iterated: some permutation of the
   distinct elements; which one depends on the hash seed / process: oracle `perm` *)
Definition perm_oracle := list str -> list str.

(* read_docx:  styles = list({para.style for para in paragraphs if para.style}) *)
Definition docx_styles_orig (perm : perm_oracle) (para_styles : list str) : list str :=
  perm (set_of (filter nonempty para_styles)).
(* repaired:   styles = sorted({...}) *)
Definition docx_styles_fixed (perm : perm_oracle) (para_styles : list str) : list str :=
  sort (perm (set_of (filter nonempty para_styles))).

(* odt _extract_styles_from_context: names of content.xml then styles.xml added to one set *)
Definition odt_styles_orig (perm : perm_oracle) (content_names styles_names : list str) : list str :=
  perm (set_of (filter nonempty (content_names ++ styles_names))).
Definition odt_styles_fixed (perm : perm_oracle) (content_names styles_names : list str) : list str :=
  sort (perm (set_of (filter nonempty (content_names ++ styles_names)))).

(* how the code consumes a set (classification produced by the ast inventory, Gen/C06Sites.v) *)
Inductive use :=
| UMember        (* x in S / not in S / S.add / set algebra whose result is again only tested *)
| ULen           (* len(S), bool(S) *)
| USorted        (* sorted(S) *)
| UAnyAll        (* any()/all() over S, S <= T ... *)
| UNone          (* constructed, never consumed *)
| UOrdered       (* list(S), for x in S: out.append, join(S), unknown consumer *).

Inductive res := RB (b : bool) | RN (n : nat) | RL (l : list str).

Definition site_eval (u : use) (probe : str) (f : str -> bool) (perm : perm_oracle) (l : list str) : res :=
  match u with
  | UMember => RB (mem_str probe (perm l))
  | ULen => RN (List.length (perm l))
  | USorted => RL (sort (perm l))
  | UAnyAll => RB (existsb f (perm l) && forallb f (perm l))
  | UNone => RB true
  | UOrdered => RL (perm l)
  end.

Definition neutral (u : use) : bool := match u with UOrdered => false | _ => true end.

(* inventory entry: (file, function, line, use) ; nondeterminism source: (file, function, line, kind, sink) *)
Definition site := (str * str * Z * use)%type.
Definition site_use (x : site) : use := snd x.

Inductive sink :=
| SLog           (* flows only into logger.* arguments *)
| SIdentityKey   (* id(x) used only as a set/dict key or membership probe while x is alive *)
| SEncryptOnly   (* inside an encrypt routine, not reachable from extraction *)
| SOrderKept     (* worker pool whose results are consumed in submission order (executor.map, futures in list order) *)
| SResult        (* anything else: may reach the result *).
Definition nd_site := (str * str * Z * str * sink)%type.
Definition sink_ok (k : sink) : bool := match k with SResult => false | _ => true end.

(* ======================================================================= Part C: input stream *)
Record stream := mkStream { s_buf : list N; s_pos : Z }.

Inductive sop :=
| OTell | OSeek (n : Z) | ORead (n : option Z) | OGetvalue
| OWrite (data : list N) | OTruncate (n : Z)
| OClose   (* close(), also through an owning wrapper (io.TextIOWrapper / BufferedReader not detach()ed) or `with` *).

Definition readonly (o : sop) : bool :=
  match o with OWrite _ | OTruncate _ | OClose => false | _ => true end.

Definition blen (st : stream) : Z := Z.of_nat (List.length (s_buf st)).

Definition write_at (buf : list N) (pos : nat) (data : list N) : list N :=
  let padded := buf ++ repeat 0 (pos - List.length buf) in
  firstn pos padded ++ data ++ skipn (pos + List.length data) padded.

Definition exec_op (o : sop) (st : stream) : stream :=
  match o with
  | OTell | OGetvalue => st
  | OSeek n => mkStream (s_buf st) (Z.max 0 n)
  | ORead None => mkStream (s_buf st) (Z.max (s_pos st) (blen st))
  | ORead (Some k) => mkStream (s_buf st) (Z.max (s_pos st) (Z.min (blen st) (s_pos st + Z.max 0 k)))
  | OWrite d => mkStream (write_at (s_buf st) (Z.to_nat (s_pos st)) d) (s_pos st + Z.of_nat (List.length d))
  | OTruncate n => mkStream (firstn (Z.to_nat n) (s_buf st)) (s_pos st)
  | OClose => mkStream [] 0     (* after close() none of the content can be read back by the caller *)
  end.

Definition exec (ops : list sop) (st : stream) : stream := fold_left (fun a o => exec_op o a) ops st.

(* serialization._bytesio_to_base64: tell; seek(0); read(); seek(position) -> (bytes read, stream) *)
Definition bytesio_read_all (st : stream) : list N * stream :=
  let position := s_pos st in
  let st1 := exec_op (OSeek 0) st in
  let data := skipn (Z.to_nat (s_pos st1)) (s_buf st1) in
  let st2 := exec_op (ORead None) st1 in
  (data, exec_op (OSeek position) st2).

(* zip_bomb.validate_zip_bytesio: original_pos = tell(); try: seek(0); <zipfile in mode "r": the
   library performs `lib_ops`, of which the first `k` happen before it returns or raises>
   finally: seek(original_pos) *)
Definition validate_zip_bytesio (lib_ops : list sop) (k : nat) (st : stream) : stream :=
  let original := s_pos st in
  let st1 := exec_op (OSeek 0) st in
  let st2 := exec (firstn k lib_ops) st1 in
  exec_op (OSeek original) st2.

(* stream-op inventory entry: (file, function, line, method name called on the input object) *)
Definition stream_site := (str * str * Z * str)%type.
Definition readonly_method (m : str) : bool :=
  mem_str m [s "seek"; s "tell"; s "read"; s "getvalue"; s "readable"; s "seekable"; s "readline";
             s "read1"; s "peek"; s "closed"; s "getbuffer().nbytes"].

(* ======================================================================= Part D: process history *)
(* A process-global registry of the standard library (mimetypes database, codec / namespace registries,
   environment ...): key -> value.  Importing or running an extractor may WRITE entries (fx_writes: what
   the ast inventory Gen/C06Sites.stdlib_global_writes lists for it); an extraction READS the registry
   through an arbitrary function `f` (oracle: the library's lookup, e.g. mimetypes.guess_type). *)
Definition registry := list (str * str).
Record effect := mkFx { fx_writes : list (str * str) }.

(* registry after the process went through `hist` (imports / extractions, oldest first); a later write of a
   key shadows earlier ones (assoc finds the first) *)
Definition after_history (hist : list effect) (g : registry) : registry :=
  fold_left (fun g' e => fx_writes e ++ g') hist g.

(* result of extracting x in a process with history `hist` *)
Definition extract_after {R : Type} (f : registry -> str -> R) (hist : list effect) (g : registry) (x : str) : R :=
  f (after_history hist g) x.

Definition writes_nothing (e : effect) : bool := is_nil (fx_writes e).

(* ======================================================================= Part E: content type by file name *)
Definition OCTET : str := s "application/octet-stream".

(* open_office/_shared.guess_content_type and epub_extractor._guess_content_type AS FOUND:
   mimetypes.guess_type(path)[0] or "application/octet-stream", a look-up in the PROCESS-GLOBAL registry g
   (host mime.types + every add_type of the process); ext_of = the library's suffix rule (oracle) *)
Definition guess_global (ext_of : str -> str) (g : registry) (path : str) : str :=
  match assoc (ext_of path) g with
  | Some t => if is_nil t then OCTET else t
  | None => OCTET
  end.

(* repaired (fixes/proposed-not-applied/C06-private-mime-registry.patch): the same look-up in a private table T
   (mimetypes.MimeTypes(filenames=()): Python's built-in defaults), whatever the process-global registry holds *)
Definition guess_private (ext_of : str -> str) (T : registry) (g : registry) (path : str) : str :=
  guess_global ext_of T path.

(* ======================================================================= Part F: removing id(reader) from reprs *)
(* pdf_extractor: re.sub(r"(IndirectObject\(\d+, \d+), \d+\)", r"\1)", text)  (any_gen = true), and the variant
   r"(IndirectObject\(\d+, 0), \d+\)" (any_gen = false).  ASCII is_digits only (pypdf prints ints). *)
Definition is_digit (c : N) : bool := (48 <=? c) && (c <=? 57).

Fixpoint span_digits (x : str) : str * str :=
  match x with
  | [] => ([], [])
  | c :: r => if is_digit c then let (d, t) := span_digits r in (c :: d, t) else ([], x)
  end.

Definition drop_prefix (p x : str) : option str :=
  if startswith x p then Some (skipn (List.length p) x) else None.

Definition IND : str := s "IndirectObject(".
Definition SEP : str := s ", ".

(* a match of the pattern at the head of x: (replacement text, rest of x) *)
Definition match_ind (any_gen : bool) (x : str) : option (str * str) :=
  match drop_prefix IND x with
  | None => None
  | Some x1 =>
    let (dn, x2) := span_digits x1 in
    if is_nil dn then None else
    match drop_prefix SEP x2 with
    | None => None
    | Some x3 =>
      let (dg, x4) := span_digits x3 in
      if is_nil dg || (negb any_gen && negb (str_eqb dg (s "0"))) then None else
      match drop_prefix SEP x4 with
      | None => None
      | Some x5 =>
        let (did, x6) := span_digits x5 in
        if is_nil did then None else
        match x6 with
        | 41 :: x7 => Some (IND ++ dn ++ SEP ++ dg ++ [41], x7)
        | _ => None
        end
      end
    end
  end.

(* re.sub: leftmost, non-overlapping; None = out of fuel (never, see C06_strip_reader_id_independent) *)
Fixpoint sub_fuel (any_gen : bool) (fuel : nat) (x : str) : option str :=
  match fuel with
  | O => None
  | S f =>
    match x with
    | [] => Some []
    | c :: r =>
      match match_ind any_gen x with
      | Some (rep, rest) => option_map (app rep) (sub_fuel any_gen f rest)
      | None => option_map (cons c) (sub_fuel any_gen f r)
      end
    end
  end.

Definition strip_ids (any_gen : bool) (x : str) : option str := sub_fuel any_gen (S (List.length x)) x.

(* repr(IndirectObject(n, g, pdf)) with the numbers given as digit strings *)
Definition show_ind (dn dg did : str) : str := IND ++ dn ++ SEP ++ dg ++ SEP ++ did ++ [41].
Definition is_digits (d : str) : bool := negb (is_nil d) && forallb is_digit d.

(* classes of stringification sites (Gen/C06Sites.stringify_sites) *)
Inductive sclass := KStripped | KException | KReviewed | KObject.
Definition sclass_ok (k : sclass) : bool := match k with KObject => false | _ => true end.

(* ======================================================================= Part G: order of archive results *)
(* archive_extractor._extract_from_zip_optimized / _extract_from_tar_optimized: first pass collects the members to
   process (directories and _should_skip_file members dropped), second pass reads each (too large / unreadable
   members dropped) and yields what the member's extractor yields (_process_archive_entry: results yielded before an
   exception are kept, the exception is swallowed).  R = identity of a result. *)
Record amember (R : Type) := mkAM {
  am_dir : bool;             (* info.is_dir() / not member.isreg() *)
  am_skip : bool;            (* _should_skip_file(filename, basename): hidden, unsupported, nested archive (oracle: C09) *)
  am_too_large : bool;       (* size > max_memory_size or > MAX_ARCHIVE_FILE_SIZE *)
  am_unreadable : bool;      (* zf.read / tf.extractfile failed *)
  am_results : list R        (* what the member's own extractor yields before it returns or raises (oracle) *)
}.
Arguments mkAM {R}. Arguments am_dir {R}. Arguments am_skip {R}. Arguments am_too_large {R}.
Arguments am_unreadable {R}. Arguments am_results {R}.

Definition to_process {R} (ms : list (amember R)) : list (amember R) :=
  filter (fun m => negb (am_dir m) && negb (am_skip m)) ms.

Definition entry_results {R} (m : amember R) : list R :=
  if am_too_large m || am_unreadable m then [] else am_results m.

Definition archive_results {R} (ms : list (amember R)) : list R := flat_map entry_results (to_process ms).

(* a worker pool: task i finishes at some point decided by the scheduler; `completion` = the order in which the
   tasks finish (a permutation of the task list, oracle) *)
Definition pool_as_completed {R} (completion : list (amember R) -> list (amember R)) (ms : list (amember R)) : list R :=
  flat_map entry_results (completion (to_process ms)).

(* results consumed in submission order (executor.map / futures waited for in list order): the scheduler only decides
   WHEN a result is available, the consumer takes them by position *)
Definition pool_in_submission_order {R} (completion : list (amember R) -> list (amember R)) (ms : list (amember R)) : list R :=
  flat_map entry_results (to_process ms).
