(* C06 -- obligation (process-global state) re-decided by the kernel over the inventory generated from the repo on this run. *)
From Coq Require Import ZArith List Bool.
From S2T Require Import Lib.PyStr C06.Lib C06.Model Gen.C06Sites.
Import ListNotations.

(* premise of C06_history_independent for the code: nothing in sharepoint2text/parsing writes to process-global
   state of the standard library (mimetypes.add_type, locale.setlocale, ET.register_namespace, os.environ[..] = ,
   sys.path / sys.setrecursionlimit, csv.field_size_limit ...), neither at import time nor later *)
Theorem C06_no_stdlib_global_writes : stdlib_global_writes = [].
Proof. vm_compute. reflexivity. Qed.
Print Assumptions C06_no_stdlib_global_writes.
