(* C06 — obligations (purity part) re-decided by the kernel over the inventories generated from the repo on this run. *)
From Coq Require Import ZArith List Bool.
From S2T Require Import Lib.PyStr C06.Lib C06.Model Gen.C06Sites.
Import ListNotations.

(* premise of C06_readonly_ops_keep_buffer for the code: only read-only methods are called on the input
   object, and it is handed to zipfile/open only in mode "r" *)
Theorem C06_input_stream_readonly :
  forallb (fun x : stream_site => readonly_method (snd x)) stream_sites
  && forallb (fun x : str * str * Z * str => str_eqb (snd x) (s "r")) open_modes = true.
Proof. vm_compute. reflexivity. Qed.
Print Assumptions C06_input_stream_readonly.
