(* C06 — small Python-semantics library used by the C06 model: str.strip / `in` / join, a total
   order on str (code-point lexicographic = Python's str ordering), insertion sort = sorted(),
   and the order-insensitivity lemmas that neutralise a set-iteration site. *)
From Coq Require Import ZArith List Bool Lia ZifyBool Permutation.
From S2T Require Import Lib.PyStr.
Import ListNotations.
Open Scope N_scope.

(* ---------------------------------------------------------------- str.strip(), `p in x`, join *)
(* code points c with chr(c).isspace() in CPython 3.12 (the check re-derives this list from the
   running interpreter and compares) *)
Definition py_space : list N :=
  [9;10;11;12;13;28;29;30;31;32;133;160;5760;8192;8193;8194;8195;8196;8197;8198;8199;8200;8201;8202;
   8232;8233;8239;8287;12288].

Definition is_space (c : N) : bool := existsb (N.eqb c) py_space.

Definition lstrip (x : str) : str := dropWhile is_space x.
Definition rstrip (x : str) : str := rev (dropWhile is_space (rev x)).
Definition strip (x : str) : str := rstrip (lstrip x).

(* `p in x` for strings *)
Fixpoint contains (x p : str) : bool :=
  startswith x p || match x with [] => false | _ :: x' => contains x' p end.

Fixpoint join (sep : str) (l : list str) : str :=
  match l with
  | [] => []
  | [a] => a
  | a :: r => a ++ sep ++ join sep r
  end.

Definition nonempty (x : str) : bool := match x with [] => false | _ => true end.

(* ---------------------------------------------------------------- order on str *)
Fixpoint str_leb (a b : str) : bool :=
  match a, b with
  | [], _ => true
  | _ :: _, [] => false
  | x :: a', y :: b' => if N.ltb x y then true else if N.eqb x y then str_leb a' b' else false
  end.

Lemma str_leb_total a b : str_leb a b = true \/ str_leb b a = true.
Proof.
  revert b; induction a as [|x a IH]; destruct b as [|y b]; simpl; auto.
  destruct (N.ltb x y) eqn:L1; [auto|]. destruct (N.ltb y x) eqn:L2; [auto|].
  apply N.ltb_ge in L1. apply N.ltb_ge in L2. assert (x = y) by lia. subst.
  rewrite N.eqb_refl. apply IH.
Qed.

Lemma str_leb_antisym a b : str_leb a b = true -> str_leb b a = true -> a = b.
Proof.
  revert b; induction a as [|x a IH]; destruct b as [|y b]; simpl; intros H1 H2;
    try reflexivity; try discriminate.
  destruct (N.ltb x y) eqn:L1.
  - apply N.ltb_lt in L1. destruct (N.ltb y x) eqn:L2; [apply N.ltb_lt in L2; lia|].
    destruct (N.eqb y x) eqn:E; [apply N.eqb_eq in E; lia | discriminate].
  - destruct (N.eqb x y) eqn:E; [|discriminate]. apply N.eqb_eq in E; subst.
    rewrite N.ltb_irrefl, N.eqb_refl in H2. f_equal. apply IH; assumption.
Qed.

Lemma str_leb_trans a b c : str_leb a b = true -> str_leb b c = true -> str_leb a c = true.
Proof.
  revert b c; induction a as [|x a IH]; intros [|y b] [|z c]; simpl; intros H1 H2;
    try reflexivity; try discriminate.
  destruct (N.ltb x y) eqn:L1.
  - apply N.ltb_lt in L1. destruct (N.ltb y z) eqn:L2.
    + apply N.ltb_lt in L2. assert (L : N.ltb x z = true) by (apply N.ltb_lt; lia). rewrite L; reflexivity.
    + destruct (N.eqb y z) eqn:E; [|discriminate]. apply N.eqb_eq in E; subst.
      assert (L : N.ltb x z = true) by (apply N.ltb_lt; lia). rewrite L; reflexivity.
  - destruct (N.eqb x y) eqn:E; [|discriminate]. apply N.eqb_eq in E; subst.
    destruct (N.ltb y z) eqn:L2; [reflexivity|].
    destruct (N.eqb y z) eqn:E2; [|discriminate]. eapply IH; eassumption.
Qed.

(* ---------------------------------------------------------------- sorted() *)
Fixpoint insert (x : str) (l : list str) : list str :=
  match l with
  | [] => [x]
  | y :: r => if str_leb x y then x :: l else y :: insert x r
  end.

Fixpoint sort (l : list str) : list str :=
  match l with
  | [] => []
  | x :: r => insert x (sort r)
  end.

Lemma insert_comm x y l : insert x (insert y l) = insert y (insert x l).
Proof.
  induction l as [|a l IH]; simpl.
  - destruct (str_leb x y) eqn:XY, (str_leb y x) eqn:YX; try reflexivity.
    + rewrite (str_leb_antisym x y XY YX). reflexivity.
    + destruct (str_leb_total x y); congruence.
  - destruct (str_leb y a) eqn:YA, (str_leb x a) eqn:XA; simpl.
    + destruct (str_leb x y) eqn:XY, (str_leb y x) eqn:YX; rewrite ?YA, ?XA; try reflexivity.
      * rewrite (str_leb_antisym x y XY YX). reflexivity.
      * destruct (str_leb_total x y); congruence.
    + (* y <= a, not x <= a : then not x <= y *)
      assert (XY : str_leb x y = false).
      { destruct (str_leb x y) eqn:XY; [|reflexivity]. rewrite (str_leb_trans x y a XY YA) in XA. discriminate. }
      rewrite XY, XA, YA. reflexivity.
    + assert (YX : str_leb y x = false).
      { destruct (str_leb y x) eqn:YX; [|reflexivity]. rewrite (str_leb_trans y x a YX XA) in YA. discriminate. }
      rewrite YX, XA, YA. reflexivity.
    + rewrite XA, YA, IH. reflexivity.
Qed.

Lemma sort_perm l l' : Permutation l l' -> sort l = sort l'.
Proof.
  induction 1 as [|x l l' _ IH|x y l|l l' l'' _ IH1 _ IH2]; simpl.
  - reflexivity.
  - rewrite IH; reflexivity.
  - apply insert_comm.
  - congruence.
Qed.

Lemma insert_perm x l : Permutation (insert x l) (x :: l).
Proof.
  induction l as [|y l IH]; simpl; [apply Permutation_refl|].
  destruct (str_leb x y); [apply Permutation_refl|].
  eapply Permutation_trans; [apply perm_skip, IH | apply perm_swap].
Qed.

Lemma sort_is_perm l : Permutation (sort l) l.
Proof.
  induction l as [|x l IH]; simpl; [constructor|].
  eapply Permutation_trans; [apply insert_perm | apply perm_skip, IH].
Qed.

Fixpoint sortedb (l : list str) : bool :=
  match l with
  | [] => true
  | x :: r => match r with [] => true | y :: _ => str_leb x y && sortedb r end
  end.

Lemma insert_sorted x l : sortedb l = true -> sortedb (insert x l) = true.
Proof.
  induction l as [|y l IH]; simpl; [reflexivity|]. intro H.
  destruct (str_leb x y) eqn:XY.
  - simpl. rewrite XY. exact H.
  - assert (YX : str_leb y x = true) by (destruct (str_leb_total x y); congruence).
    destruct l as [|z l]; simpl.
    + rewrite YX. reflexivity.
    + simpl in IH. apply andb_true_iff in H as [YZ H]. specialize (IH H).
      destruct (str_leb x z) eqn:XZ.
      * rewrite YX. simpl. simpl in IH. rewrite XZ in *. exact IH.
      * rewrite YZ. simpl. exact IH.
Qed.

Lemma sort_sorted l : sortedb (sort l) = true.
Proof. induction l as [|x l IH]; simpl; [reflexivity | apply insert_sorted, IH]. Qed.

(* ---------------------------------------------------------------- order-insensitive uses *)
Lemma mem_str_perm x l l' : Permutation l l' -> mem_str x l = mem_str x l'.
Proof.
  intro P. destruct (mem_str x l) eqn:A; symmetry.
  - apply mem_str_In. apply mem_str_In in A. eapply Permutation_in; eassumption.
  - destruct (mem_str x l') eqn:B; [|reflexivity].
    apply mem_str_In in B. apply Permutation_sym in P.
    assert (I : In x l) by (eapply Permutation_in; eassumption).
    apply mem_str_In in I. congruence.
Qed.

Lemma existsb_perm {A} (f : A -> bool) l l' : Permutation l l' -> existsb f l = existsb f l'.
Proof.
  induction 1; simpl; try congruence.
  destruct (f x), (f y); reflexivity.
Qed.

Lemma forallb_perm {A} (f : A -> bool) l l' : Permutation l l' -> forallb f l = forallb f l'.
Proof.
  induction 1; simpl; try congruence.
  destruct (f x), (f y); reflexivity.
Qed.

(* set construction: insertion of the elements of l into an initially empty set; canonical
   representative = first occurrences in insertion order *)
Fixpoint dedupe (seen l : list str) : list str :=
  match l with
  | [] => []
  | x :: r => if mem_str x seen then dedupe seen r else x :: dedupe (x :: seen) r
  end.

Definition set_of (l : list str) : list str := dedupe [] l.

(* sorted(S, key=k): stable insertion by key -- elements with equal keys keep their incoming order *)
Fixpoint insert_by (k : str -> str) (x : str) (l : list str) : list str :=
  match l with
  | [] => [x]
  | y :: r => if str_leb (k x) (k y) then x :: l else y :: insert_by k x r
  end.
Definition sort_by (k : str -> str) (l : list str) : list str := fold_right (insert_by k) [] l.
