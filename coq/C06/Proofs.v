(* C06 — lemmas. *)
From Coq Require Import ZArith List Bool Lia ZifyBool Permutation.
From S2T Require Import Lib.PyStr C06.Lib C06.Model.
Import ListNotations.
Open Scope N_scope.

(* ======================================================================= Part A *)
Lemma image_eqb_eq a b : image_eqb a b = true -> a = b.
Proof.
  destruct a as [c1 d1 u1 r1], b as [c2 d2 u2 r2]. unfold image_eqb; simpl. intro H.
  apply andb_true_iff in H as [H Hr]. apply andb_true_iff in H as [H Hu]. apply andb_true_iff in H as [Hc Hd].
  apply str_eqb_eq in Hc, Hd, Hr. subst.
  destruct u1 as [x|], u2 as [y|]; try discriminate; [apply Z.eqb_eq in Hu; subst|]; reflexivity.
Qed.

Lemma heap_eqb_eq a b : heap_eqb a b = true -> a = b.
Proof.
  revert b; induction a as [|x a IH]; destruct b as [|y b]; simpl; intro H; try reflexivity; try discriminate.
  apply andb_true_iff in H as [H1 H2]. apply image_eqb_eq in H1. apply IH in H2. congruence.
Qed.

Lemma image_eqb_refl a : image_eqb a a = true.
Proof.
  destruct a as [c d u r]. unfold image_eqb; simpl. rewrite !str_eqb_refl. destruct u; simpl; [rewrite Z.eqb_refl|]; reflexivity.
Qed.

Lemma heap_eqb_refl a : heap_eqb a a = true.
Proof. induction a; simpl; [reflexivity|]. rewrite image_eqb_refl; assumption. Qed.

(* every observer except the original iterate_units is a read *)
Lemma pure_frame fixed o c h : (fixed || negb (obs_eqb o IterUnits)) = true -> fst (step fixed o c h) = h.
Proof. destruct fixed, o; simpl; intro H; try reflexivity; discriminate. Qed.

Lemma run_fix fixed os c h :
  (forall o, In o os -> fst (step fixed o c h) = h) -> run fixed os c h = h.
Proof.
  unfold run. induction os as [|o os IH]; simpl; intro H; [reflexivity|].
  rewrite (H o (or_introl eq_refl)). apply IH. intros o' Ho'. apply H. right; assumption.
Qed.

Lemma mem_obs_false o os : mem_obs o os = false -> forall o', In o' os -> obs_eqb o o' = false.
Proof.
  unfold mem_obs. induction os as [|x os IH]; simpl; intros H o' Hin; [contradiction|].
  apply orb_false_iff in H as [H1 H2]. destruct Hin as [->|Hin]; auto.
Qed.

Lemma obs_eqb_sym a b : obs_eqb a b = obs_eqb b a.
Proof. destruct a, b; reflexivity. Qed.

Lemma step_orig_iter_units c h : fst (step false IterUnits c h) = fst (iterate_units_orig c h).
Proof. simpl. destruct (iterate_units_orig c h); reflexivity. Qed.

Lemma run_partial os c h :
  (negb (mem_obs IterUnits os) || stable c h) = true -> run false os c h = h.
Proof.
  intro H. apply run_fix. intros o Ho.
  destruct (obs_eqb o IterUnits) eqn:E.
  - destruct o; try discriminate. apply orb_true_iff in H as [H|H].
    + apply negb_true_iff in H. pose proof (mem_obs_false _ _ H _ Ho) as F. discriminate.
    + rewrite step_orig_iter_units. apply heap_eqb_eq. exact H.
  - apply pure_frame. rewrite E. reflexivity.
Qed.

Lemma run_fixed os c h : run true os c h = h.
Proof. apply run_fix. intros o _. apply pure_frame. reflexivity. Qed.

(* the witness: one body paragraph, no heading, one image without attribution *)
Definition wit_c : odt := mkOdt [] [mkPara (s "a") None None] [] [O] (s "a").
Definition wit_h : heap := [mkImage [] [] None (s "img")].

Lemma iterate_units_mutates :
  wf wit_c wit_h = true /\ to_json wit_c (run false [IterUnits] wit_c wit_h) <> to_json wit_c wit_h.
Proof. split; [vm_compute; reflexivity|]. vm_compute. intro H. discriminate H. Qed.

(* non-vacuity of the partial theorem's hypothesis: satisfiable with AND without iterate_units *)
Definition stable_h : heap := [mkImage [] [] (Some 1%Z) (s "img")].
Lemma partial_hyp_sat1 : (negb (mem_obs IterUnits [IterUnits; ToJson]) || stable wit_c stable_h) = true.
Proof. vm_compute. reflexivity. Qed.
Lemma partial_hyp_sat2 : (negb (mem_obs IterUnits [GetFullText; ToJson; IterImages]) || stable wit_c wit_h) = true.
Proof. vm_compute. reflexivity. Qed.
Lemma partial_hyp_excludes : (negb (mem_obs IterUnits [IterUnits]) || stable wit_c wit_h) = false.
Proof. vm_compute. reflexivity. Qed.

(* ======================================================================= Part B *)
Lemma styles_order_dependent :
  exists (l : list str) (perm1 perm2 : perm_oracle),
    (forall x, Permutation (perm1 x) x) /\ (forall x, Permutation (perm2 x) x) /\
    docx_styles_orig perm1 l <> docx_styles_orig perm2 l /\
    odt_styles_orig perm1 l [] <> odt_styles_orig perm2 l [].
Proof.
  exists [s "b"; s "a"], (fun x => x), (@rev str). repeat split.
  - intro x. apply Permutation_refl.
  - intro x. apply Permutation_sym, Permutation_rev.
  - vm_compute. intro H. discriminate H.
  - vm_compute. intro H. discriminate H.
Qed.

Lemma sorted_of_set_independent (perm1 perm2 : perm_oracle) (l : list str) :
  Permutation (perm1 l) l -> Permutation (perm2 l) l -> sort (perm1 l) = sort (perm2 l).
Proof. intros P1 P2. apply sort_perm. eapply Permutation_trans; [exact P1 | apply Permutation_sym, P2]. Qed.

Lemma neutral_uses u probe f (perm1 perm2 : perm_oracle) l :
  neutral u = true -> Permutation (perm1 l) l -> Permutation (perm2 l) l ->
  site_eval u probe f perm1 l = site_eval u probe f perm2 l.
Proof.
  intros N P1 P2.
  assert (P : Permutation (perm1 l) (perm2 l)) by (eapply Permutation_trans; [exact P1 | apply Permutation_sym, P2]).
  destruct u; simpl; try discriminate.
  - f_equal. apply mem_str_perm, P.
  - f_equal. apply Permutation_length, P.
  - f_equal. apply sort_perm, P.
  - f_equal. rewrite (existsb_perm f _ _ P), (forallb_perm f _ _ P). reflexivity.
  - reflexivity.
Qed.

Lemma ordered_use_depends :
  exists l (perm1 perm2 : perm_oracle), Permutation (perm1 l) l /\ Permutation (perm2 l) l /\
    site_eval UOrdered [] (fun _ => true) perm1 l <> site_eval UOrdered [] (fun _ => true) perm2 l.
Proof.
  exists [s "b"; s "a"], (fun x => x), (@rev str). repeat split.
  - apply Permutation_refl.
  - apply Permutation_sym, Permutation_rev.
  - vm_compute. intro H. discriminate H.
Qed.

(* ======================================================================= Part C *)
Lemma exec_op_readonly_buf o st : readonly o = true -> s_buf (exec_op o st) = s_buf st.
Proof. destruct o as [| |[k|]| | | |]; simpl; intro H; try reflexivity; discriminate. Qed.

Lemma exec_readonly_buf ops st : forallb readonly ops = true -> s_buf (exec ops st) = s_buf st.
Proof.
  unfold exec. revert st; induction ops as [|o ops IH]; simpl; intros st H; [reflexivity|].
  apply andb_true_iff in H as [H1 H2]. rewrite (IH _ H2). apply exec_op_readonly_buf, H1.
Qed.

Lemma forallb_firstn {A} (f : A -> bool) k l : forallb f l = true -> forallb f (firstn k l) = true.
Proof.
  revert l; induction k as [|k IH]; intros [|x l]; simpl; intro H; try reflexivity.
  apply andb_true_iff in H as [H1 H2]. rewrite H1, (IH _ H2). reflexivity.
Qed.

Lemma bytesio_read_all_spec st :
  Z.leb 0 (s_pos st) = true -> bytesio_read_all st = (s_buf st, st).
Proof.
  destruct st as [buf pos]. unfold bytesio_read_all; simpl. intro H.
  replace (Z.max 0 pos) with pos by lia. reflexivity.
Qed.

Lemma validate_zip_spec ops k st :
  forallb readonly ops = true -> Z.leb 0 (s_pos st) = true -> validate_zip_bytesio ops k st = st.
Proof.
  intros R H. unfold validate_zip_bytesio.
  pose proof (exec_readonly_buf (firstn k ops) (exec_op (OSeek 0) st) (forallb_firstn _ k _ R)) as B.
  destruct st as [buf pos]. cbn [exec_op s_buf s_pos] in *.
  replace (Z.max 0 pos) with pos by lia. rewrite B. reflexivity.
Qed.

(* the model can express a write: a non-read-only op does change the buffer *)
Lemma write_changes_buffer : s_buf (exec [OSeek 0; OWrite [7]] (mkStream [1;2] 2)) <> [1;2].
Proof. vm_compute. intro H. discriminate H. Qed.

(* ======================================================================= Part D *)
Lemma after_history_frame hist g : forallb writes_nothing hist = true -> after_history hist g = g.
Proof.
  unfold after_history. revert g; induction hist as [|e hist IH]; simpl; intros g H; [reflexivity|].
  apply andb_true_iff in H as [H1 H2]. unfold writes_nothing in H1.
  destruct (fx_writes e); [|discriminate]. simpl. apply IH, H2.
Qed.

Lemma history_independent {R} (f : registry -> str -> R) h1 h2 g x :
  forallb writes_nothing h1 = true -> forallb writes_nothing h2 = true ->
  extract_after f h1 g x = extract_after f h2 g x.
Proof. intros H1 H2. unfold extract_after. rewrite (after_history_frame h1 g H1), (after_history_frame h2 g H2). reflexivity. Qed.

(* one import-time write (".emf" -> "image/x-emf") and a reader that looks the key up *)
Definition lookup_ct (g : registry) (x : str) : option str := assoc x g.
Lemma history_dependent :
  exists (hist : list effect) (g : registry) (x : str),
    extract_after lookup_ct hist g x <> extract_after lookup_ct [] g x.
Proof.
  exists [mkFx [(s ".emf", s "image/x-emf")]], [(s ".emf", s "image/emf")], (s ".emf").
  vm_compute. intro H. discriminate H.
Qed.

(* ======================================================================= Part E *)
Lemma content_type_global_db_dependent :
  exists (g1 g2 : registry) (path : str), guess_global (fun p => p) g1 path <> guess_global (fun p => p) g2 path.
Proof. exists [(s ".emf", s "image/emf")], [], (s ".emf"). vm_compute. intro H. discriminate H. Qed.

Lemma content_type_private (ext_of : str -> str) (T : registry) h1 h2 g1 g2 x :
  extract_after (guess_private ext_of T) h1 g1 x = extract_after (guess_private ext_of T) h2 g2 x.
Proof. reflexivity. Qed.

(* ======================================================================= Part F *)
Lemma startswith_self_app p r : startswith (p ++ r) p = true.
Proof. apply startswith_app. exists r. reflexivity. Qed.

Lemma drop_prefix_app p r : drop_prefix p (p ++ r) = Some r.
Proof.
  unfold drop_prefix. rewrite startswith_self_app. f_equal.
  induction p as [|c p IH]; simpl; [reflexivity | exact IH].
Qed.

Lemma span_digits_stop ds c r :
  forallb is_digit ds = true -> is_digit c = false -> span_digits (ds ++ c :: r) = (ds, c :: r).
Proof.
  intros D C. induction ds as [|d ds IH]; simpl.
  - rewrite C. reflexivity.
  - simpl in D. apply andb_true_iff in D as [D1 D2]. rewrite D1, (IH D2). reflexivity.
Qed.

Lemma digits_split d : is_digits d = true -> d <> [] /\ forallb is_digit d = true.
Proof.
  unfold is_digits. intro H. apply andb_true_iff in H as [H1 H2]. split; [|exact H2].
  destruct d; [discriminate | discriminate].
Qed.

Lemma is_nil_false {A} (l : list A) : l <> [] -> is_nil l = false.
Proof. destruct l; [congruence | reflexivity]. Qed.

Lemma match_show any_gen dn dg did :
  is_digits dn = true -> is_digits dg = true -> is_digits did = true ->
  (any_gen || str_eqb dg (s "0")) = true ->
  match_ind any_gen (show_ind dn dg did) = Some (IND ++ dn ++ SEP ++ dg ++ [41], []).
Proof.
  intros Hn Hg Hi Hgen.
  apply digits_split in Hn as [Nn Dn]. apply digits_split in Hg as [Ng Dg]. apply digits_split in Hi as [Ni Di].
  unfold match_ind, show_ind. rewrite drop_prefix_app.
  change (SEP ++ dg ++ SEP ++ did ++ [41]) with (44 :: (32 :: dg ++ SEP ++ did ++ [41])).
  rewrite (span_digits_stop dn 44 _ Dn eq_refl). rewrite (is_nil_false dn Nn).
  change (44 :: 32 :: dg ++ SEP ++ did ++ [41]) with (SEP ++ dg ++ SEP ++ did ++ [41]). rewrite drop_prefix_app.
  change (SEP ++ did ++ [41]) with (44 :: (32 :: did ++ [41])).
  rewrite (span_digits_stop dg 44 _ Dg eq_refl). rewrite (is_nil_false dg Ng).
  assert (G : (negb any_gen && negb (str_eqb dg (s "0"))) = false).
  { destruct any_gen; simpl in *; [reflexivity | rewrite Hgen; reflexivity]. }
  rewrite G. simpl orb.
  change (44 :: 32 :: did ++ [41]) with (SEP ++ did ++ [41]). rewrite drop_prefix_app.
  rewrite (span_digits_stop did 41 [] Di eq_refl). rewrite (is_nil_false did Ni). reflexivity.
Qed.

Lemma show_ind_cons dn dg did : exists r, show_ind dn dg did = 73 :: r.
Proof. unfold show_ind, IND. simpl. eexists. reflexivity. Qed.

Lemma strip_show any_gen dn dg did :
  is_digits dn = true -> is_digits dg = true -> is_digits did = true ->
  (any_gen || str_eqb dg (s "0")) = true ->
  strip_ids any_gen (show_ind dn dg did) = Some (IND ++ dn ++ SEP ++ dg ++ [41]).
Proof.
  intros Hn Hg Hi Hgen. unfold strip_ids.
  destruct (show_ind_cons dn dg did) as [r E].
  pose proof (match_show any_gen dn dg did Hn Hg Hi Hgen) as M.
  rewrite E in *. simpl List.length. cbn [sub_fuel]. rewrite M. cbn [sub_fuel option_map]. rewrite app_nil_r. reflexivity.
Qed.

Lemma strip_independent dn dg did1 did2 :
  is_digits dn = true -> is_digits dg = true -> is_digits did1 = true -> is_digits did2 = true ->
  strip_ids true (show_ind dn dg did1) = strip_ids true (show_ind dn dg did2)
  /\ strip_ids true (show_ind dn dg did1) <> None.
Proof.
  intros Hn Hg H1 H2. rewrite (strip_show true dn dg did1 Hn Hg H1 eq_refl), (strip_show true dn dg did2 Hn Hg H2 eq_refl).
  split; [reflexivity | discriminate].
Qed.

(* the generation-0-only pattern lets the id through for generation 1 *)
Lemma strip_gen0_only_leaks :
  exists dn dg did1 did2, is_digits dn = true /\ is_digits dg = true /\ is_digits did1 = true /\ is_digits did2 = true /\
    strip_ids false (show_ind dn dg did1) <> strip_ids false (show_ind dn dg did2).
Proof.
  exists (s "6"), (s "1"), (s "139875842957936"), (s "140458440683120"). repeat split; try reflexivity.
  vm_compute. intro H. discriminate H.
Qed.

(* inside an array repr, as it reaches color_space *)
Lemma strip_in_array :
  strip_ids true (s "['/ICCBased', IndirectObject(6, 1, 139875842957936)]") = Some (s "['/ICCBased', IndirectObject(6, 1)]")
  /\ strip_ids true (s "{'/K': IndirectObject(8, 7, 1), '/L': [IndirectObject(10, 0, 22)]}")
     = Some (s "{'/K': IndirectObject(8, 7), '/L': [IndirectObject(10, 0)]}").
Proof. split; vm_compute; reflexivity. Qed.

(* closing the caller's buffer (directly or through a wrapper that owns it) loses the content for the caller *)
Lemma close_loses_buffer : s_buf (exec [OSeek 0; ORead None; OClose] (mkStream [1;2] 0)) <> [1;2].
Proof. vm_compute. intro H. discriminate H. Qed.

(* ======================================================================= Part G *)
Lemma to_process_app {R} (a b : list (amember R)) : to_process (a ++ b) = to_process a ++ to_process b.
Proof. unfold to_process. apply filter_app. Qed.

Lemma archive_results_app {R} (a b : list (amember R)) :
  archive_results (a ++ b) = archive_results a ++ archive_results b.
Proof. unfold archive_results. rewrite to_process_app, flat_map_app. reflexivity. Qed.

Lemma archive_results_cons {R} (m : amember R) ms :
  archive_results (m :: ms) =
  (if am_dir m || am_skip m || am_too_large m || am_unreadable m then [] else am_results m) ++ archive_results ms.
Proof.
  destruct m as [d k l u rs]. unfold archive_results, to_process, entry_results.
  destruct d, k, l, u; simpl; reflexivity.
Qed.

(* every result of an earlier member precedes every result of a later member *)
Lemma archive_order {R} (a : list (amember R)) m1 (b : list (amember R)) m2 (c : list (amember R)) r1 r2 :
  In r1 (archive_results [m1]) -> In r2 (archive_results [m2]) ->
  exists pre mid post, archive_results (a ++ m1 :: b ++ m2 :: c) = pre ++ r1 :: mid ++ r2 :: post.
Proof.
  intros H1 H2.
  apply in_split in H1 as [x1 [y1 E1]]. apply in_split in H2 as [x2 [y2 E2]].
  replace (a ++ m1 :: b ++ m2 :: c) with (a ++ [m1] ++ b ++ [m2] ++ c) by reflexivity.
  rewrite !archive_results_app, E1, E2.
  exists (archive_results a ++ x1), (y1 ++ archive_results b ++ x2), (y2 ++ archive_results c).
  repeat rewrite <- app_assoc. simpl. repeat rewrite <- app_assoc. reflexivity.
Qed.

Lemma pool_in_order_independent {R} (c1 c2 : list (amember R) -> list (amember R)) ms :
  pool_in_submission_order c1 ms = pool_in_submission_order c2 ms
  /\ pool_in_submission_order c1 ms = archive_results ms.
Proof. split; reflexivity. Qed.

Lemma pool_as_completed_depends :
  exists (c1 c2 : list (amember N) -> list (amember N)) (ms : list (amember N)),
    (forall l, Permutation (c1 l) l) /\ (forall l, Permutation (c2 l) l) /\
    pool_as_completed c1 ms <> pool_as_completed c2 ms.
Proof.
  exists (fun l => l), (@rev (amember N)),
         [mkAM false false false false [1]; mkAM false false false false [2]].
  repeat split.
  - intro l. apply Permutation_refl.
  - intro l. apply Permutation_sym, Permutation_rev.
  - vm_compute. intro H. discriminate H.
Qed.

(* sorted(set, key=k) with a key that is not injective: ties follow the set's iteration order *)
Lemma sorted_with_key_depends :
  exists (k : str -> str) (l : list str) (perm1 perm2 : perm_oracle),
    Permutation (perm1 l) l /\ Permutation (perm2 l) l /\ sort_by k (perm1 l) <> sort_by k (perm2 l).
Proof.
  exists (fun _ => []), [s "P1"; s "P01"], (fun x => x), (@rev str). repeat split.
  - apply Permutation_refl.
  - apply Permutation_sym, Permutation_rev.
  - vm_compute. intro H. discriminate H.
Qed.
