(* C06 — obligations (nondeterminism sources) re-decided by the kernel over the inventories generated from the repo on this run. *)
From Coq Require Import ZArith List Bool.
From S2T Require Import Lib.PyStr C06.Lib C06.Model Gen.C06Sites.
Import ListNotations.

(* id( / time. / random / secrets / uuid / os.listdir ... never flow into a result *)
Theorem C06_nd_sites_no_result_sink : forallb (fun x : nd_site => sink_ok (snd x)) nd_sites = true.
Proof. vm_compute. reflexivity. Qed.
Print Assumptions C06_nd_sites_no_result_sink.
