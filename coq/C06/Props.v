(* C06 — property theorems.  Only statements closed by `exact`, each followed by Print Assumptions.
   Model: C06/Model.v (heap of shared image objects; set order = permutation oracle; BytesIO stream). *)
From Coq Require Import ZArith List Bool Permutation.
From S2T Require Import Lib.PyStr C06.Lib C06.Model C06.Proofs.
Import ListNotations.

(* ---- observers ------------------------------------------------------------------------------ *)
(* every observer other than OdtContent.iterate_units-as-found leaves every shared object as it was
   (and so does every observer of the repaired code) *)
Theorem C06_pure_observers_frame :
  forall (fixed : bool) (o : obs) (c : odt) (h : heap),
    (fixed || negb (obs_eqb o IterUnits)) = true -> fst (step fixed o c h) = h.
Proof. exact pure_frame. Qed.
Print Assumptions C06_pure_observers_frame.

(* FULL STATEMENT IS FALSE of the code as found: one call of iterate_units changes a later to_json() *)
Theorem C06_iterate_units_mutates_refuted :
  exists (c : odt) (h : heap),
    wf c h = true /\ to_json c (run false [IterUnits] c h) <> to_json c h.
Proof. exists wit_c, wit_h. exact iterate_units_mutates. Qed.
Print Assumptions C06_iterate_units_mutates_refuted.

(* strongest true statement about the code as found: any observer sequence leaves the shared objects
   (hence to_json and every later observation) unchanged, PROVIDED it does not call iterate_units or the
   images already carry the attribution iterate_units would write *)
Theorem C06_observers_idempotent_partial :
  forall (os : list obs) (c : odt) (h : heap),
    (negb (mem_obs IterUnits os) || stable c h) = true ->
    run false os c h = h /\ to_json c (run false os c h) = to_json c h
    /\ forall o, snd (step false o c (run false os c h)) = snd (step false o c h).
Proof.
  intros os c h H. rewrite (run_partial os c h H). repeat split; reflexivity.
Qed.
Print Assumptions C06_observers_idempotent_partial.

Example C06_partial_hypothesis_satisfiable :
  (negb (mem_obs IterUnits [IterUnits; ToJson]) || stable wit_c stable_h) = true
  /\ (negb (mem_obs IterUnits [GetFullText; ToJson; IterImages]) || stable wit_c wit_h) = true
  /\ (negb (mem_obs IterUnits [IterUnits]) || stable wit_c wit_h) = false.
Proof. exact (conj partial_hyp_sat1 (conj partial_hyp_sat2 partial_hyp_excludes)). Qed.
Print Assumptions C06_partial_hypothesis_satisfiable.

(* repaired iterate_units (private copies instead of writes): the full statement, no hypothesis *)
Theorem C06_observers_idempotent_fixed :
  forall (os : list obs) (c : odt) (h : heap), to_json c (run true os c h) = to_json c h.
Proof. intros os c h. rewrite (run_fixed os c h). reflexivity. Qed.
Print Assumptions C06_observers_idempotent_fixed.

(* ... and every observer returns the same value after any observer sequence as before it *)
Theorem C06_observer_values_fixed :
  forall (os : list obs) (o : obs) (c : odt) (h : heap),
    snd (step true o c (run true os c h)) = snd (step true o c h).
Proof. intros os o c h. rewrite (run_fixed os c h). reflexivity. Qed.
Print Assumptions C06_observer_values_fixed.

(* ---- hash seed / process = iteration order of sets ------------------------------------------- *)
(* FALSE of the code as found: list(set) reaches the result (read_docx styles, ODT styles) *)
Theorem C06_seed_independent_refuted :
  exists (l : list str) (perm1 perm2 : perm_oracle),
    (forall x, Permutation (perm1 x) x) /\ (forall x, Permutation (perm2 x) x) /\
    docx_styles_orig perm1 l <> docx_styles_orig perm2 l /\
    odt_styles_orig perm1 l [] <> odt_styles_orig perm2 l [].
Proof. exact styles_order_dependent. Qed.
Print Assumptions C06_seed_independent_refuted.

(* repaired (sorted(set)): the same list under every iteration order, and it is the sorted set *)
Theorem C06_seed_independent_fixed :
  forall (perm1 perm2 : perm_oracle) (ps cs ss : list str),
    (forall x, Permutation (perm1 x) x) -> (forall x, Permutation (perm2 x) x) ->
    docx_styles_fixed perm1 ps = docx_styles_fixed perm2 ps
    /\ odt_styles_fixed perm1 cs ss = odt_styles_fixed perm2 cs ss
    /\ sortedb (docx_styles_fixed perm1 ps) = true
    /\ Permutation (docx_styles_fixed perm1 ps) (set_of (filter nonempty ps)).
Proof.
  intros perm1 perm2 ps cs ss P1 P2. repeat split.
  - apply sorted_of_set_independent; auto.
  - apply sorted_of_set_independent; auto.
  - apply sort_sorted.
  - eapply Permutation_trans; [apply sort_is_perm | apply P1].
Qed.
Print Assumptions C06_seed_independent_fixed.

(* every way of consuming a set that the inventory classifies as neutral gives the same result under
   every iteration order (Gen/C06Sites.v lists the sites; C06/Inst.v decides that all are neutral) *)
Theorem C06_neutral_uses_seed_independent :
  forall (u : use) (probe : str) (f : str -> bool) (perm1 perm2 : perm_oracle) (l : list str),
    neutral u = true -> Permutation (perm1 l) l -> Permutation (perm2 l) l ->
    site_eval u probe f perm1 l = site_eval u probe f perm2 l.
Proof. exact neutral_uses. Qed.
Print Assumptions C06_neutral_uses_seed_independent.

(* ... and the remaining class (list(S), for x in S: append, join) is really order dependent *)
Theorem C06_ordered_use_refuted :
  exists l (perm1 perm2 : perm_oracle), Permutation (perm1 l) l /\ Permutation (perm2 l) l /\
    site_eval UOrdered [] (fun _ => true) perm1 l <> site_eval UOrdered [] (fun _ => true) perm2 l.
Proof. exact ordered_use_depends. Qed.
Print Assumptions C06_ordered_use_refuted.

(* ---- the caller's input buffer --------------------------------------------------------------- *)
(* serialization._bytesio_to_base64: reads the whole buffer and leaves content and position as found *)
Theorem C06_input_untouched_serialize :
  forall st : stream, Z.leb 0 (s_pos st) = true -> bytesio_read_all st = (s_buf st, st).
Proof. exact bytesio_read_all_spec. Qed.
Print Assumptions C06_input_untouched_serialize.

(* zip_bomb.validate_zip_bytesio: whatever read-only operations zipfile performs and wherever it stops
   (returns or raises after k of them), content and position are as found *)
Theorem C06_input_untouched_validate_zip :
  forall (lib_ops : list sop) (k : nat) (st : stream),
    forallb readonly lib_ops = true -> Z.leb 0 (s_pos st) = true -> validate_zip_bytesio lib_ops k st = st.
Proof. exact validate_zip_spec. Qed.
Print Assumptions C06_input_untouched_validate_zip.

(* any sequence of the operations the extractors apply to the input (inventory: all read-only) keeps the
   buffer content; a write would not (so the premise is not vacuous and the model can express the defect) *)
Theorem C06_readonly_ops_keep_buffer :
  forall (ops : list sop) (st : stream), forallb readonly ops = true -> s_buf (exec ops st) = s_buf st.
Proof. exact exec_readonly_buf. Qed.
Print Assumptions C06_readonly_ops_keep_buffer.

Example C06_write_would_change_buffer :
  s_buf (exec [OSeek 0; OWrite [7%N]] (mkStream [1%N; 2%N] 2)) <> [1%N; 2%N].
Proof. exact write_changes_buffer. Qed.
Print Assumptions C06_write_would_change_buffer.

(* ---- process history ------------------------------------------------------------------------- *)
(* if nothing that ran before (imports of other extractors, earlier extractions) wrote to a process-global
   registry, the result of extracting x is the same after ANY two histories, whatever the lookup function is
   (premise for the code: C06/InstGlobal.v, no write to standard-library global state is inventoried) *)
Theorem C06_history_independent :
  forall (R : Type) (f : registry -> str -> R) (h1 h2 : list effect) (g : registry) (x : str),
    forallb writes_nothing h1 = true -> forallb writes_nothing h2 = true ->
    extract_after f h1 g x = extract_after f h2 g x.
Proof. intros R f h1 h2 g x. exact (history_independent f h1 h2 g x). Qed.
Print Assumptions C06_history_independent.

(* ... and one write is enough to make the result depend on the history (the premise is not vacuous) *)
Theorem C06_history_dependent_refuted :
  exists (hist : list effect) (g : registry) (x : str),
    extract_after lookup_ct hist g x <> extract_after lookup_ct [] g x.
Proof. exact history_dependent. Qed.
Print Assumptions C06_history_dependent_refuted.

(* ---- content type by file name ----------------------------------------------------------------- *)
(* FALSE of the code as found (ODF and EPUB image content types): two host / process MIME databases give two results *)
Theorem C06_content_type_global_db_refuted :
  exists (g1 g2 : registry) (path : str), guess_global (fun p => p) g1 path <> guess_global (fun p => p) g2 path.
Proof. exact content_type_global_db_dependent. Qed.
Print Assumptions C06_content_type_global_db_refuted.

(* repaired (private table): the same result on every host database g1 g2 and after every two process histories,
   INCLUDING histories that write to the global registry -- no premise *)
Theorem C06_content_type_private_db_independent :
  forall (ext_of : str -> str) (T : registry) (h1 h2 : list effect) (g1 g2 : registry) (x : str),
    extract_after (guess_private ext_of T) h1 g1 x = extract_after (guess_private ext_of T) h2 g2 x.
Proof. exact content_type_private. Qed.
Print Assumptions C06_content_type_private_db_independent.

(* ---- reprs of library objects ------------------------------------------------------------------- *)
(* the pattern used by pdf_extractor removes id(reader) from repr(IndirectObject(n, g, reader)) for EVERY object
   number, EVERY generation and EVERY two addresses, and the scan never runs out of fuel *)
Theorem C06_strip_reader_id_independent :
  forall dn dg did1 did2 : str,
    is_digits dn = true -> is_digits dg = true -> is_digits did1 = true -> is_digits did2 = true ->
    strip_ids true (show_ind dn dg did1) = strip_ids true (show_ind dn dg did2)
    /\ strip_ids true (show_ind dn dg did1) <> None.
Proof. exact strip_independent. Qed.
Print Assumptions C06_strip_reader_id_independent.

(* a pattern that only accepts generation 0 lets the address through (the model can express that defect) *)
Theorem C06_strip_generation_zero_only_refuted :
  exists dn dg did1 did2, is_digits dn = true /\ is_digits dg = true /\ is_digits did1 = true /\ is_digits did2 = true /\
    strip_ids false (show_ind dn dg did1) <> strip_ids false (show_ind dn dg did2).
Proof. exact strip_gen0_only_leaks. Qed.
Print Assumptions C06_strip_generation_zero_only_refuted.

Example C06_strip_inside_array_and_dict :
  strip_ids true (s "['/ICCBased', IndirectObject(6, 1, 139875842957936)]") = Some (s "['/ICCBased', IndirectObject(6, 1)]")
  /\ strip_ids true (s "{'/K': IndirectObject(8, 7, 1), '/L': [IndirectObject(10, 0, 22)]}")
     = Some (s "{'/K': IndirectObject(8, 7), '/L': [IndirectObject(10, 0)]}").
Proof. exact strip_in_array. Qed.
Print Assumptions C06_strip_inside_array_and_dict.

Example C06_close_would_lose_buffer :
  s_buf (exec [OSeek 0; ORead None; OClose] (mkStream [1%N; 2%N] 0)) <> [1%N; 2%N].
Proof. exact close_loses_buffer. Qed.
Print Assumptions C06_close_would_lose_buffer.

(* ---- order of archive results -------------------------------------------------------------------------- *)
(* read_archive (ZIP / TAR drivers): the results are the concatenation, IN MEMBER ORDER, of what each processed
   member yields: compositional over the member list ... *)
Theorem C06_archive_results_compositional :
  forall (R : Type) (a b : list (amember R)), archive_results (a ++ b) = archive_results a ++ archive_results b.
Proof. intros R a b. exact (archive_results_app a b). Qed.
Print Assumptions C06_archive_results_compositional.

(* ... so every result of an earlier member comes before every result of a later member, whatever lies around them *)
Theorem C06_archive_results_follow_member_order :
  forall (R : Type) (a : list (amember R)) (m1 : amember R) (b : list (amember R)) (m2 : amember R) (c : list (amember R)) (r1 r2 : R),
    In r1 (archive_results [m1]) -> In r2 (archive_results [m2]) ->
    exists pre mid post, archive_results (a ++ m1 :: b ++ m2 :: c) = pre ++ r1 :: mid ++ r2 :: post.
Proof. intros R a m1 b m2 c r1 r2. exact (archive_order a m1 b m2 c r1 r2). Qed.
Print Assumptions C06_archive_results_follow_member_order.

(* a member contributes nothing iff it is a directory, skipped, too large or unreadable; otherwise exactly its results *)
Theorem C06_archive_member_contribution :
  forall (R : Type) (m : amember R) (ms : list (amember R)),
    archive_results (m :: ms) =
    (if am_dir m || am_skip m || am_too_large m || am_unreadable m then [] else am_results m) ++ archive_results ms.
Proof. intros R m ms. exact (archive_results_cons m ms). Qed.
Print Assumptions C06_archive_member_contribution.

(* a worker pool whose results are consumed in submission order gives the sequential result under EVERY schedule *)
Theorem C06_pool_submission_order_schedule_independent :
  forall (R : Type) (c1 c2 : list (amember R) -> list (amember R)) (ms : list (amember R)),
    pool_in_submission_order c1 ms = pool_in_submission_order c2 ms
    /\ pool_in_submission_order c1 ms = archive_results ms.
Proof. intros R c1 c2 ms. exact (pool_in_order_independent c1 c2 ms). Qed.
Print Assumptions C06_pool_submission_order_schedule_independent.

(* consuming results as they complete does depend on the schedule (sink SResult of the inventory) *)
Theorem C06_pool_as_completed_refuted :
  exists (c1 c2 : list (amember N) -> list (amember N)) (ms : list (amember N)),
    (forall l, Permutation (c1 l) l) /\ (forall l, Permutation (c2 l) l) /\
    pool_as_completed c1 ms <> pool_as_completed c2 ms.
Proof. exact pool_as_completed_depends. Qed.
Print Assumptions C06_pool_as_completed_refuted.

(* sorted(S, key=k) is NOT covered by C06_seed_independent_fixed: with a key that identifies two distinct elements the
   result follows the set's iteration order (the inventory classifies sorted(set, key=...) as ORDERED) *)
Theorem C06_sorted_with_key_refuted :
  exists (k : str -> str) (l : list str) (perm1 perm2 : perm_oracle),
    Permutation (perm1 l) l /\ Permutation (perm2 l) l /\ sort_by k (perm1 l) <> sort_by k (perm2 l).
Proof. exact sorted_with_key_depends. Qed.
Print Assumptions C06_sorted_with_key_refuted.
