(* C06 — obligations (observer stores) re-decided by the kernel over the inventories generated from the repo on this run. *)
From Coq Require Import ZArith List Bool.
From S2T Require Import Lib.PyStr C06.Lib C06.Model Gen.C06Sites.
Import ListNotations.

(* no observer method of data_types.py stores through self or an object reached from self *)
Theorem C06_observers_do_not_store : observer_writes = [].
Proof. vm_compute. reflexivity. Qed.
Print Assumptions C06_observers_do_not_store.
