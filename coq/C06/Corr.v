(* C06 — correspondence checkers: the real OdtContent.iterate_units against the heap model. *)
From Coq Require Import ZArith List Bool.
From S2T Require Import Lib.PyStr C06.Lib C06.Model.
Import ListNotations.

Fixpoint list_eqb {A} (e : A -> A -> bool) (a b : list A) : bool :=
  match a, b with
  | [], [] => true
  | x :: a', y :: b' => e x y && list_eqb e a' b'
  | _, _ => false
  end.

Definition optZ_eqb (a b : option Z) : bool :=
  match a, b with None, None => true | Some x, Some y => Z.eqb x y | _, _ => false end.

Definition table_eqb : table -> table -> bool := list_eqb (list_eqb str_eqb).

Definition unit_eqb (a b : ounit image) : bool :=
  str_eqb (u_text a) (u_text b) && Z.eqb (u_number a) (u_number b) && optZ_eqb (u_level a) (u_level b)
  && list_eqb str_eqb (u_path a) (u_path b) && list_eqb image_eqb (u_images a) (u_images b)
  && list_eqb table_eqb (u_tables a) (u_tables b).

(* case = (content, heap before, units yielded by the implementation (images resolved after the call),
           heap after the call) *)
Definition corr_case (fixed : bool) (x : odt * heap * list (ounit image) * heap) : bool :=
  let '(c, h, units, h_after) := x in
  match step fixed IterUnits c h with
  | (h', VUnits us) => list_eqb unit_eqb us units && heap_eqb h' h_after
  | _ => false
  end.

(* case = (stream before, bytes the implementation returned, position the implementation left) *)
Definition corr_stream (x : stream * list N * Z) : bool :=
  let '(st, data, pos) := x in
  let '(d, st') := bytesio_read_all st in
  list_eqb N.eqb d data && Z.eqb (s_pos st') pos && list_eqb N.eqb (s_buf st') (s_buf st).

(* case = (str() of the raw pypdf value as a reader of the harness prints it, what the implementation put into the result) *)
Definition corr_strip (x : str * str) : bool :=
  match strip_ids true (fst x) with Some r => str_eqb r (snd x) | None => false end.

(* case = (members as the harness built them, with the oracles recorded from the real extractors;
           sequence of result identities the implementation's read_archive yielded) *)
Definition corr_archive (x : list (amember N) * list N) : bool := list_eqb N.eqb (archive_results (fst x)) (snd x).
