(* C06 — obligations re-decided by the kernel over the inventories generated from the repo on this run. *)
From Coq Require Import ZArith List Bool.
From S2T Require Import Lib.PyStr C06.Lib C06.Model Gen.C06Sites.
Import ListNotations.

(* every set / frozenset construction in sharepoint2text/parsing is consumed only in ways covered by
   C06_neutral_uses_seed_independent (member, len, sorted, any/all, never read) *)
Theorem C06_set_sites_neutral : forallb (fun x => neutral (site_use x)) set_sites = true.
Proof. vm_compute. reflexivity. Qed.
Print Assumptions C06_set_sites_neutral.
