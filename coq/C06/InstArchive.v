(* C06 -- obligation (archive result order) re-decided by the kernel over the inventory generated from the repo on this run. *)
From Coq Require Import ZArith List Bool.
From S2T Require Import Lib.PyStr C06.Lib C06.Model Gen.C06Sites.
Import ListNotations.

(* the drivers of archive_extractor.py contain nothing that re-orders members or results (sorted / reversed / set /
   shuffle / .sort / .reverse / set or dict comprehension): the modelled shape of C06_archive_results_follow_member_order;
   worker pools and completion-order consumption are covered by C06_nd_sites_no_result_sink *)
Theorem C06_archive_members_not_reordered : archive_reorder_sites = [].
Proof. vm_compute. reflexivity. Qed.
Print Assumptions C06_archive_members_not_reordered.
