(* C06 -- obligations (objects turned into text) re-decided by the kernel over the inventory generated from the repo on this run. *)
From Coq Require Import ZArith List Bool.
From S2T Require Import Lib.PyStr C06.Lib C06.Model Gen.C06Sites.
Import ListNotations.

(* every str()/repr()/format()/f-string/%-format site of sharepoint2text/parsing/extractors whose operand is not a
   primitive by construction is stripped by the IndirectObject pattern, is the message of a caught exception, or is a
   reviewed site (tools/props/c06.py REVIEWED_OBJECT_SITES); a new or un-stripped site is KObject *)
Theorem C06_stringify_sites_classified : forallb (fun x : str * str * str * sclass => sclass_ok (snd x)) stringify_sites = true.
Proof. vm_compute. reflexivity. Qed.
Print Assumptions C06_stringify_sites_classified.

(* every IndirectObject-stripping pattern in the code IS the modelled one (C06_strip_reader_id_independent), with the
   modelled replacement; and there is at least one *)
Theorem C06_strip_patterns_are_the_modelled_one :
  negb (is_nil strip_patterns) &&
  forallb (fun x : str * str => str_eqb (fst x) (s "(IndirectObject\(\d+, \d+), \d+\)") && str_eqb (snd x) (s "\1)")) strip_patterns = true.
Proof. vm_compute. reflexivity. Qed.
Print Assumptions C06_strip_patterns_are_the_modelled_one.
