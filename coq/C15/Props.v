(* C15 — property theorems.  Nothing but statements closed by `exact`, each followed by
   Print Assumptions.  Threads, schedules and histories are unbounded everywhere. *)
From Coq Require Import ZArith List Bool Lia.
Import ListNotations.
From S2T Require Import C15.Model C15.ProofsPatch C15.ProofsMemo C15.ProofsShared C15.Handles.

(* ---- the protocol of the pristine tree (save / set / yield / restore, no lock) is REFUTED ---- *)

(* two threads, every thread finished, pypdf's function is still wrapped *)
Theorem C15_patch_refuted :
  exists sched : list nat,
    all_finished (run (init 2 proto_current) sched) = true /\
    G (run (init 2 proto_current) sched) <> orig.
Proof. exact current_patch_not_restored. Qed.
Print Assumptions C15_patch_refuted.

(* a with-body (page.extract_text) runs while pypdf's function is the unpatched original *)
Theorem C15_patch_interference_refuted :
  exists (sched : list nat) (th : thread),
    nth_error (threads (run (init 2 proto_current) sched)) 1 = Some th /\ In orig (seen th).
Proof. exact current_body_runs_unpatched. Qed.
Print Assumptions C15_patch_interference_refuted.

(* the residue accumulates: every further round of the same two-thread schedule adds a layer *)
Theorem C15_patch_nesting_unbounded :
  forall n : nat, exists k : nat, (length (rounds k orig) >= n)%nat.
Proof. exact nesting_unbounded. Qed.
Print Assumptions C15_patch_nesting_unbounded.

(* ---- the repaired protocol (lock + user counter), any number of threads, any schedule ---- *)

(* when all threads have left, everything is back: G is what it was before (whatever the history
   g0 had left there), counter 0, saved list empty, lock free *)
Theorem C15_patch_restored :
  forall (g0 : fn) (n : nat) (sched : list nat),
    let st := run (init_from g0 n proto_locked) sched in
    all_finished st = true ->
    G st = g0 /\ depth st = 0%Z /\ gsaved st = [] /\ lock st = None.
Proof. exact locked_restored. Qed.
Print Assumptions C15_patch_restored.

(* while any thread is inside its with-body, G is exactly one wrapper around what was there
   before; and every with-body that ever ran saw exactly that *)
Theorem C15_patch_inside_wrapped :
  forall (g0 : fn) (n : nat) (sched : list nat) (t : nat) (th : thread),
    let st := run (init_from g0 n proto_locked) sched in
    nth_error (threads st) t = Some th ->
    (inside th = true -> exists w, G st = wrap w g0) /\
    (forall g, In g (seen th) -> exists w, g = wrap w g0).
Proof. exact locked_inside_wrapped. Qed.
Print Assumptions C15_patch_inside_wrapped.

(* no deadlock: as long as some thread has not finished, some thread can move *)
Theorem C15_patch_no_deadlock :
  forall (g0 : fn) (n : nat) (sched : list nat),
    let st := run (init_from g0 n proto_locked) sched in
    all_finished st = false -> exists t, enabled st t = true.
Proof. exact locked_no_deadlock. Qed.
Print Assumptions C15_patch_no_deadlock.

(* non-vacuity of `all_finished`: complete schedules exist (sequential and interleaved) *)
Example C15_patch_can_finish :
  all_finished (run (init 3 proto_locked) (seq13 0 ++ seq13 1 ++ seq13 2)) = true /\
  all_finished (run (init 2 proto_locked) (concat (repeat [0;1;1;0;0]%nat 12))) = true.
Proof. exact (conj locked_finishes_3 locked_finishes_interleaved). Qed.
Print Assumptions C15_patch_can_finish.

(* any sequence of extractions one after the other (failing ones included: the restore is in a
   finally) leaves G as it was — for the repaired and also for the pristine protocol, which is
   why a single-threaded test-suite cannot see the defect *)
Theorem C15_sequential_residue_free :
  forall (k : nat) (g0 : fn),
    seq_history proto_locked k g0 = g0 /\ seq_history proto_current k g0 = g0.
Proof.
  intros k g0. split; induction k as [|k IH]; cbn [seq_history]; try reflexivity; rewrite IH; reflexivity.
Qed.
Print Assumptions C15_sequential_residue_free.

(* ---- memo tables ---- *)

(* functools.lru_cache sites and _get_round_keys (run atomically): for every pure function f,
   every capacity and every history of earlier calls, the cached call returns f k, and the table
   never exceeds its capacity *)
Theorem C15_memo_transparent :
  forall (K V : Type) (keq : K -> K -> bool) (f : K -> V),
    (forall a b, keq a b = true -> a = b) ->
    forall (cap : nat) (history : list K) (k : K),
      fst (memo_call keq f cap (memo_history keq f cap [] history) k) = f k /\
      (length (memo_history keq f cap [] history) <= cap)%nat.
Proof. exact memo_transparent. Qed.
Print Assumptions C15_memo_transparent.

(* _get_round_keys run without interruption IS memo_call *)
Theorem C15_round_keys_atomic_is_memo :
  forall (expand : nat -> nat) (cap : nat) (c : rk_cache) (k : nat),
    let r := rk_atomic_call expand cap c k in
    rk_at (snd r) = RkDone /\
    rk_result (snd r) = Some (fst (memo_call Nat.eqb expand cap c k)) /\
    fst r = snd (memo_call Nat.eqb expand cap c k).
Proof. exact rk_atomic_is_memo. Qed.
Print Assumptions C15_round_keys_atomic_is_memo.

(* ... but interleaved at statement level (pristine tree: no lock) a second thread can evict the
   key between get and move_to_end: KeyError, for every key-expansion function *)
Theorem C15_round_key_cache_race_refuted :
  exists (sched : list nat),
    forall expand : nat -> nat,
    exists c th,
      rk_run expand 4 (rk_history expand, [mkRk 1 RkGet None; mkRk 5 RkGet None]) sched = (c, th) /\
      nth_error th 0 = Some (mkRk 1 RkKeyError None).
Proof. exact rk_unlocked_race. Qed.
Print Assumptions C15_round_key_cache_race_refuted.

(* _FONT_CACHE keyed by the font program alone is NOT transparent ... *)
Theorem C15_font_cache_transparent_refuted :
  exists (features : nat -> nat -> nat) (font g1 g2 : nat),
    fst (font_call Nat.eqb features (snd (font_call Nat.eqb features [] font g1)) font g2)
    <> features font g2.
Proof. exact font_cache_not_transparent. Qed.
Print Assumptions C15_font_cache_transparent_refuted.

(* ... keyed by (font program, glyph ids) it is, for every history *)
Theorem C15_font_cache_keyed_transparent :
  forall (Font Gids R : Type) (keq : Font * Gids -> Font * Gids -> bool) (features : Font -> Gids -> R),
    (forall a b, keq a b = true -> a = b) ->
    forall (history : list (Font * Gids)) (font : Font) (gids : Gids),
      fst (font_call_keyed features keq (font_history Font Gids R keq features [] history) font gids)
      = features font gids.
Proof. exact font_keyed_transparent. Qed.
Print Assumptions C15_font_cache_keyed_transparent.

(* ---- the stated exception: the AES patch is one-way (idempotent, never restored) ---- *)
Theorem C15_aes_patch_residue_refuted :
  exists docs : list bool, aes_history false docs <> false.
Proof. exists [true]. vm_compute. discriminate. Qed.
Print Assumptions C15_aes_patch_residue_refuted.

Theorem C15_aes_patch_idempotent :
  forall (p d : bool), aes_step (aes_step p d) d = aes_step p d.
Proof. intros [|] [|]; reflexivity. Qed.
Print Assumptions C15_aes_patch_idempotent.

(* with the purely lazy installation the RESULT for an AES-128 file depends on the history ... *)
Theorem C15_aes_result_history_refuted :
  exists (history : list pdf_kind) (k : pdf_kind),
    fst (aes_extract Lazy (aes_docs Lazy false history) k) <> fst (aes_extract Lazy false k).
Proof. exists [AesAtOpen], AesLate. vm_compute. discriminate. Qed.
Print Assumptions C15_aes_result_history_refuted.

(* ... installed for every encrypted document (or eagerly) it does not, for every history, every
   initial state of the provider and every kind of file *)
Theorem C15_aes_result_history_independent :
  forall (m : aes_install) (history : list pdf_kind) (p0 : bool) (k : pdf_kind),
    aes_mode_safe m = true ->
    fst (aes_extract m (aes_docs m p0 history) k) = fst (aes_extract m p0 k).
Proof.
  intros m history p0 k H.
  assert (A : forall h p, aes_docs AtImport p h = p).
  { induction h as [|x h IH]; intro p; [reflexivity|]. unfold aes_docs in *. cbn [fold_left]. rewrite IH. destruct x; reflexivity. }
  destruct m; [discriminate| | |rewrite A; reflexivity]; destruct k; reflexivity.
Qed.
Print Assumptions C15_aes_result_history_independent.

Example C15_aes_mode_safe_satisfiable : aes_mode_safe OnEncrypted = true /\ aes_mode_safe Eager = true.
Proof. split; reflexivity. Qed.
Print Assumptions C15_aes_mode_safe_satisfiable.

(* the general form: whatever guard _open_pdf_reader uses, the result is independent of the history
   (and of the initial state of the provider) as soon as the guard is COMPLETE: every document
   that will need AES is either caught at open or detected by the guard ... *)
Theorem C15_aes_guard_complete_independent :
  forall (doc : Type) (needs_aes at_open detect : doc -> bool),
    (forall d, needs_aes d = true -> at_open d || detect d = true) ->
    forall (history : list doc) (p0 : bool) (d : doc),
      fst (g_extract doc needs_aes at_open detect (g_docs doc needs_aes at_open detect p0 history) d)
      = fst (g_extract doc needs_aes at_open detect p0 d).
Proof.
  intros doc needs_aes at_open detect H history p0 d. unfold g_extract, g_open. cbn [fst].
  destruct (needs_aes d) eqn:N; [|reflexivity].
  rewrite <- !orb_assoc. rewrite (H d N). rewrite !orb_true_r. reflexivity.
Qed.
Print Assumptions C15_aes_guard_complete_independent.

(* ... and it is not, for any guard that misses a document which needs AES later, as soon as some
   other document installs the fallback: [other; d] succeeds where [d] alone fails *)
Theorem C15_aes_guard_incomplete_refuted :
  forall (doc : Type) (needs_aes at_open detect : doc -> bool) (d other : doc),
    needs_aes d = true -> at_open d = false -> detect d = false ->
    at_open other || detect other = true ->
    fst (g_extract doc needs_aes at_open detect (g_docs doc needs_aes at_open detect false [other]) d)
    <> fst (g_extract doc needs_aes at_open detect false d).
Proof.
  intros doc needs_aes at_open detect d other N A D O. unfold g_docs, g_extract, g_open. cbn [fold_left fst snd].
  rewrite N, A, D. cbn [negb orb]. rewrite orb_false_r.
  replace (false || at_open other || detect other) with (at_open other || detect other) by reflexivity.
  rewrite O. discriminate.
Qed.
Print Assumptions C15_aes_guard_incomplete_refuted.

Example C15_aes_guard_hypotheses_satisfiable :
  (forall d : bool, d = true -> false || (fun _ : bool => true) d = true) /\
  (exists (needs detect : bool -> bool) (d other : bool),
      needs d = true /\ detect d = false /\ detect other = true).
Proof. split; [reflexivity|]. exists (fun _ => true), (fun b => b), false, true. auto. Qed.
Print Assumptions C15_aes_guard_hypotheses_satisfiable.

(* ---- the lazily filled type registry (serialization._get_type_registry) ---- *)

(* filled in place it is REFUTED: a second thread finds the dict non-empty while the first is still
   filling it and gets a registry in which most names cannot be looked up *)
Theorem C15_type_registry_inplace_refuted :
  exists (n : nat) (sched : list nat) (th : reg_thread) (v : list nat),
    nth_error (rthreads (reg_run n (reg_init 2 (reg_inplace n)) sched)) 1 = Some th /\
    rview th = Some v /\ reg_full n v = false.
Proof. exact reg_inplace_incomplete_view. Qed.
Print Assumptions C15_type_registry_inplace_refuted.

(* published with one atomic update, every view any thread ever gets is complete: any number of
   names, any number of threads, any schedule *)
Theorem C15_type_registry_publish_complete :
  forall (n k : nat) (sched : list nat) (t : nat) (th : reg_thread) (v : list nat),
    nth_error (rthreads (reg_run n (reg_init k (reg_publish n)) sched)) t = Some th ->
    rview th = Some v -> reg_full n v = true.
Proof. exact reg_publish_complete. Qed.
Print Assumptions C15_type_registry_publish_complete.

Example C15_type_registry_views_exist :
  forallb (fun th => match rview th with Some _ => true | None => false end)
          (rthreads (reg_run 4 (reg_init 3 (reg_publish 4)) [0;1;2;0;1;2;0;1;2]%nat)) = true.
Proof. exact reg_publish_can_return. Qed.
Print Assumptions C15_type_registry_views_exist.

(* ---- there is no other shared state ---- *)

(* if every cell of the inventory of module-level / class-level objects is classified (constant,
   memo table, lazily filled, protocol state at rest, configuration), then after ANY history of
   uses and attempted writes by any threads every cell yields exactly what it yields in a fresh
   process *)
Theorem C15_no_other_shared_state :
  forall (content : nat -> nat -> nat) (kinds : list kind) (history : list op) (i key : nat),
    forallb classified kinds = true -> (i < length kinds)%nat ->
    read content (store_run content (map new_cell kinds) history) i key = Some (content i key).
Proof. exact no_other_shared_state. Qed.
Print Assumptions C15_no_other_shared_state.

(* a single unclassified cell falsifies it *)
Theorem C15_unclassified_shared_state_refuted :
  exists (kinds : list kind) (h : list op) (i key : nat),
    (i < length kinds)%nat /\
    read (fun _ _ => 0%nat) (store_run (fun _ _ => 0%nat) (map new_cell kinds) h) i key <> Some 0%nat.
Proof. exact unclassified_cell_refuted. Qed.
Print Assumptions C15_unclassified_shared_state_refuted.

(* ---- the one-way AES patch as residue ---- *)

(* installed by extractions (lazily, for encrypted documents, or eagerly) the provider does not come
   back to its state at import time ... *)
Theorem C15_aes_residue_by_extraction_refuted :
  forall m : aes_install, m <> AtImport ->
    exists docs : list pdf_kind, aes_docs m (aes_initial m) docs <> aes_initial m.
Proof. intros m H. exists [AesAtOpen]. destruct m; try (vm_compute; discriminate). contradiction. Qed.
Print Assumptions C15_aes_residue_by_extraction_refuted.

(* ... installed once at import no sequence of extractions changes it, and every document that
   needs AES later still succeeds *)
Theorem C15_aes_at_import_residue_free :
  forall docs : list pdf_kind,
    aes_docs AtImport (aes_initial AtImport) docs = aes_initial AtImport /\
    forall k, fst (aes_extract AtImport (aes_docs AtImport (aes_initial AtImport) docs) k) = true.
Proof.
  assert (A : forall h p, aes_docs AtImport p h = p).
  { induction h as [|x h IH]; intro p; [reflexivity|]. unfold aes_docs in *. cbn [fold_left]. rewrite IH. destruct x; reflexivity. }
  intro docs. split; [apply A|]. intro k. rewrite A. destruct k; reflexivity.
Qed.
Print Assumptions C15_aes_at_import_residue_free.

(* ---- handle flow of the entry point read_file ---- *)

(* if the skeleton acquires handles by `with open(...)` only, then on EVERY way out of the generator
   - normal end, an exception at any statement, abandoned at a yield - and for any number of loop
   iterations, exactly the handles that were open before are open *)
Theorem C15_read_file_handles_closed :
  forall (k : nat) (b : rblock) (h : nat) (o : outcome) (h' : nat),
    no_raw_b b = true -> In (o, h') (exec_b k b h) -> h' = h.
Proof. exact handles_closed. Qed.
Print Assumptions C15_read_file_handles_closed.

(* a raw os.open() followed by a check and only then `with os.fdopen(fd)` is REFUTED: the exception
   raised in between leaves one handle open *)
Theorem C15_raw_open_then_wrap_refuted : In (ORaise, 1%nat) (exec_b 1 raw_then_wrap 0).
Proof. exact raw_then_wrap_leaks. Qed.
Print Assumptions C15_raw_open_then_wrap_refuted.
