(* C15 — boolean checkers used by the correspondence and by the kernel-run model check of the
   generated skeleton: schedule enumeration (with the sound reduction "thread-local statements
   first"), observation traces, and an exhaustive explorer for k threads. *)
From Coq Require Import ZArith List Bool Lia.
Import ListNotations.
From S2T Require Import C15.Model.

(* gate label of a statement, as the line-gated scheduler reports it; 0 = thread finished *)
Definition label (i : instr) : nat :=
  match i with
  | ReadG => 1 | Push _ => 2 | SetWrap => 3 | Yield => 4 | RestoreAll _ => 5 | PopRestoreAll _ => 6
  | Clear _ => 7 | Acquire => 8 | Release => 9 | IfDepthZero _ => 10 | Incr => 11 | Decr => 12
  end%nat.

Definition next_label (st : state) (t : nat) : nat :=
  match nth_error (threads st) t with
  | Some th => match pc th with i :: _ => label i | [] => 0%nat end
  | None => 99%nat
  end.

Definition is_some {A} (o : option A) : bool := match o with Some _ => true | None => false end.

(* what the scheduler observes after every grant: (thread's next gate, wrapper nesting depth of
   pypdf's function, user counter, lock held) *)
Definition obs := (nat * nat * Z * bool)%type.
Definition observe (st : state) (t : nat) : obs :=
  (next_label st t, length (G st), depth st, is_some (lock st)).

Fixpoint trace (st : state) (sched : list nat) : list obs :=
  match sched with
  | [] => []
  | t :: r => let st' := step st t in observe st' t :: trace st' r
  end.

Definition obs_eqb (a b : obs) : bool :=
  let '(l1, g1, d1, k1) := a in let '(l2, g2, d2, k2) := b in
  Nat.eqb l1 l2 && Nat.eqb g1 g2 && Z.eqb d1 d2 && Bool.eqb k1 k2.

Fixpoint list_eqb {A} (e : A -> A -> bool) (a b : list A) : bool :=
  match a, b with
  | [], [] => true
  | x :: a', y :: b' => e x y && list_eqb e a' b'
  | _, _ => false
  end.

Definition seen_depths (st : state) : list (list nat) :=
  map (fun th => map (@length nat) (seen th)) (threads st).

(* case = (g0 depth, threads, schedule, observations after each grant, per-thread depths seen by the bodies) *)
Definition corr_case (prog : list instr)
           (c : nat * nat * list nat * list obs * list (list nat)) : bool :=
  let '(d0, k, sched, o, sd) := c in
  let st0 := init_from (repeat 7%nat d0) k prog in
  list_eqb obs_eqb (trace st0 sched) o &&
  list_eqb (list_eqb Nat.eqb) (seen_depths (run st0 sched)) sd.

Definition invisible (i : instr) : bool :=
  match i with Push Local | Clear Local => true | _ => false end.

Definition next_invisible (st : state) (t : nat) : bool :=
  match nth_error (threads st) t with
  | Some th => match pc th with i :: _ => invisible i | [] => false end
  | None => false
  end.

Definition tids (st : state) : list nat := seq 0 (length (threads st)).

(* all maximal schedules of enabled threads; a thread-local statement is scheduled immediately
   (it commutes with everything).  [999] marks fuel exhaustion. *)
Fixpoint enum (fuel : nat) (st : state) : list (list nat) :=
  match fuel with
  | O => [[999%nat]]
  | S f =>
      match find (next_invisible st) (tids st) with
      | Some t => map (cons t) (enum f (step st t))
      | None =>
          match filter (enabled st) (tids st) with
          | [] => [[]]
          | en => flat_map (fun t => map (cons t) (enum f (step st t))) en
          end
      end
  end.

Definition enum_schedules (k : nat) (prog : list instr) : list (list nat) :=
  enum (k * 24) (init k prog).

Definition quiescent (g0 : fn) (st : state) : bool :=
  all_finished st && list_eqb Nat.eqb (G st) g0 && Z.eqb (depth st) 0 &&
  negb (is_some (lock st)) && match gsaved st with [] => true | _ => false end.

Definition bodies_patched_once (g0 : fn) (st : state) : bool :=
  forallb (fun th => forallb (fun g => Nat.eqb (length g) (S (length g0))) (seen th)) (threads st).

(* exhaustive exploration of every interleaving of k threads: no deadlock, every with-body sees
   exactly one wrapper layer, and when all threads have finished everything is as before *)
Fixpoint explore (fuel : nat) (g0 : fn) (st : state) : bool :=
  match fuel with
  | O => false
  | S f =>
      match find (next_invisible st) (tids st) with
      | Some t => explore f g0 (step st t)
      | None =>
          match filter (enabled st) (tids st) with
          | [] => quiescent g0 st && bodies_patched_once g0 st
          | en => forallb (fun t => explore f g0 (step st t)) en
          end
      end
  end.

Definition safe_for (k : nat) (g0 : fn) (prog : list instr) : bool :=
  explore (k * 24) g0 (init_from g0 k prog).
