(* C15 — handle flow of the public entry point sharepoint2text.read_file (a generator).

   Model (executable): a statement skeleton in a small resource language; `exec_b k b h` lists EVERY
   way the block can be left — normally, by an exception raised at any statement that may raise,
   or abandoned at a `yield` (the consumer never resumes; CPython closes the generator, which
   raises GeneratorExit at the yield: oracle) — together with the number of open handles then.
   `k` bounds the number of loop iterations explored; theorems hold for every k.
   The skeleton of today's read_file is regenerated from the ast into Gen/C15ReadFile.v. *)
From Coq Require Import List Bool Lia.
Import ListNotations.

Inductive outcome := ONormal | ORaise | OAbandon.

Inductive rstmt :=
| RAny                      (* may raise or complete; acquires nothing (stat, get_extractor, f.read(), next()) *)
| RRaise                    (* raise ... *)
| ROpenRaw                  (* fd = os.open(...) / f = open(...) outside a with: a handle nobody owns yet *)
| RCloseRaw                 (* os.close(fd) / f.close() *)
| RWrapRaw (b : rblock)     (* with os.fdopen(fd) as f: b   — adopts the raw handle; fdopen itself may fail *)
| RWith (b : rblock)        (* with open(...) as f: b       — opened and closed by the with, on every exit *)
| RYield                    (* yield result *)
| RTry (b : rblock)         (* try: b  except ...: raise ... (handlers only re-raise / wrap) *)
| RIf (b : rblock)          (* if cond: b *)
| RLoop (b : rblock)        (* for ... in ...: b *)
with rblock :=
| BNil
| BCons (s : rstmt) (b : rblock).

Scheme rstmt_mut := Induction for rstmt Sort Prop
  with rblock_mut := Induction for rblock Sort Prop.

Definition res := (outcome * nat)%type.

(* continue with `k` after a normal exit, stop otherwise *)
Definition andthen (rs : list res) (k : nat -> list res) : list res :=
  flat_map (fun r => match fst r with ONormal => k (snd r) | _ => [r] end) rs.

Fixpoint loop_out (n : nat) (step : nat -> list res) (h : nat) : list res :=
  match n with
  | O => [(ONormal, h)]
  | S n' => (ONormal, h) :: andthen (step h) (loop_out n' step)
  end.

Definition closing (rs : list res) : list res := map (fun r => (fst r, pred (snd r))) rs.

Fixpoint exec_s (k : nat) (s : rstmt) (h : nat) : list res :=
  match s with
  | RAny => [(ONormal, h); (ORaise, h)]
  | RRaise => [(ORaise, h)]
  | ROpenRaw => [(ONormal, S h); (ORaise, h)]
  | RCloseRaw => [(ONormal, pred h)]
  | RWrapRaw b => (ORaise, h) :: closing (exec_b k b h)
  | RWith b => (ORaise, h) :: closing (exec_b k b (S h))
  | RYield => [(ONormal, h); (OAbandon, h); (ORaise, h)]
  | RTry b => exec_b k b h
  | RIf b => (ONormal, h) :: (ORaise, h) :: exec_b k b h
  | RLoop b => loop_out k (exec_b k b) h
  end
with exec_b (k : nat) (b : rblock) (h : nat) : list res :=
  match b with
  | BNil => [(ONormal, h)]
  | BCons s r => andthen (exec_s k s h) (exec_b k r)
  end.

(* syntactic check: handles are acquired by `with open(...)` only *)
Fixpoint no_raw_s (s : rstmt) : bool :=
  match s with
  | ROpenRaw | RCloseRaw | RWrapRaw _ => false
  | RWith b | RTry b | RIf b | RLoop b => no_raw_b b
  | _ => true
  end
with no_raw_b (b : rblock) : bool :=
  match b with BNil => true | BCons s r => no_raw_s s && no_raw_b r end.

(* ---- proofs ---- *)

Definition keeps (f : nat -> list res) : Prop := forall h r, In r (f h) -> snd r = h.

Lemma andthen_keeps : forall (rs : list res) (f : nat -> list res) h,
  (forall r, In r rs -> snd r = h) -> keeps f -> forall r, In r (andthen rs f) -> snd r = h.
Proof.
  intros rs f h Hrs Hf r Hin. unfold andthen in Hin. apply in_flat_map in Hin. destruct Hin as [x [Hx Hr]].
  pose proof (Hrs x Hx) as E. destruct (fst x).
  - apply Hf in Hr. congruence.
  - destruct Hr as [Hr|[]]. rewrite <- Hr. exact E.
  - destruct Hr as [Hr|[]]. rewrite <- Hr. exact E.
Qed.

Lemma loop_keeps : forall n step, keeps step -> keeps (loop_out n step).
Proof.
  induction n as [|n IH]; intros step Hs h r Hin; simpl in Hin.
  - destruct Hin as [E|[]]. subst. reflexivity.
  - destruct Hin as [E|Hin]; [subst; reflexivity|].
    eapply andthen_keeps; [| apply IH; exact Hs | exact Hin]. intros x Hx. apply Hs. exact Hx.
Qed.

Lemma closing_keeps : forall rs h, (forall r, In r rs -> snd r = S h) -> forall r, In r (closing rs) -> snd r = h.
Proof.
  intros rs h H r Hin. unfold closing in Hin. apply in_map_iff in Hin. destruct Hin as [x [E Hx]]. subst r.
  simpl. rewrite (H x Hx). reflexivity.
Qed.

Lemma no_raw_keeps : forall k,
  (forall s, no_raw_s s = true -> keeps (exec_s k s)) /\ (forall b, no_raw_b b = true -> keeps (exec_b k b)).
Proof.
  intro k.
  assert (Hs : forall s, no_raw_s s = true -> keeps (exec_s k s)).
  { apply (rstmt_mut (fun s => no_raw_s s = true -> keeps (exec_s k s))
                     (fun b => no_raw_b b = true -> keeps (exec_b k b)));
      try (intros; discriminate); cbn [no_raw_s no_raw_b exec_s exec_b].
    - intros _ h r Hin. simpl in Hin. destruct Hin as [E|[E|[]]]; subst; reflexivity.
    - intros _ h r Hin. simpl in Hin. destruct Hin as [E|[]]; subst; reflexivity.
    - intros b IH H h r Hin. destruct Hin as [E|Hin]; [subst; reflexivity|].
      eapply closing_keeps; [|exact Hin]. intros x Hx. apply (IH H (S h)). exact Hx.
    - intros _ h r Hin. simpl in Hin. destruct Hin as [E|[E|[E|[]]]]; subst; reflexivity.
    - intros b IH H. exact (IH H).
    - intros b IH H h r Hin. destruct Hin as [E|[E|Hin]]; try (subst; reflexivity). apply (IH H h). exact Hin.
    - intros b IH H. apply loop_keeps. exact (IH H).
    - intros _ h r Hin. destruct Hin as [E|[]]. subst. reflexivity.
    - intros s IHs b IHb H. apply andb_true_iff in H. destruct H as [H1 H2]. intros h r Hin.
      eapply andthen_keeps; [| exact (IHb H2) | exact Hin]. intros x Hx. apply (IHs H1 h). exact Hx. }
  split; [exact Hs|].
  induction b as [|s b IH]; intro H.
  - intros h r Hin. destruct Hin as [E|[]]. subst. reflexivity.
  - cbn [no_raw_b] in H. apply andb_true_iff in H. destruct H as [H1 H2]. intros h r Hin. cbn [exec_b] in Hin.
    eapply andthen_keeps; [| exact (IH H2) | exact Hin]. intros x Hx. apply (Hs s H1 h). exact Hx.
Qed.

Lemma handles_closed : forall (k : nat) (b : rblock) (h : nat) (o : outcome) (h' : nat),
  no_raw_b b = true -> In (o, h') (exec_b k b h) -> h' = h.
Proof. intros k b h o h' H Hin. exact (proj2 (no_raw_keeps k) b H h (o, h') Hin). Qed.

(* the shape "open raw, check, then wrap" leaks on the exception between open and wrap, and also
   when the wrap itself fails *)
Definition raw_then_wrap : rblock :=
  BCons ROpenRaw (BCons (RIf (BCons RRaise BNil)) (BCons (RWrapRaw (BCons RAny (BCons RYield BNil))) BNil)).

Lemma raw_then_wrap_leaks : In (ORaise, 1) (exec_b 1 raw_then_wrap 0).
Proof. vm_compute. auto 10. Qed.

Fixpoint res_in (r : res) (l : list res) : bool :=
  match l with
  | [] => false
  | x :: t => (match fst r, fst x with ONormal, ONormal | ORaise, ORaise | OAbandon, OAbandon => Nat.eqb (snd r) (snd x) | _, _ => false end) || res_in r t
  end.
