(* C15 — proofs about the lazily filled registry (Part 4) and the inventory of shared state (Part 5). *)
From Coq Require Import ZArith List Bool Lia ZifyBool.
Import ListNotations.
From S2T Require Import C15.Model C15.ProofsPatch C15.ProofsMemo.

(* ------------------------------------------------------------------ registry: in-place fill is refuted *)

(* thread 0 has filled one of three names when thread 1 checks, finds the dict non-empty, and
   returns it: the other two names cannot be looked up *)
Definition reg_race_schedule : list nat := [0; 0; 1; 1]%nat.

Lemma reg_inplace_incomplete_view :
  exists (n : nat) (sched : list nat) (th : reg_thread) (v : list nat),
    nth_error (rthreads (reg_run n (reg_init 2 (reg_inplace n)) sched)) 1 = Some th /\
    rview th = Some v /\ reg_full n v = false.
Proof. exists 3%nat, reg_race_schedule. eexists. eexists. repeat split; vm_compute; reflexivity. Qed.

(* one thread after the other is fine (which is why the suite cannot see it) *)
Lemma reg_inplace_sequential_ok :
  let st := reg_run 5 (reg_init 2 (reg_inplace 5)) (repeat 0%nat 7 ++ repeat 1%nat 7) in
  forallb (fun th => match rview th with Some v => reg_full 5 v | None => false end) (rthreads st) = true.
Proof. vm_compute. reflexivity. Qed.

(* ------------------------------------------------------------------ registry: atomic publication *)

Lemma existsb_app_r : forall (f : nat -> bool) (w v : list nat), existsb f v = true -> existsb f (w ++ v) = true.
Proof. intros f w v H. rewrite existsb_app. rewrite H. apply orb_true_r. Qed.

Lemma reg_full_grow : forall n w v, reg_full n v = true -> reg_full n (w ++ v) = true.
Proof.
  intros n w v H. unfold reg_full in *. rewrite forallb_forall in *. intros i Hi.
  apply existsb_app_r. apply H. exact Hi.
Qed.

Lemma reg_full_seq : forall n r, reg_full n (seq 0 n ++ r) = true.
Proof.
  intros n r. unfold reg_full. rewrite forallb_forall. intros i Hi. rewrite existsb_app.
  apply orb_true_iff. left. apply existsb_exists. exists i. split; [exact Hi | apply Nat.eqb_refl].
Qed.

Definition reg_pc_ok (n : nat) (p : list reg_instr) : Prop :=
  p = reg_publish n \/ p = [RPublish; RReturn] \/ p = [RReturn] \/ p = [].

Record RegInv (n : nat) (st : reg_state) : Prop := mkRegInv {
  ri_reg : registry st = [] \/ reg_full n (registry st) = true;
  ri_thr : forall t th, nth_error (rthreads st) t = Some th ->
           reg_pc_ok n (rpc th) /\
           (rpc th = [RReturn] -> reg_full n (registry st) = true) /\
           (forall v, rview th = Some v -> reg_full n v = true)
}.

Lemma reg_inv_init : forall n k, RegInv n (reg_init k (reg_publish n)).
Proof.
  intros n k. constructor; cbn [reg_init registry rthreads]; [left; reflexivity|].
  intros t th H. apply nth_error_repeat in H. subst th. cbn [rpc rview]. split; [left; reflexivity|].
  split; [intro H; discriminate | intros v H; discriminate].
Qed.

Lemma reg_step_inv : forall n st t, RegInv n st -> RegInv n (reg_step n st t).
Proof.
  intros n st t I. unfold reg_step. destruct (nth_error (rthreads st) t) as [th|] eqn:Hth; [|exact I].
  destruct (ri_thr _ _ I t th Hth) as [Hpc [Hret Hview]].
  destruct Hpc as [E|[E|[E|E]]]; rewrite E; cbn [reg_publish reg_exec].
  - (* RCheck *)
    constructor; cbn [registry rthreads]; [exact (ri_reg _ _ I)|].
    intros t' x H. apply nth_error_update_inv in H. destruct H as [[E1 E2]|[N H]].
    + subst. cbn [rpc rview]. destruct (registry st) as [|a r] eqn:R.
      * split; [right; left; reflexivity|]. split; [intro; discriminate | exact Hview].
      * split; [right; right; left; reflexivity|]. split; [|exact Hview]. intros _.
        destruct (ri_reg _ _ I) as [Z|F]; [rewrite R in Z; discriminate | rewrite R in F; exact F].
    + exact (ri_thr _ _ I t' x H).
  - (* RPublish *)
    constructor; cbn [registry rthreads]; [right; apply reg_full_seq|].
    intros t' x H. apply nth_error_update_inv in H. destruct H as [[E1 E2]|[N H]].
    + subst. cbn [rpc rview]. split; [right; right; left; reflexivity|].
      split; [intros _; apply reg_full_seq | exact Hview].
    + destruct (ri_thr _ _ I t' x H) as [A [B C]]. split; [exact A|]. split; [intros _; apply reg_full_seq | exact C].
  - (* RReturn *)
    constructor; cbn [registry rthreads]; [exact (ri_reg _ _ I)|].
    intros t' x H. apply nth_error_update_inv in H. destruct H as [[E1 E2]|[N H]].
    + subst. cbn [rpc rview]. split; [right; right; right; reflexivity|]. split; [intro; discriminate|].
      intros v Hv. inversion Hv; subst. apply Hret. exact E.
    + exact (ri_thr _ _ I t' x H).
  - exact I.
Qed.

Lemma reg_run_inv : forall n sched st, RegInv n st -> RegInv n (reg_run n st sched).
Proof.
  intros n sched. induction sched as [|a r IH]; intros st I0; [exact I0|].
  cbn [reg_run fold_left]. apply IH. apply reg_step_inv. exact I0.
Qed.

Lemma reg_publish_complete : forall n k sched t th v,
  nth_error (rthreads (reg_run n (reg_init k (reg_publish n)) sched)) t = Some th ->
  rview th = Some v -> reg_full n v = true.
Proof.
  intros n k sched t th v H Hv.
  assert (I : RegInv n (reg_run n (reg_init k (reg_publish n)) sched)) by (apply reg_run_inv; apply reg_inv_init).
  destruct (ri_thr _ _ I t th H) as [_ [_ C]]. exact (C v Hv).
Qed.

Example reg_publish_can_return :
  forallb (fun th => match rview th with Some _ => true | None => false end)
          (rthreads (reg_run 4 (reg_init 3 (reg_publish 4)) [0;1;2;0;1;2;0;1;2]%nat)) = true.
Proof. vm_compute. reflexivity. Qed.

(* ------------------------------------------------------------------ the inventory of shared state *)

Section StoreProofs.
  Variable content : nat -> nat -> nat.

  Definition StoreInv (kinds : list kind) (st : list cell) : Prop :=
    map ck st = kinds /\
    forall i c cap, nth_error st i = Some c -> ck c = KMemo cap -> coherent nat nat (content i) (ccache c).

  Lemma map_ck_update : forall (st : list cell) i c c',
    nth_error st i = Some c -> ck c' = ck c -> map ck (update st i c') = map ck st.
  Proof.
    induction st as [|a st IH]; intros [|i] c c' H E; simpl in *; try discriminate.
    - inversion H; subst. rewrite E. reflexivity.
    - f_equal. eapply IH; eauto.
  Qed.

  Lemma nat_eqb_eq : forall a b, Nat.eqb a b = true -> a = b.
  Proof. intros a b H. apply Nat.eqb_eq. exact H. Qed.

  Lemma use_cell_kind : forall i key c, ck (snd (use_cell content i key c)) = ck c.
  Proof. intros i key c. unfold use_cell. destruct (ck c) eqn:K; cbn [snd ck]; auto. Qed.

  Lemma apply_op_inv : forall kinds st o, StoreInv kinds st -> StoreInv kinds (apply_op content st o).
  Proof.
    intros kinds st o [Hk Hc]. destruct o as [i key|i v]; cbn [apply_op];
      destruct (nth_error st i) as [c|] eqn:Hi; try (split; assumption).
    - split.
      + rewrite (map_ck_update st i c); [exact Hk | exact Hi | apply use_cell_kind].
      + intros j c' cap Hj Kc'. apply nth_error_update_inv in Hj. destruct Hj as [[E1 E2]|[N Hj]].
        * subst. rewrite use_cell_kind in Kc'. unfold use_cell. rewrite Kc'. cbn [snd ccache].
          apply memo_call_coherent; [exact nat_eqb_eq | eapply Hc; eauto].
        * eapply Hc; eauto.
    - assert (Kp : ck (poke_cell v c) = ck c) by (unfold poke_cell; destruct (ck c) eqn:K; cbn [ck]; auto).
      assert (Cp : ccache (poke_cell v c) = ccache c) by (unfold poke_cell; destruct (ck c); reflexivity).
      split.
      + rewrite (map_ck_update st i c); [exact Hk | exact Hi | exact Kp].
      + intros j c' cap Hj Kc'. apply nth_error_update_inv in Hj. destruct Hj as [[E1 E2]|[N Hj]].
        * subst. rewrite Cp. rewrite Kp in Kc'. eapply Hc; eauto.
        * eapply Hc; eauto.
  Qed.

  Lemma store_init_inv : forall kinds, StoreInv kinds (map new_cell kinds).
  Proof.
    intros kinds. split.
    - rewrite map_map. cbn [new_cell ck]. apply map_id.
    - intros i c cap H K. apply nth_error_In in H. apply in_map_iff in H. destruct H as [k [E _]]. subst c.
      cbn [new_cell ccache]. intros ? ? [].
  Qed.

  Lemma store_run_inv : forall kinds h st, StoreInv kinds st -> StoreInv kinds (store_run content st h).
  Proof.
    intros kinds h. induction h as [|o h IH]; intros st I; [exact I|]. cbn [store_run fold_left].
    apply IH. apply apply_op_inv. exact I.
  Qed.

  Lemma no_other_shared_state : forall (kinds : list kind) (h : list op) (i key : nat),
    forallb classified kinds = true -> (i < length kinds)%nat ->
    read content (store_run content (map new_cell kinds) h) i key = Some (content i key).
  Proof.
    intros kinds h i key Hcl Hi.
    destruct (store_run_inv kinds h _ (store_init_inv kinds)) as [Hk Hc].
    set (st := store_run content (map new_cell kinds) h) in *.
    assert (Hlen : length st = length kinds) by (rewrite <- Hk; rewrite map_length; reflexivity).
    unfold read. destruct (nth_error st i) as [c|] eqn:Hn.
    - f_equal. assert (Kin : In (ck c) kinds).
      { rewrite <- Hk. apply in_map. eapply nth_error_In. exact Hn. }
      rewrite forallb_forall in Hcl. specialize (Hcl _ Kin).
      unfold use_cell. destruct (ck c) eqn:K; cbn [fst]; try reflexivity; try discriminate.
      apply memo_call_result; [exact nat_eqb_eq | eapply Hc; eauto].
    - apply nth_error_None in Hn. lia.
  Qed.
End StoreProofs.

(* with a single unclassified cell the statement is false: an extraction leaves 1 where a fresh
   process yields 0 *)
Lemma unclassified_cell_refuted :
  exists (kinds : list kind) (h : list op) (i key : nat),
    (i < length kinds)%nat /\
    read (fun _ _ => 0%nat) (store_run (fun _ _ => 0%nat) (map new_cell kinds) h) i key <> Some 0%nat.
Proof. exists [KRaw], [Poke 0 1], 0%nat, 0%nat. split; [simpl; lia | vm_compute; discriminate]. Qed.
