(* C15 — proofs about the memo tables (Part 2 of the model). *)
From Coq Require Import ZArith List Bool Lia ZifyBool.
Import ListNotations.
From S2T Require Import C15.Model.

Section MemoProofs.
  Variable K V : Type.
  Variable keq : K -> K -> bool.
  Variable f : K -> V.
  Hypothesis keq_eq : forall a b, keq a b = true -> a = b.

  Definition coherent (c : cache K V) : Prop := forall k v, In (k, v) c -> v = f k.

  Lemma lookup_in : forall (c : cache K V) k v, lookup keq c k = Some v -> In (k, v) c.
  Proof.
    induction c as [|[k' v'] c IH]; simpl; intros k v H; [discriminate|].
    destruct (keq k' k) eqn:E.
    - apply keq_eq in E. inversion H; subst. left. reflexivity.
    - right. apply IH. exact H.
  Qed.

  Lemma remove_in : forall (c : cache K V) k x, In x (remove keq c k) -> In x c.
  Proof.
    induction c as [|[k' v'] c IH]; simpl; intros k x H; [exact H|].
    destruct (keq k' k).
    - right. exact H.
    - destruct H as [H|H]; [left; exact H | right; eapply IH; exact H].
  Qed.

  Lemma remove_length : forall (c : cache K V) k v,
    lookup keq c k = Some v -> (length (remove keq c k) + 1 = length c)%nat.
  Proof.
    induction c as [|[k' v'] c IH]; simpl; intros k v H; [discriminate|].
    destruct (keq k' k); simpl; [lia|]. rewrite (IH k v H). reflexivity.
  Qed.

  Lemma tl_in : forall A (l : list A) x, In x (tl l) -> In x l.
  Proof. intros A [|a l] x H; simpl in *; auto. Qed.

  Lemma memo_call_result : forall cap c k, coherent c -> fst (memo_call keq f cap c k) = f k.
  Proof.
    intros cap c k Hc. unfold memo_call. destruct (lookup keq c k) as [v|] eqn:L; simpl; [|reflexivity].
    apply Hc. apply lookup_in. exact L.
  Qed.

  Lemma memo_call_coherent : forall cap c k, coherent c -> coherent (snd (memo_call keq f cap c k)).
  Proof.
    intros cap c k Hc. unfold memo_call. destruct (lookup keq c k) as [v|] eqn:L; simpl.
    - intros k0 v0 H. apply in_app_or in H. destruct H as [H|[H|[]]].
      + apply Hc. eapply remove_in. exact H.
      + inversion H; subst. apply Hc. apply lookup_in. exact L.
    - assert (Hc' : coherent (c ++ [(k, f k)])).
      { intros k0 v0 H. apply in_app_or in H. destruct H as [H|[H|[]]]; [apply Hc; exact H|].
        inversion H; subst. reflexivity. }
      destruct (Nat.ltb cap (length (c ++ [(k, f k)]))); [|exact Hc'].
      intros k0 v0 H. apply Hc'. apply tl_in. exact H.
  Qed.

  Lemma memo_call_bounded : forall cap c k,
    (length c <= cap)%nat -> (length (snd (memo_call keq f cap c k)) <= cap)%nat.
  Proof.
    intros cap c k Hl. unfold memo_call. destruct (lookup keq c k) as [v|] eqn:L; simpl.
    - rewrite app_length. simpl. pose proof (remove_length c k v L). lia.
    - destruct (Nat.ltb cap (length (c ++ [(k, f k)]))) eqn:E.
      + assert (length (tl (c ++ [(k, f k)])) = length c).
        { destruct c; simpl; [reflexivity|]. rewrite app_length. simpl. lia. }
        lia.
      + apply Nat.ltb_ge in E. exact E.
  Qed.

  Lemma history_inv : forall cap ks c,
    coherent c -> (length c <= cap)%nat ->
    coherent (memo_history keq f cap c ks) /\ (length (memo_history keq f cap c ks) <= cap)%nat.
  Proof.
    intros cap ks. induction ks as [|k ks IH]; intros c Hc Hl; simpl; [auto|].
    apply IH; [apply memo_call_coherent | apply memo_call_bounded]; assumption.
  Qed.

  Lemma memo_transparent : forall cap ks k,
    fst (memo_call keq f cap (memo_history keq f cap [] ks) k) = f k /\
    (length (memo_history keq f cap [] ks) <= cap)%nat.
  Proof.
    intros cap ks k. destruct (history_inv cap ks []) as [Hc Hl]; [intros ? ? []|simpl; lia|].
    split; [apply memo_call_result; exact Hc | exact Hl].
  Qed.
End MemoProofs.

(* --------------------------------------------------------------- font cache *)

(* today's key is the font program alone: the second caller gets the first caller's glyph set *)
Lemma font_cache_not_transparent :
  exists (features : nat -> nat -> nat) (font g1 g2 : nat),
    fst (font_call Nat.eqb features (snd (font_call Nat.eqb features [] font g1)) font g2)
    <> features font g2.
Proof. exists (fun _ g => g), 0%nat, 1%nat, 2%nat. vm_compute. discriminate. Qed.

Section FontKeyed.
  Variable Font Gids R : Type.
  Variable keq : (Font * Gids) -> (Font * Gids) -> bool.
  Variable features : Font -> Gids -> R.
  Hypothesis keq_eq : forall a b, keq a b = true -> a = b.

  Definition fcoherent (c : list ((Font * Gids) * R)) : Prop :=
    forall k v, In (k, v) c -> v = features (fst k) (snd k).

  Definition font_history (c : list ((Font * Gids) * R)) (h : list (Font * Gids)) :=
    fold_left (fun c k => snd (font_call_keyed features keq c (fst k) (snd k))) h c.

  Lemma font_keyed_step : forall c font gids,
    fcoherent c ->
    fst (font_call_keyed features keq c font gids) = features font gids /\
    fcoherent (snd (font_call_keyed features keq c font gids)).
  Proof.
    intros c font gids Hc. unfold font_call_keyed.
    destruct (lookup keq c (font, gids)) as [r|] eqn:L; simpl.
    - split; [|exact Hc]. apply (Hc (font, gids) r). eapply lookup_in; eauto.
    - split; [reflexivity|]. intros k v H. apply in_app_or in H. destruct H as [H|[H|[]]]; [apply Hc; exact H|].
      inversion H; subst. reflexivity.
  Qed.

  Lemma font_keyed_transparent : forall h font gids,
    fst (font_call_keyed features keq (font_history [] h) font gids) = features font gids.
  Proof.
    intros h font gids. apply font_keyed_step.
    assert (Gn : forall h c, fcoherent c -> fcoherent (font_history c h)).
    { induction h0 as [|k h0 IH]; intros c Hc; simpl; [exact Hc|]. apply IH. apply font_keyed_step. exact Hc. }
    apply Gn. intros ? ? [].
  Qed.
End FontKeyed.

(* --------------------------------------------------------------- round-key cache race *)

(* cache filled sequentially with keys 1..4 (capacity 4); thread 0 asks for key 1 (the oldest),
   thread 1 for the new key 5.  Between thread 0's get and its move_to_end, thread 1 inserts key 5
   and evicts key 1: move_to_end raises KeyError. *)
Definition rk_history (expand : nat -> nat) : rk_cache :=
  memo_history Nat.eqb expand 4 [] [1;2;3;4]%nat.

Definition rk_race_schedule : list nat := [0;1;1;1;0]%nat.

Lemma rk_unlocked_race :
  exists (sched : list nat),
    forall expand : nat -> nat,
    exists c th,
      rk_run expand 4 (rk_history expand, [mkRk 1 RkGet None; mkRk 5 RkGet None]) sched = (c, th) /\
      nth_error th 0 = Some (mkRk 1 RkKeyError None).
Proof. exists rk_race_schedule. intro expand. eexists. eexists. split; reflexivity. Qed.

(* executed atomically (under a lock) _get_round_keys is memo_call: a thread that runs all of its
   statements without interruption computes exactly memo_call *)
Definition rk_atomic_call (expand : nat -> nat) (cap : nat) (c : rk_cache) (k : nat) : rk_cache * rk_thread :=
  let s1 := rk_step expand cap c (mkRk k RkGet None) in
  let s2 := rk_step expand cap (fst s1) (snd s1) in
  rk_step expand cap (fst s2) (snd s2).

Lemma rk_atomic_is_memo : forall expand cap c k,
  let r := rk_atomic_call expand cap c k in
  rk_at (snd r) = RkDone /\
  rk_result (snd r) = Some (fst (memo_call Nat.eqb expand cap c k)) /\
  fst r = snd (memo_call Nat.eqb expand cap c k).
Proof.
  intros expand cap c k. unfold rk_atomic_call, memo_call. cbn [rk_step rk_at rk_key fst snd].
  destruct (lookup Nat.eqb c k) as [v|] eqn:L; cbn [rk_step rk_at rk_key rk_result fst snd].
  - rewrite L. cbn [rk_step rk_at rk_key rk_result fst snd]. auto.
  - rewrite L. cbn [rk_step rk_at rk_key rk_result fst snd]. auto.
Qed.
