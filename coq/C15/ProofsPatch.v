(* C15 — proofs about the patch protocol (Part 1 of the model). *)
From Coq Require Import ZArith List Bool Lia ZifyBool.
Import ListNotations.
From S2T Require Import C15.Model.

(* ------------------------------------------------------------------ current protocol: refuted *)

Lemma current_patch_not_restored :
  exists sched : list nat,
    all_finished (run (init 2 proto_current) sched) = true /\
    G (run (init 2 proto_current) sched) <> orig.
Proof. exists bad_schedule. split; [vm_compute; reflexivity | vm_compute; discriminate]. Qed.

(* a thread's with-body runs while G is the ORIGINAL function: thread 1 enters after thread 0,
   thread 0 leaves first and "restores" *)
Definition unpatched_schedule : list nat := [0;0;0; 1;1;1; 0;0; 1]%nat.

Lemma current_body_runs_unpatched :
  exists (sched : list nat) (th : thread),
    nth_error (threads (run (init 2 proto_current) sched)) 1 = Some th /\ In orig (seen th).
Proof.
  exists unpatched_schedule. eexists. split; [vm_compute; reflexivity | simpl; auto].
Qed.

(* every complete round of the two-thread schedule adds one more permanent wrapper layer,
   whatever the history left behind *)
Lemma bad_round_adds_layer :
  forall g0 : fn,
    all_finished (run (init_from g0 2 proto_current) bad_schedule) = true /\
    G (run (init_from g0 2 proto_current) bad_schedule) = wrap 0 g0.
Proof. intro g0. split; reflexivity. Qed.

Lemma rounds_length : forall k g0, length (rounds k g0) = (k + length g0)%nat.
Proof.
  induction k as [|k IH]; intro g0; [reflexivity|].
  cbn [rounds]. rewrite (proj2 (bad_round_adds_layer (rounds k g0))).
  cbn [wrap length]. rewrite IH. lia.
Qed.

Lemma nesting_unbounded : forall n : nat, exists k : nat, (length (rounds k orig) >= n)%nat.
Proof. intro n. exists n. rewrite rounds_length. cbn [orig length]. lia. Qed.

(* ------------------------------------------------------------------ list helpers *)

Lemma nth_error_update_eq : forall A (l : list A) t x y,
  nth_error l t = Some y -> nth_error (update l t x) t = Some x.
Proof.
  intros A l. induction l as [|a l IH]; intros [|t] x y H; simpl in *; try discriminate; auto.
  eapply IH; eauto.
Qed.

Lemma nth_error_update_neq : forall A (l : list A) t t' x,
  t <> t' -> nth_error (update l t x) t' = nth_error l t'.
Proof.
  intros A l. induction l as [|a l IH]; intros [|t] [|t'] x H; simpl in *; auto; try congruence.
Qed.

Lemma nth_error_update_inv : forall A (l : list A) t t' x y,
  nth_error (update l t x) t' = Some y ->
  (t = t' /\ y = x) \/ (t <> t' /\ nth_error l t' = Some y).
Proof.
  intros A l t t' x y H. destruct (Nat.eq_dec t t') as [E|E].
  - subst t'. left. split; auto.
    destruct (nth_error l t) as [z|] eqn:Hz.
    + rewrite (nth_error_update_eq _ l t x z Hz) in H. congruence.
    + exfalso. revert t H Hz. induction l as [|a l IH]; intros [|t] H Hz; simpl in *; try discriminate.
      eapply IH; eauto.
  - right. split; auto. rewrite nth_error_update_neq in H; auto.
Qed.

Definition b2n (b : bool) : nat := if b then 1%nat else 0%nat.

Fixpoint cnt {A} (f : A -> bool) (l : list A) : nat :=
  match l with [] => 0%nat | x :: r => (b2n (f x) + cnt f r)%nat end.

Lemma cnt_update : forall A (f : A -> bool) (l : list A) t x y,
  nth_error l t = Some y ->
  (cnt f (update l t x) + b2n (f y) = cnt f l + b2n (f x))%nat.
Proof.
  intros A f l. induction l as [|a l IH]; intros [|t] x y H; simpl in *; try discriminate.
  - inversion H; subst. lia.
  - specialize (IH t x y H). lia.
Qed.

Lemma cnt_ge1 : forall A (f : A -> bool) (l : list A) t y,
  nth_error l t = Some y -> f y = true -> (cnt f l >= 1)%nat.
Proof.
  intros A f l. induction l as [|a l IH]; intros [|t] y H Hf; simpl in *; try discriminate.
  - inversion H; subst. rewrite Hf. simpl. lia.
  - specialize (IH t y H Hf). lia.
Qed.

Lemma cnt_zero : forall A (f : A -> bool) (l : list A),
  (forall x, In x l -> f x = false) -> cnt f l = 0%nat.
Proof.
  intros A f l. induction l as [|a l IH]; intro H; simpl; auto.
  rewrite (H a (or_introl eq_refl)). rewrite IH; auto. intros x Hx. apply H. right. exact Hx.
Qed.

Lemma nth_error_repeat : forall A (x y : A) n t, nth_error (repeat x n) t = Some y -> y = x.
Proof. intros A x y n t H. apply nth_error_In in H. apply repeat_spec in H. exact H. Qed.

Lemma forallb_false_nth : forall A (f : A -> bool) (l : list A),
  forallb f l = false -> exists t x, nth_error l t = Some x /\ f x = false.
Proof.
  intros A f l. induction l as [|a l IH]; simpl; intro H; [discriminate|].
  destruct (f a) eqn:Fa.
  - simpl in H. destruct (IH H) as [t [x [H1 H2]]]. exists (S t), x. auto.
  - exists 0%nat, a. auto.
Qed.

(* ------------------------------------------------------------------ repaired protocol: invariant *)

Inductive phase := P0 | P1 | P2a | P2a' | P2b | P3 | P4 | P5 | P6 | P7 | P8 | P9a | P9b | P10.

Definition enter_body : list instr := [ReadG; Push Global; SetWrap].
Definition exit_body : list instr := [PopRestoreAll Global].
Definition tail9 : list instr := [Release].
Definition tail8 := IfDepthZero exit_body :: tail9.
Definition tail7 := Decr :: tail8.
Definition tail6 := Acquire :: tail7.
Definition tail5 := Yield :: tail6.
Definition tail4 := Release :: tail5.
Definition tail3 := Incr :: tail4.

Definition pc_of (p : phase) : list instr :=
  match p with
  | P0 => proto_locked
  | P1 => IfDepthZero enter_body :: tail3
  | P2a => ReadG :: Push Global :: SetWrap :: tail3
  | P2a' => Push Global :: SetWrap :: tail3
  | P2b => SetWrap :: tail3
  | P3 => tail3
  | P4 => tail4
  | P5 => tail5
  | P6 => tail6
  | P7 => tail7
  | P8 => tail8
  | P9a => PopRestoreAll Global :: tail9
  | P9b => tail9
  | P10 => []
  end.

Definition phase_of (p : list instr) : phase :=
  match p with
  | [] => P10
  | Release :: [] => P9b
  | PopRestoreAll _ :: _ => P9a
  | IfDepthZero _ :: Release :: _ => P8
  | Decr :: _ => P7
  | Acquire :: Decr :: _ => P6
  | Yield :: _ => P5
  | Release :: _ => P4
  | Incr :: _ => P3
  | SetWrap :: _ => P2b
  | Push _ :: _ => P2a'
  | ReadG :: _ => P2a
  | IfDepthZero _ :: _ => P1
  | Acquire :: _ => P0
  | _ => P10
  end.

Definition ph (th : thread) : phase := phase_of (pc th).

Definition counted (th : thread) : bool :=
  match ph th with P4 | P5 | P6 | P7 => true | _ => false end.

Definition holds (th : thread) : bool :=
  match ph th with
  | P1 | P2a | P2a' | P2b | P3 | P4 | P7 | P8 | P9a | P9b => true
  | _ => false
  end.

Definition Installed (g0 g : fn) (sv : list fn) : Prop := (exists w, g = wrap w g0) /\ sv = [g0].

Definition Quiet (g0 g : fn) (d : Z) (sv : list fn) : Prop :=
  (d = 0%Z -> g = g0 /\ sv = []) /\ (d <> 0%Z -> Installed g0 g sv).

Definition HeldRel (g0 g : fn) (d : Z) (sv : list fn) (th : thread) : Prop :=
  match ph th with
  | P1 | P9b => Quiet g0 g d sv
  | P2a => d = 0%Z /\ g = g0 /\ sv = []
  | P2a' => d = 0%Z /\ g = g0 /\ sv = [] /\ reg th = g0
  | P2b => d = 0%Z /\ g = g0 /\ sv = [g0] /\ reg th = g0
  | P3 | P4 | P7 | P8 => Installed g0 g sv
  | P9a => d = 0%Z /\ Installed g0 g sv
  | _ => False
  end.

Definition thread_ok (g0 : fn) (th : thread) : Prop :=
  pc th = pc_of (ph th) /\ (forall g, In g (seen th) -> exists w, g = wrap w g0).

Record Inv (g0 : fn) (st : state) : Prop := mkInv {
  inv_pc : forall t th, nth_error (threads st) t = Some th -> thread_ok g0 th;
  inv_depth : depth st = Z.of_nat (cnt counted (threads st));
  inv_hold : forall t th, nth_error (threads st) t = Some th -> holds th = true -> lock st = Some t;
  inv_lock : match lock st with
             | None => Quiet g0 (G st) (depth st) (gsaved st)
             | Some t => exists th, nth_error (threads st) t = Some th /\ holds th = true /\
                                    HeldRel g0 (G st) (depth st) (gsaved st) th
             end
}.

Lemma inv_init : forall g0 n, Inv g0 (init_from g0 n proto_locked).
Proof.
  intros g0 n. constructor; cbn [init_from threads depth lock G gsaved].
  - intros t th H. apply nth_error_repeat in H. subst th. split; [reflexivity|]. intros g [].
  - rewrite cnt_zero; [reflexivity|]. intros x Hx. apply repeat_spec in Hx. subst x. reflexivity.
  - intros t th H Hh. apply nth_error_repeat in H. subst th. discriminate.
  - split; [auto | intro H; congruence].
Qed.

(* while some thread is between its increment and its decrement, the patch is installed *)
Lemma counted_installed : forall g0 st t th,
  Inv g0 st -> nth_error (threads st) t = Some th -> counted th = true ->
  exists w, G st = wrap w g0.
Proof.
  intros g0 st t th I Hth Hc.
  assert (Hd : depth st <> 0%Z).
  { rewrite (inv_depth _ _ I). pose proof (cnt_ge1 _ counted _ _ _ Hth Hc). lia. }
  pose proof (inv_lock _ _ I) as L. destruct (lock st) as [t0|].
  - destruct L as [th0 [H0 [Hh0 R]]]. unfold HeldRel in R.
    destruct (ph th0); try contradiction;
      try (destruct R as [_ R]; destruct (R Hd) as [W _]; exact W);
      try (destruct R as [W _]; exact W);
      try (destruct R as [Z0 _]; congruence).
  - destruct L as [_ R]. destruct (R Hd) as [W _]. exact W.
Qed.

(* generic re-establishment of the invariant after thread t moved from th to th' *)
Lemma inv_update : forall g0 st t th th' g' d' sv' lk',
  Inv g0 st -> nth_error (threads st) t = Some th ->
  thread_ok g0 th' ->
  (d' + Z.of_nat (b2n (counted th)) = depth st + Z.of_nat (b2n (counted th')))%Z ->
  (holds th' = true -> lk' = Some t) ->
  (forall t' th'', t' <> t -> nth_error (threads st) t' = Some th'' -> holds th'' = true -> lk' = Some t') ->
  (let ts' := update (threads st) t th' in
   match lk' with
   | None => Quiet g0 g' d' sv'
   | Some t0 => exists th0, nth_error ts' t0 = Some th0 /\ holds th0 = true /\ HeldRel g0 g' d' sv' th0
   end) ->
  Inv g0 (mkState g' d' sv' lk' (update (threads st) t th')).
Proof.
  intros g0 st t th th' g' d' sv' lk' I Hth Hok Hd Hh1 Hh2 Hl.
  constructor; cbn [threads depth lock G gsaved].
  - intros t' x H. apply nth_error_update_inv in H. destruct H as [[E1 E2]|[N H]].
    + subst. exact Hok.
    + eapply (inv_pc _ _ I); eauto.
  - pose proof (cnt_update _ counted (threads st) t th' th Hth) as C.
    pose proof (inv_depth _ _ I) as D. lia.
  - intros t' x H Hx. apply nth_error_update_inv in H. destruct H as [[E1 E2]|[N H]].
    + subst. auto.
    + eapply Hh2; eauto.
  - exact Hl.
Qed.

Ltac solve_ok Hseen :=
  unfold thread_ok; split; [reflexivity | cbn [seen]; exact Hseen].

Ltac hold_tac :=
  first [ intros _; reflexivity | intros _; eassumption | cbn; discriminate ].

(* lock holder identification: if thread t holds, the invariant's holder is t itself *)
Lemma holder_is : forall g0 st t th,
  Inv g0 st -> nth_error (threads st) t = Some th -> holds th = true ->
  lock st = Some t /\ HeldRel g0 (G st) (depth st) (gsaved st) th.
Proof.
  intros g0 st t th I Hth Hh. pose proof (inv_hold _ _ I t th Hth Hh) as L.
  split; [exact L|]. pose proof (inv_lock _ _ I) as K. rewrite L in K.
  destruct K as [th0 [H0 [_ R]]]. rewrite Hth in H0. inversion H0; subst. exact R.
Qed.

Lemma others_not_holding : forall g0 st t th t' th'',
  Inv g0 st -> nth_error (threads st) t = Some th -> holds th = true ->
  t' <> t -> nth_error (threads st) t' = Some th'' -> holds th'' = true -> False.
Proof.
  intros g0 st t th t' th'' I Hth Hh N H'' Hh''.
  pose proof (inv_hold _ _ I t th Hth Hh) as L1.
  pose proof (inv_hold _ _ I t' th'' H'' Hh'') as L2. congruence.
Qed.

Lemma step_inv : forall g0 st t, Inv g0 st -> Inv g0 (step st t).
Proof.
  intros g0 st t I. unfold step. destruct (nth_error (threads st) t) as [th|] eqn:Hth; [|exact I].
  destruct (inv_pc _ _ I t th Hth) as [Hpc Hseen].
  assert (Hcnt := fun H => counted_installed g0 st t th I Hth H).
  assert (Hhold := fun H => holder_is g0 st t th I Hth H).
  assert (Hoth := fun H t' th'' => others_not_holding g0 st t th t' th'' I Hth H).
  unfold counted in Hcnt. unfold holds in Hhold, Hoth.
  destruct (ph th) eqn:Hph; rewrite Hpc; cbn [pc_of proto_locked tail3 tail4 tail5 tail6 tail7 tail8 tail9];
    cbn [exec set_thread].
  - (* P0: Acquire *)
    clear Hcnt Hhold Hoth.
    destruct (lock st) as [t0|] eqn:L; [exact I|].
    eapply inv_update; [exact I | exact Hth | | | | | ].
    + solve_ok Hseen.
    + unfold counted. rewrite Hph. cbn. lia.
    + hold_tac.
    + intros t' th'' N H'' Hh''. pose proof (inv_hold _ _ I _ _ H'' Hh''). congruence.
    + cbn zeta. eexists. split; [eapply nth_error_update_eq; eauto|]. split; [reflexivity|].
      unfold HeldRel. cbn. pose proof (inv_lock _ _ I) as K. rewrite L in K. exact K.
  - (* P1: if DEPTH == 0 *)
    destruct (Hhold eq_refl) as [L R]. unfold HeldRel in R. rewrite Hph in R.
    destruct (depth st =? 0)%Z eqn:D0.
    + assert (D : depth st = 0%Z) by lia. destruct R as [R _]. destruct (R D) as [Rg Rs].
      unfold set_thread.
      eapply inv_update; [exact I | exact Hth | | | | | ].
      * solve_ok Hseen.
      * unfold counted. rewrite Hph. cbn. lia.
      * hold_tac.
      * intros t' th'' N H'' Hh''. exfalso. eapply (Hoth eq_refl); eauto.
      * cbn zeta. rewrite L. eexists. split; [eapply nth_error_update_eq; eauto|]. split; [reflexivity|].
        unfold HeldRel. cbn. auto.
    + assert (D : depth st <> 0%Z) by lia. destruct R as [_ R]. specialize (R D).
      unfold set_thread.
      eapply inv_update; [exact I | exact Hth | | | | | ].
      * solve_ok Hseen.
      * unfold counted. rewrite Hph. cbn. lia.
      * hold_tac.
      * intros t' th'' N H'' Hh''. exfalso. eapply (Hoth eq_refl); eauto.
      * cbn zeta. rewrite L. eexists. split; [eapply nth_error_update_eq; eauto|]. split; [reflexivity|].
        unfold HeldRel. cbn. exact R.
  - (* P2a: ReadG *)
    destruct (Hhold eq_refl) as [L R]. unfold HeldRel in R. rewrite Hph in R. destruct R as [D [Rg Rs]].
    unfold set_thread.
    eapply inv_update; [exact I | exact Hth | | | | | ].
    + solve_ok Hseen.
    + unfold counted. rewrite Hph. cbn. lia.
    + hold_tac.
    + intros t' th'' N H'' Hh''. exfalso. eapply (Hoth eq_refl); eauto.
    + cbn zeta. rewrite L. eexists. split; [eapply nth_error_update_eq; eauto|]. split; [reflexivity|].
      unfold HeldRel. cbn. auto.
  - (* P2a': Push Global *)
    destruct (Hhold eq_refl) as [L R]. unfold HeldRel in R. rewrite Hph in R. destruct R as [D [Rg [Rs Rr]]].
    eapply inv_update; [exact I | exact Hth | | | | | ].
    + solve_ok Hseen.
    + unfold counted. rewrite Hph. cbn. lia.
    + hold_tac.
    + intros t' th'' N H'' Hh''. exfalso. eapply (Hoth eq_refl); eauto.
    + cbn zeta. rewrite L. eexists. split; [eapply nth_error_update_eq; eauto|]. split; [reflexivity|].
      unfold HeldRel. cbn. rewrite Rs, Rr. auto.
  - (* P2b: SetWrap *)
    destruct (Hhold eq_refl) as [L R]. unfold HeldRel in R. rewrite Hph in R. destruct R as [D [Rg [Rs Rr]]].
    eapply inv_update; [exact I | exact Hth | | | | | ].
    + solve_ok Hseen.
    + unfold counted. rewrite Hph. cbn. lia.
    + hold_tac.
    + intros t' th'' N H'' Hh''. exfalso. eapply (Hoth eq_refl); eauto.
    + cbn zeta. rewrite L. eexists. split; [eapply nth_error_update_eq; eauto|]. split; [reflexivity|].
      unfold HeldRel. cbn. split; [exists t; rewrite Rr; reflexivity | exact Rs].
  - (* P3: Incr *)
    destruct (Hhold eq_refl) as [L R]. unfold HeldRel in R. rewrite Hph in R.
    eapply inv_update; [exact I | exact Hth | | | | | ].
    + solve_ok Hseen.
    + unfold counted. rewrite Hph. cbn. lia.
    + hold_tac.
    + intros t' th'' N H'' Hh''. exfalso. eapply (Hoth eq_refl); eauto.
    + cbn zeta. rewrite L. eexists. split; [eapply nth_error_update_eq; eauto|]. split; [reflexivity|].
      unfold HeldRel. cbn. exact R.
  - (* P4: Release *)
    destruct (Hhold eq_refl) as [L R]. unfold HeldRel in R. rewrite Hph in R.
    assert (Dn : depth st <> 0%Z).
    { rewrite (inv_depth _ _ I). assert (C : counted th = true) by (unfold counted; rewrite Hph; reflexivity).
      pose proof (cnt_ge1 _ counted _ _ _ Hth C). lia. }
    eapply inv_update; [exact I | exact Hth | | | | | ].
    + solve_ok Hseen.
    + unfold counted. rewrite Hph. cbn. lia.
    + cbn. discriminate.
    + intros t' th'' N H'' Hh''. exfalso. eapply (Hoth eq_refl); eauto.
    + cbn zeta. split; [intro; contradiction | intro; exact R].
  - (* P5: Yield *)
    destruct (Hcnt eq_refl) as [w Hw].
    assert (Hnh : holds th = false) by (unfold holds; rewrite Hph; reflexivity).
    unfold set_thread.
    eapply inv_update; [exact I | exact Hth | | | | | ].
    + split; [reflexivity|]. cbn [seen]. intros g Hg. apply in_app_or in Hg. destruct Hg as [Hg|[Hg|[]]].
      * auto.
      * subst g. exists w. exact Hw.
    + unfold counted. rewrite Hph. cbn. lia.
    + cbn. discriminate.
    + intros t' th'' N H'' Hh''. eapply (inv_hold _ _ I); eauto.
    + cbn zeta. pose proof (inv_lock _ _ I) as K. destruct (lock st) as [t0|]; [|exact K].
      destruct K as [th0 [H0 [Hh0 R0]]]. exists th0. split; [|auto].
      rewrite nth_error_update_neq; auto. intro E. subst t0. rewrite Hth in H0. inversion H0; subst. congruence.
  - (* P6: Acquire *)
    destruct (Hcnt eq_refl) as [w Hw]. clear Hhold Hoth.
    destruct (lock st) as [t0|] eqn:L; [exact I|].
    assert (Dn : depth st <> 0%Z).
    { rewrite (inv_depth _ _ I). assert (C : counted th = true) by (unfold counted; rewrite Hph; reflexivity).
      pose proof (cnt_ge1 _ counted _ _ _ Hth C). lia. }
    eapply inv_update; [exact I | exact Hth | | | | | ].
    + solve_ok Hseen.
    + unfold counted. rewrite Hph. cbn. lia.
    + hold_tac.
    + intros t' th'' N H'' Hh''. pose proof (inv_hold _ _ I _ _ H'' Hh''). congruence.
    + cbn zeta. eexists. split; [eapply nth_error_update_eq; eauto|]. split; [reflexivity|].
      unfold HeldRel. cbn. pose proof (inv_lock _ _ I) as K. rewrite L in K. destruct K as [_ K]. exact (K Dn).
  - (* P7: Decr *)
    destruct (Hhold eq_refl) as [L R]. unfold HeldRel in R. rewrite Hph in R.
    eapply inv_update; [exact I | exact Hth | | | | | ].
    + solve_ok Hseen.
    + unfold counted. rewrite Hph. cbn. lia.
    + hold_tac.
    + intros t' th'' N H'' Hh''. exfalso. eapply (Hoth eq_refl); eauto.
    + cbn zeta. rewrite L. eexists. split; [eapply nth_error_update_eq; eauto|]. split; [reflexivity|].
      unfold HeldRel. cbn. exact R.
  - (* P8: if DEPTH == 0 *)
    destruct (Hhold eq_refl) as [L R]. unfold HeldRel in R. rewrite Hph in R.
    unfold set_thread. destruct (depth st =? 0)%Z eqn:D0.
    + assert (D : depth st = 0%Z) by lia.
      eapply inv_update; [exact I | exact Hth | | | | | ].
      * solve_ok Hseen.
      * unfold counted. rewrite Hph. cbn. lia.
      * hold_tac.
      * intros t' th'' N H'' Hh''. exfalso. eapply (Hoth eq_refl); eauto.
      * cbn zeta. rewrite L. eexists. split; [eapply nth_error_update_eq; eauto|]. split; [reflexivity|].
        unfold HeldRel. cbn. auto.
    + assert (D : depth st <> 0%Z) by lia.
      eapply inv_update; [exact I | exact Hth | | | | | ].
      * solve_ok Hseen.
      * unfold counted. rewrite Hph. cbn. lia.
      * hold_tac.
      * intros t' th'' N H'' Hh''. exfalso. eapply (Hoth eq_refl); eauto.
      * cbn zeta. rewrite L. eexists. split; [eapply nth_error_update_eq; eauto|]. split; [reflexivity|].
        unfold HeldRel. cbn. split; [intro; contradiction | intro; exact R].
  - (* P9a: PopRestoreAll Global *)
    destruct (Hhold eq_refl) as [L R]. unfold HeldRel in R. rewrite Hph in R. destruct R as [D [[w Rg] Rs]].
    eapply inv_update; [exact I | exact Hth | | | | | ].
    + solve_ok Hseen.
    + unfold counted. rewrite Hph. cbn. lia.
    + hold_tac.
    + intros t' th'' N H'' Hh''. exfalso. eapply (Hoth eq_refl); eauto.
    + cbn zeta. rewrite L. eexists. split; [eapply nth_error_update_eq; eauto|]. split; [reflexivity|].
      unfold HeldRel. cbn. rewrite Rs. cbn. split; [auto | intro; contradiction].
  - (* P9b: Release *)
    destruct (Hhold eq_refl) as [L R]. unfold HeldRel in R. rewrite Hph in R.
    eapply inv_update; [exact I | exact Hth | | | | | ].
    + solve_ok Hseen.
    + unfold counted. rewrite Hph. cbn. lia.
    + cbn. discriminate.
    + intros t' th'' N H'' Hh''. exfalso. eapply (Hoth eq_refl); eauto.
    + cbn zeta. exact R.
  - (* P10: finished *)
    exact I.
Qed.

Lemma run_inv : forall g0 sched st, Inv g0 st -> Inv g0 (run st sched).
Proof.
  intros g0 sched. induction sched as [|t r IH]; intros st I; [exact I|].
  cbn [run fold_left]. apply IH. apply step_inv. exact I.
Qed.

Lemma reachable_inv : forall g0 n sched, Inv g0 (run (init_from g0 n proto_locked) sched).
Proof. intros. apply run_inv. apply inv_init. Qed.

Lemma finished_pc : forall st t th,
  all_finished st = true -> nth_error (threads st) t = Some th -> pc th = [].
Proof.
  intros st t th H Hth. unfold all_finished in H. rewrite forallb_forall in H.
  specialize (H th (nth_error_In _ _ Hth)). unfold finished in H. destruct (pc th); [reflexivity|discriminate].
Qed.

Lemma locked_restored : forall g0 n sched,
  let st := run (init_from g0 n proto_locked) sched in
  all_finished st = true ->
  G st = g0 /\ depth st = 0%Z /\ gsaved st = [] /\ lock st = None.
Proof.
  intros g0 n sched st F. pose proof (reachable_inv g0 n sched) as I. fold st in I.
  assert (D : depth st = 0%Z).
  { rewrite (inv_depth _ _ I). rewrite cnt_zero; [reflexivity|].
    intros x Hx. apply In_nth_error in Hx. destruct Hx as [t Ht].
    unfold counted, ph. rewrite (finished_pc st t x F Ht). reflexivity. }
  pose proof (inv_lock _ _ I) as K. destruct (lock st) as [t0|] eqn:L.
  - destruct K as [th0 [H0 [Hh0 _]]]. unfold holds, ph in Hh0. rewrite (finished_pc st t0 th0 F H0) in Hh0. discriminate.
  - destruct K as [K _]. destruct (K D) as [Kg Ks]. auto.
Qed.

Definition inside (th : thread) : bool := match pc th with Yield :: _ => true | _ => false end.

Lemma locked_inside_wrapped : forall g0 n sched t th,
  let st := run (init_from g0 n proto_locked) sched in
  nth_error (threads st) t = Some th ->
  (inside th = true -> exists w, G st = wrap w g0) /\
  (forall g, In g (seen th) -> exists w, g = wrap w g0).
Proof.
  intros g0 n sched t th st Hth. pose proof (reachable_inv g0 n sched) as I. fold st in I.
  destruct (inv_pc _ _ I t th Hth) as [Hpc Hseen]. split; [|exact Hseen].
  intro Hin. eapply counted_installed; eauto.
  unfold inside in Hin. unfold counted, ph. destruct (pc th) as [|i r]; [discriminate|].
  destruct i; try discriminate. reflexivity.
Qed.

Lemma locked_no_deadlock : forall g0 n sched,
  let st := run (init_from g0 n proto_locked) sched in
  all_finished st = false -> exists t, enabled st t = true.
Proof.
  intros g0 n sched st F. pose proof (reachable_inv g0 n sched) as I. fold st in I.
  pose proof (inv_lock _ _ I) as K. destruct (lock st) as [t0|] eqn:L.
  - destruct K as [th0 [H0 [Hh0 _]]]. exists t0. unfold enabled. rewrite H0.
    destruct (inv_pc _ _ I t0 th0 H0) as [Hpc _]. unfold holds in Hh0.
    destruct (ph th0); try discriminate; rewrite Hpc; reflexivity.
  - unfold all_finished in F. apply forallb_false_nth in F. destruct F as [t [x [Hx Fx]]].
    exists t. unfold enabled. rewrite Hx, L. unfold finished in Fx. destruct (pc x) as [|i r]; [discriminate|].
    destruct (is_acquire i); reflexivity.
Qed.

(* the hypothesis `all_finished` is satisfiable: complete schedules exist *)
Definition seq13 (t : nat) : list nat := repeat t 13.
Example locked_finishes_3 :
  all_finished (run (init 3 proto_locked) (seq13 0 ++ seq13 1 ++ seq13 2)) = true.
Proof. vm_compute. reflexivity. Qed.

Example locked_finishes_interleaved :
  all_finished (run (init 2 proto_locked)
    (concat (repeat [0;1;1;0;0]%nat 12))) = true.
Proof. vm_compute. reflexivity. Qed.
