(* C15 — obligations over the skeleton of sharepoint2text.read_file regenerated from the ast
   (Gen/C15ReadFile.v): it acquires handles by `with open(...)` only, hence every exit leaves the
   handle count unchanged. *)
From Coq Require Import List Bool.
Import ListNotations.
From S2T Require Import C15.Handles Gen.C15ReadFile.

Theorem C15_read_file_no_raw_handles : no_raw_b read_file_skeleton = true.
Proof. vm_compute. reflexivity. Qed.
Print Assumptions C15_read_file_no_raw_handles.

Theorem C15_read_file_skeleton_handles_closed :
  forall (k h : nat) (o : outcome) (h' : nat), In (o, h') (exec_b k read_file_skeleton h) -> h' = h.
Proof. intros k h o h'. apply handles_closed. exact C15_read_file_no_raw_handles. Qed.
Print Assumptions C15_read_file_skeleton_handles_closed.

(* non-vacuity: the skeleton has normal, exceptional and abandoned exits *)
Theorem C15_read_file_skeleton_exits :
  res_in (ONormal, 0) (exec_b 2 read_file_skeleton 0) && res_in (ORaise, 0) (exec_b 2 read_file_skeleton 0)
  && res_in (OAbandon, 0) (exec_b 2 read_file_skeleton 0) = true.
Proof. vm_compute. reflexivity. Qed.
Print Assumptions C15_read_file_skeleton_exits.
