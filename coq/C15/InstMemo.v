(* C15 — obligations over the memo-table facts regenerated from today's source
   (Gen/C15Skeleton.v): _get_round_keys runs atomically (so C15_round_keys_atomic_is_memo and
   C15_memo_transparent apply to every interleaving), and the font-cache key contains the glyph
   ids (so C15_font_cache_keyed_transparent is the theorem about today's code). *)
From Coq Require Import List Bool.
From S2T Require Import C15.Model Gen.C15Skeleton.

Theorem C15_round_key_cache_atomic : rk_atomic = true.
Proof. reflexivity. Qed.
Print Assumptions C15_round_key_cache_atomic.

Theorem C15_font_cache_key_has_glyph_ids : font_key_has_gids = true.
Proof. reflexivity. Qed.
Print Assumptions C15_font_cache_key_has_glyph_ids.

(* _open_pdf_reader installs the AES fallback for every document that needs it later (for every
   encrypted document, or eagerly), so C15_aes_result_history_independent is about today's code *)
Theorem C15_aes_fallback_install_safe : aes_mode_safe aes_install_mode = true.
Proof. reflexivity. Qed.
Print Assumptions C15_aes_fallback_install_safe.
