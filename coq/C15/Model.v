(* C15 — executable model of the process-global state the library touches.

   Part 1: the patch / extract / restore protocol around pypdf._page.build_char_map
   (pdf_extractor.py:_patched_build_char_map).  A protocol is a list of instructions (one per
   statement of the context manager that touches shared state; the list is regenerated from the
   `ast` of today's source into Gen/C15Skeleton.v on every run).  Threads run the same protocol;
   the semantics is a small-step interleaving semantics: `step st t` lets thread t execute ONE
   statement (statement-level atomicity under the GIL is the oracle assumption), a schedule is a
   list of thread ids, and there is no bound on the number of threads.

   Part 2: memo tables (functools.lru_cache sites, _ROUND_KEY_CACHE, _FONT_CACHE).

   Definitions only; proofs are in Proofs*.v. *)
From Coq Require Import ZArith List Bool Lia ZifyBool.
Import ListNotations.

(* ------------------------------------------------------------------ Part 1: patch protocol *)

(* A function value is the stack of wrapper layers over the original pypdf function:
   [] is the original, t :: g is the wrapper installed by thread t around g. *)
Definition fn := list nat.
Definition orig : fn := [].
Definition wrap (t : nat) (g : fn) : fn := t :: g.

Inductive loc := Local | Global.   (* where the list of saved originals lives *)

Inductive instr :=
| ReadG                      (* original = getattr(module, func_name) *)
| Push (l : loc)             (* <saved list>.append((module, func_name, original)) *)
| SetWrap                    (* setattr(module, func_name, make_wrapper(original)) *)
| Yield                      (* yield: the with-body (page.extract_text) runs and uses G *)
| RestoreAll (l : loc)       (* for m, n, o in <saved list>: setattr(m, n, o) *)
| PopRestoreAll (l : loc)    (* while <saved list>: m, n, o = <saved list>.pop(); setattr(m, n, o) *)
| Clear (l : loc)            (* <saved list>.clear() *)
| Acquire                    (* with LOCK:  — enter *)
| Release                    (* with LOCK:  — exit *)
| IfDepthZero (body : list instr)   (* if DEPTH == 0: body *)
| Incr                       (* DEPTH += 1 *)
| Decr.                      (* DEPTH -= 1 *)

Record thread := mkThread {
  pc : list instr;           (* statements still to execute *)
  reg : fn;                  (* local variable `original` *)
  lsaved : list fn;          (* local list `originals` *)
  seen : list fn             (* ghost: value of G each time this thread's with-body started *)
}.

Record state := mkState {
  G : fn;                    (* pypdf._page.build_char_map *)
  depth : Z;                 (* module-level user counter (Python int, may go negative) *)
  gsaved : list fn;          (* module-level list of saved originals *)
  lock : option nat;         (* module-level threading.Lock: holder *)
  threads : list thread
}.

Fixpoint update {A} (l : list A) (n : nat) (x : A) : list A :=
  match l, n with
  | [], _ => []
  | _ :: r, O => x :: r
  | y :: r, S n' => y :: update r n' x
  end.

Definition set_thread (st : state) (t : nat) (th : thread) : state :=
  mkState (G st) (depth st) (gsaved st) (lock st) (update (threads st) t th).

Definition exec (st : state) (t : nat) (th : thread) (i : instr) (rest : list instr) : state :=
  match i with
  | ReadG => set_thread st t (mkThread rest (G st) (lsaved th) (seen th))
  | Push Local => set_thread st t (mkThread rest (reg th) (lsaved th ++ [reg th]) (seen th))
  | Push Global =>
      mkState (G st) (depth st) (gsaved st ++ [reg th]) (lock st)
              (update (threads st) t (mkThread rest (reg th) (lsaved th) (seen th)))
  | SetWrap =>
      mkState (wrap t (reg th)) (depth st) (gsaved st) (lock st)
              (update (threads st) t (mkThread rest (reg th) (lsaved th) (seen th)))
  | Yield => set_thread st t (mkThread rest (reg th) (lsaved th) (seen th ++ [G st]))
  | RestoreAll Local =>
      mkState (last (lsaved th) (G st)) (depth st) (gsaved st) (lock st)
              (update (threads st) t (mkThread rest (reg th) (lsaved th) (seen th)))
  | RestoreAll Global =>
      mkState (last (gsaved st) (G st)) (depth st) (gsaved st) (lock st)
              (update (threads st) t (mkThread rest (reg th) (lsaved th) (seen th)))
  | PopRestoreAll Local =>
      mkState (hd (G st) (lsaved th)) (depth st) (gsaved st) (lock st)
              (update (threads st) t (mkThread rest (reg th) [] (seen th)))
  | PopRestoreAll Global =>
      mkState (hd (G st) (gsaved st)) (depth st) [] (lock st)
              (update (threads st) t (mkThread rest (reg th) (lsaved th) (seen th)))
  | Clear Local => set_thread st t (mkThread rest (reg th) [] (seen th))
  | Clear Global =>
      mkState (G st) (depth st) [] (lock st)
              (update (threads st) t (mkThread rest (reg th) (lsaved th) (seen th)))
  | Acquire =>
      match lock st with
      | None => mkState (G st) (depth st) (gsaved st) (Some t)
                        (update (threads st) t (mkThread rest (reg th) (lsaved th) (seen th)))
      | Some _ => st          (* blocked: threading.Lock is not re-entrant *)
      end
  | Release =>
      mkState (G st) (depth st) (gsaved st) None
              (update (threads st) t (mkThread rest (reg th) (lsaved th) (seen th)))
  | IfDepthZero body =>
      set_thread st t (mkThread ((if (depth st =? 0)%Z then body else []) ++ rest)
                                (reg th) (lsaved th) (seen th))
  | Incr =>
      mkState (G st) (depth st + 1)%Z (gsaved st) (lock st)
              (update (threads st) t (mkThread rest (reg th) (lsaved th) (seen th)))
  | Decr =>
      mkState (G st) (depth st - 1)%Z (gsaved st) (lock st)
              (update (threads st) t (mkThread rest (reg th) (lsaved th) (seen th)))
  end.

(* one scheduling decision: thread t executes its next statement (no-op if it does not exist,
   has finished, or is blocked on the lock) *)
Definition step (st : state) (t : nat) : state :=
  match nth_error (threads st) t with
  | None => st
  | Some th =>
      match pc th with
      | [] => st
      | i :: rest => exec st t th i rest
      end
  end.

Definition run (st : state) (sched : list nat) : state := fold_left step sched st.

Definition new_thread (prog : list instr) : thread := mkThread prog [] [] [].

(* n threads about to enter the context manager; g0 is whatever the history left in G *)
Definition init_from (g0 : fn) (n : nat) (prog : list instr) : state :=
  mkState g0 0%Z [] None (repeat (new_thread prog) n).
Definition init (n : nat) (prog : list instr) : state := init_from orig n prog.

Definition finished (th : thread) : bool := match pc th with [] => true | _ => false end.
Definition all_finished (st : state) : bool := forallb finished (threads st).

Definition is_acquire (i : instr) : bool := match i with Acquire => true | _ => false end.
Definition enabled (st : state) (t : nat) : bool :=
  match nth_error (threads st) t with
  | None => false
  | Some th =>
      match pc th with
      | [] => false
      | i :: _ => if is_acquire i then (match lock st with None => true | Some _ => false end) else true
      end
  end.

(* the protocol of the code as found in the pristine tree: no lock, originals in a local *)
Definition proto_current : list instr :=
  [ReadG; Push Local; SetWrap; Yield; RestoreAll Local].

(* the repaired protocol (fixes/C15-char-map-patch-lock.patch): module-level lock + user counter;
   installed by the first user, removed by the last *)
Definition proto_locked : list instr :=
  [Acquire; IfDepthZero [ReadG; Push Global; SetWrap]; Incr; Release;
   Yield;
   Acquire; Decr; IfDepthZero [PopRestoreAll Global]; Release].

(* the schedule found by the design probe: A.save A.set B.save B.set A.restore B.restore
   (threads A = 0, B = 1; local pushes and yields interleaved where they belong) *)
Definition bad_schedule : list nat := [0;0;0; 1;1;1; 0;0; 1;1]%nat.

(* k complete rounds of two threads running bad_schedule, each starting from what the previous
   round left behind *)
Fixpoint rounds (k : nat) (g0 : fn) : fn :=
  match k with
  | O => g0
  | S k' => G (run (init_from (rounds k' g0) 2 proto_current) bad_schedule)
  end.

(* ------------------------------------------------------------------ Part 2: memo tables *)

Section Memo.
  Variable K V : Type.
  Variable keq : K -> K -> bool.
  Variable f : K -> V.                 (* the memoised pure function: an oracle *)

  Definition cache := list (K * V).    (* most recently used LAST (OrderedDict order) *)

  Fixpoint lookup (c : cache) (k : K) : option V :=
    match c with
    | [] => None
    | (k', v) :: r => if keq k' k then Some v else lookup r k
    end.

  Fixpoint remove (c : cache) (k : K) : cache :=
    match c with
    | [] => []
    | (k', v) :: r => if keq k' k then r else (k', v) :: remove r k
    end.

  (* functools.lru_cache(maxsize=cap) / _get_round_keys with _ROUND_KEY_CACHE_MAX = cap:
     hit: move to the end, return cached; miss: compute, insert at the end, evict the oldest
     entry when the size exceeds cap. *)
  Definition memo_call (cap : nat) (c : cache) (k : K) : V * cache :=
    match lookup c k with
    | Some v => (v, remove c k ++ [(k, v)])
    | None =>
        let v := f k in
        let c' := c ++ [(k, v)] in
        (v, if Nat.ltb cap (length c') then tl c' else c')
    end.

  Definition memo_history (cap : nat) (c : cache) (ks : list K) : cache :=
    fold_left (fun c k => snd (memo_call cap c k)) ks c.
End Memo.

Arguments lookup {K V}.
Arguments remove {K V}.
Arguments memo_call {K V}.
Arguments memo_history {K V}.

(* _FONT_CACHE: the key is the font program only, the value is computed from the font program
   AND the caller's glyph ids (features : font -> glyph ids -> result is the oracle) *)
Section FontCache.
  Variable Font Gids R : Type.
  Variable feq : Font -> Font -> bool.
  Variable features : Font -> Gids -> R.

  Definition font_call (c : list (Font * R)) (font : Font) (gids : Gids) : R * list (Font * R) :=
    match lookup feq c font with
    | Some r => (r, c)
    | None => let r := features font gids in (r, c ++ [(font, r)])
    end.

  (* repaired: the glyph ids are part of the key *)
  Definition font_call_keyed (keq : (Font * Gids) -> (Font * Gids) -> bool)
             (c : list ((Font * Gids) * R)) (font : Font) (gids : Gids) :=
    match lookup keq c (font, gids) with
    | Some r => (r, c)
    | None => let r := features font gids in (r, c ++ [((font, gids), r)])
    end.
End FontCache.

Arguments font_call {Font Gids R}.
Arguments font_call_keyed {Font Gids R}.

(* _get_round_keys as the interleavable statement sequence it is today:
     cached = C.get(key); if cached is not None: C.move_to_end(key); return cached
     rk = expand(key); C[key] = rk; if len(C) > MAX: C.popitem(last=False); return rk *)
Inductive rk_pc := RkGet | RkMove | RkExpandSet | RkTrim | RkDone | RkKeyError.

Record rk_thread := mkRk { rk_key : nat; rk_at : rk_pc; rk_result : option nat }.

Section RoundKeys.
  Variable expand : nat -> nat.        (* _expand_key, an oracle here (proved in C20) *)
  Definition rk_cache := list (nat * nat).

  Definition rk_step (cap : nat) (c : rk_cache) (th : rk_thread) : rk_cache * rk_thread :=
    match rk_at th with
    | RkGet =>
        match lookup Nat.eqb c (rk_key th) with
        | Some v => (c, mkRk (rk_key th) RkMove (Some v))
        | None => (c, mkRk (rk_key th) RkExpandSet None)
        end
    | RkMove =>
        match lookup Nat.eqb c (rk_key th) with
        | Some v => (remove Nat.eqb c (rk_key th) ++ [(rk_key th, v)], mkRk (rk_key th) RkDone (rk_result th))
        | None => (c, mkRk (rk_key th) RkKeyError None)      (* OrderedDict.move_to_end raises KeyError *)
        end
    | RkExpandSet =>
        let v := expand (rk_key th) in
        let c' := match lookup Nat.eqb c (rk_key th) with
                  | Some _ => map (fun kv => if Nat.eqb (fst kv) (rk_key th) then (fst kv, v) else kv) c
                  | None => c ++ [(rk_key th, v)]
                  end in
        (c', mkRk (rk_key th) RkTrim (Some v))
    | RkTrim =>
        ((if Nat.ltb cap (length c) then tl c else c), mkRk (rk_key th) RkDone (rk_result th))
    | RkDone | RkKeyError => (c, th)
    end.

  Definition rk_sys_step (cap : nat) (s : rk_cache * list rk_thread) (t : nat) : rk_cache * list rk_thread :=
    match nth_error (snd s) t with
    | None => s
    | Some th => let '(c', th') := rk_step cap (fst s) th in (c', update (snd s) t th')
    end.

  Definition rk_run (cap : nat) (s : rk_cache * list rk_thread) (sched : list nat) :=
    fold_left (rk_sys_step cap) sched s.
End RoundKeys.

(* ------------------------------------------------------------------ Part 3: sequential histories *)

(* one extraction after the other: each runs the whole protocol alone (13 statements suffice for
   either protocol), starting from the G the previous one left behind *)
Fixpoint seq_history (prog : list instr) (k : nat) (g0 : fn) : fn :=
  match k with
  | O => g0
  | S k' => G (run (init_from (seq_history prog k' g0) 1 prog) (repeat 0%nat 13))
  end.

(* the one-way AES patch of pypdf's fallback provider (patch_pypdf_fallback_aes): a flag that an
   extraction of an AES-encrypted PDF sets and nothing ever clears *)
Definition aes_step (patched : bool) (doc_needs_aes : bool) : bool := patched || doc_needs_aes.
Definition aes_history (patched : bool) (docs : list bool) : bool := fold_left aes_step docs patched.

(* when the AES fallback gets installed by _open_pdf_reader:
     Lazy         only when PdfReader's constructor fails for want of AES (AES-256 files);
     OnEncrypted  additionally for every document that opens and says it is encrypted;
     Eager        before every open.
   AES-128 (AESV2) files open without touching AES and need the provider only later, during
   decryption, where nothing installs it.
     AtImport     once, when pdf_extractor is imported; extractions never touch the provider again.
   (continued) *)
Inductive aes_install := Lazy | OnEncrypted | Eager | AtImport.
Inductive pdf_kind := PlainPdf | AesAtOpen | AesLate.
(* state of the provider when the library's modules have been imported and nothing was extracted *)
Definition aes_initial (m : aes_install) : bool := match m with AtImport => true | _ => false end.
Definition aes_open (m : aes_install) (patched : bool) (k : pdf_kind) : bool :=
  match m, k with
  | AtImport, _ => patched
  | Eager, _ => true
  | _, AesAtOpen => true
  | OnEncrypted, AesLate => true
  | _, _ => patched
  end.
Definition aes_extract (m : aes_install) (patched : bool) (k : pdf_kind) : bool * bool :=
  let p := aes_open m patched k in
  (match k with AesLate => p | _ => true end, p).     (* (extraction succeeds, patched afterwards) *)
Definition aes_docs (m : aes_install) (patched : bool) (ks : list pdf_kind) : bool :=
  fold_left (fun p k => snd (aes_extract m p k)) ks patched.
Definition aes_mode_safe (m : aes_install) : bool := match m with Lazy => false | _ => true end.

(* the same, parametric in the guard: _open_pdf_reader installs the fallback when the constructor
   fails for want of AES (at_open) or when its guard `detect` says so; `needs_aes` (oracle: pypdf
   will call AES while the document is read) decides whether an unpatched extraction fails *)
Section AesGuard.
  Variable doc : Type.
  Variable needs_aes at_open detect : doc -> bool.
  Definition g_open (patched : bool) (d : doc) : bool := patched || at_open d || detect d.
  Definition g_extract (patched : bool) (d : doc) : bool * bool :=
    let p := g_open patched d in (negb (needs_aes d) || p, p).
  Definition g_docs (patched : bool) (ds : list doc) : bool :=
    fold_left (fun p d => snd (g_extract p d)) ds patched.
End AesGuard.

(* ------------------------------------------------------------------ Part 4: lazily filled registry *)

(* serialization._get_type_registry:  if REG: return REG ; for name in ...: REG[name] = cls ; return REG
   (in place), or with the repair: build a local dict, publish it with ONE REG.update(local).
   The registry is the set of names filled so far; a thread's view is what the shared dict holds
   at the moment the function returns it (the first look-up may follow immediately). *)
Inductive reg_instr := RCheck | RFill (i : nat) | RPublish | RReturn.

Record reg_thread := mkReg { rpc : list reg_instr; rview : option (list nat) }.
Record reg_state := mkRegSt { registry : list nat; rthreads : list reg_thread }.

Definition reg_inplace (n : nat) : list reg_instr := RCheck :: map RFill (seq 0 n) ++ [RReturn].
Definition reg_publish (n : nat) : list reg_instr := [RCheck; RPublish; RReturn].

Definition reg_exec (n : nat) (st : reg_state) (t : nat) (th : reg_thread) (i : reg_instr) (rest : list reg_instr) : reg_state :=
  match i with
  | RCheck =>
      mkRegSt (registry st)
              (update (rthreads st) t (mkReg (match registry st with [] => rest | _ => [RReturn] end) (rview th)))
  | RFill j => mkRegSt (j :: registry st) (update (rthreads st) t (mkReg rest (rview th)))
  | RPublish => mkRegSt (seq 0 n ++ registry st) (update (rthreads st) t (mkReg rest (rview th)))
  | RReturn => mkRegSt (registry st) (update (rthreads st) t (mkReg rest (Some (registry st))))
  end.

Definition reg_step (n : nat) (st : reg_state) (t : nat) : reg_state :=
  match nth_error (rthreads st) t with
  | None => st
  | Some th => match rpc th with [] => st | i :: rest => reg_exec n st t th i rest end
  end.

Definition reg_run (n : nat) (st : reg_state) (sched : list nat) : reg_state := fold_left (reg_step n) sched st.
Definition reg_init (k : nat) (prog : list reg_instr) : reg_state := mkRegSt [] (repeat (mkReg prog None) k).

(* a view is complete when every one of the n names can be looked up *)
Definition reg_full (n : nat) (v : list nat) : bool := forallb (fun i => existsb (Nat.eqb i) v) (seq 0 n).

(* ------------------------------------------------------------------ Part 5: the inventory of shared state *)

(* Every module-level / class-level object of the library that extractor calls share is one cell.
   The inventory (regenerated from the ast into Gen/C15Inventory.v) classifies each cell; what an
   extraction may do to a cell is determined by its class:
     KConst     never written after import (no mutating statement anywhere in the library)
     KMemo cap  memo table of a pure function (lru_cache sites, _ROUND_KEY_CACHE, _FONT_CACHE)
     KLazy      filled idempotently on first use (_TYPE_REGISTRY)
     KProtocol  patch/restore protocol state, at rest between extractions (C15_patch_restored)
     KConfig    rebound only by a public configuration call, never by an extraction
     KRaw       anything else: extractions may leave arbitrary values in it *)
Inductive kind := KConst | KMemo (cap : nat) | KLazy | KProtocol | KConfig | KRaw.

Definition classified (k : kind) : bool := match k with KRaw => false | _ => true end.

Record cell := mkCell { ck : kind; ccache : list (nat * nat); cfilled : bool; craw : option nat }.
Definition new_cell (k : kind) : cell := mkCell k [] false None.

Inductive op := Use (i key : nat) | Poke (i v : nat).

Section Store.
  Variable content : nat -> nat -> nat.    (* oracle: what cell i yields for `key` in a fresh process *)

  Definition use_cell (i key : nat) (c : cell) : nat * cell :=
    match ck c with
    | KMemo cap =>
        let r := memo_call Nat.eqb (content i) cap (ccache c) key in
        (fst r, mkCell (ck c) (snd r) (cfilled c) (craw c))
    | KLazy => (content i key, mkCell (ck c) (ccache c) true (craw c))
    | KRaw => (match craw c with Some v => v | None => content i key end, c)
    | _ => (content i key, c)
    end.

  (* a write an extraction leaves behind: possible on an unclassified cell only *)
  Definition poke_cell (v : nat) (c : cell) : cell :=
    match ck c with KRaw => mkCell (ck c) (ccache c) (cfilled c) (Some v) | _ => c end.

  Definition apply_op (st : list cell) (o : op) : list cell :=
    match o with
    | Use i key => match nth_error st i with Some c => update st i (snd (use_cell i key c)) | None => st end
    | Poke i v => match nth_error st i with Some c => update st i (poke_cell v c) | None => st end
    end.

  Definition store_run (st : list cell) (h : list op) : list cell := fold_left apply_op h st.

  Definition read (st : list cell) (i key : nat) : option nat :=
    match nth_error st i with Some c => Some (fst (use_cell i key c)) | None => None end.
End Store.
