(* C15 — obligations over the skeleton regenerated from today's pdf_extractor.py
   (Gen/C15Skeleton.v): it IS the protocol the theorems of Props.v are about, hence they hold
   of it; and, independently, the kernel explores every interleaving of 2 and 3 threads of the
   generated term itself. *)
From Coq Require Import ZArith List Bool.
Import ListNotations.
From S2T Require Import C15.Model C15.Corr C15.ProofsPatch Gen.C15Skeleton.

Theorem C15_skeleton_is_locked_protocol : skeleton = proto_locked.
Proof. reflexivity. Qed.
Print Assumptions C15_skeleton_is_locked_protocol.

Theorem C15_skeleton_restored :
  forall (g0 : fn) (n : nat) (sched : list nat),
    let st := run (init_from g0 n skeleton) sched in
    all_finished st = true ->
    G st = g0 /\ depth st = 0%Z /\ gsaved st = [] /\ lock st = None.
Proof. rewrite C15_skeleton_is_locked_protocol. exact locked_restored. Qed.
Print Assumptions C15_skeleton_restored.

Theorem C15_skeleton_inside_wrapped :
  forall (g0 : fn) (n : nat) (sched : list nat) (t : nat) (th : thread),
    let st := run (init_from g0 n skeleton) sched in
    nth_error (threads st) t = Some th ->
    (inside th = true -> exists w, G st = wrap w g0) /\
    (forall g, In g (seen th) -> exists w, g = wrap w g0).
Proof. rewrite C15_skeleton_is_locked_protocol. exact locked_inside_wrapped. Qed.
Print Assumptions C15_skeleton_inside_wrapped.

(* one patch target (pypdf._page.build_char_map): the model has one G *)
Theorem C15_single_patch_target : patch_targets = 1%nat.
Proof. reflexivity. Qed.
Print Assumptions C15_single_patch_target.

Theorem C15_skeleton_safe_k2 : safe_for 2 [] skeleton = true.
Proof. vm_compute. reflexivity. Qed.
Print Assumptions C15_skeleton_safe_k2.

Theorem C15_skeleton_safe_k3_after_history : safe_for 3 [7; 7]%nat skeleton = true.
Proof. vm_compute. reflexivity. Qed.
Print Assumptions C15_skeleton_safe_k3_after_history.
