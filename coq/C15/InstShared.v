(* C15 — obligations over the inventory regenerated from the ast of the whole library
   (Gen/C15Inventory.v): every shared cell is classified, no global-mutating call site is
   unclassified, the registry's filling discipline is one of the modelled ones; hence
   C15_no_other_shared_state holds of today's inventory. *)
From Coq Require Import List Bool Lia.
Import ListNotations.
From S2T Require Import Lib.PyStr C15.Model C15.ProofsShared Gen.C15Inventory.

Theorem C15_inventory_classified : forallb classified (map snd shared_inventory) = true.
Proof. vm_compute. reflexivity. Qed.
Print Assumptions C15_inventory_classified.

Theorem C15_mutation_sites_classified : unclassified_mutation_sites = 0%nat.
Proof. reflexivity. Qed.
Print Assumptions C15_mutation_sites_classified.

Theorem C15_inventory_no_other_shared_state :
  forall (content : nat -> nat -> nat) (history : list op) (i key : nat),
    (i < List.length shared_inventory)%nat ->
    read content (store_run content (map new_cell (map snd shared_inventory)) history) i key = Some (content i key).
Proof.
  intros content history i key H. apply no_other_shared_state.
  - exact C15_inventory_classified.
  - rewrite map_length. exact H.
Qed.
Print Assumptions C15_inventory_no_other_shared_state.

(* the registry is filled by one of the two modelled disciplines (in place: open known finding
   type-registry:partial-view; atomic publication: C15_type_registry_publish_complete) *)
Theorem C15_type_registry_shape_modelled : registry_shape_modelled = true.
Proof. reflexivity. Qed.
Print Assumptions C15_type_registry_shape_modelled.
