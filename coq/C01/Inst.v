(* C01 — obligations over the skeletons translated from /repo's source on this run. *)
From Coq Require Import String.
From S2T Require Import C01.Exn C01.ExnProofs Gen.C01Skeletons.

(* every registered extractor generator, the archive-member wrapper and read_file's extraction block
   are contained: only ExtractionError-family exceptions (and GeneratorExit) can escape *)
Theorem C01_all_contained : forallb (fun p => contained (snd p)) contained_skeletons = true.
Proof. vm_compute. reflexivity. Qed.
Print Assumptions C01_all_contained.

Theorem C01_no_foreign_exception_escapes :
  forall n s, In (n, s) contained_skeletons -> ~ outs None s (Exc Other).
Proof.
  intros n s H. apply contained_sound.
  pose proof C01_all_contained as A. rewrite forallb_forall in A. exact (A (n, s) H).
Qed.
Print Assumptions C01_no_foreign_exception_escapes.

(* stronger for the swallow-everything wrappers (archive member, CLI main block): no Exception
   subclass at all escapes *)
Definition silent (s : stmt) : bool := let e := esc top_ctx s in negb (s_fam e || s_other e).
Theorem C01_silent_wrappers : forallb (fun p => silent (snd p)) silent_skeletons = true.
Proof. vm_compute. reflexivity. Qed.
Print Assumptions C01_silent_wrappers.

Theorem C01_silent_sound : forall n s, In (n, s) silent_skeletons -> ~ outs None s (Exc Other) /\ ~ outs None s (Exc Fam).
Proof.
  intros n s H. pose proof C01_silent_wrappers as A. rewrite forallb_forall in A. specialize (A (n, s) H).
  unfold silent in A. simpl in A. apply negb_true_iff, orb_false_iff in A as [A1 A2].
  split; intro Ho; apply esc_sound in Ho; simpl in Ho; congruence.
Qed.
Print Assumptions C01_silent_sound.

(* the number of skeletons is what the harness expects (one per distinct registry function + 2) *)
Theorem C01_skeleton_count : length contained_skeletons = expected_contained /\ length silent_skeletons = expected_silent.
Proof. vm_compute. split; reflexivity. Qed.
Print Assumptions C01_skeleton_count.
