(* C01 — the BLIP record walk of xls_extractor._extract_images_from_workbook over the Workbook stream:
   every iteration advances the offset by 1 or by 8 + rec_len with rec_len > 0, so the walk terminates on every
   byte string; the slices handed to the image sniffers lie inside the buffer.  Definitions + proofs; the property
   statements are in Props.v. *)
From Coq Require Import List ZArith Bool Lia.
From S2T Require Import C01.Loops C01.LoopsProofs.
Import ListNotations.
Open Scope Z_scope.

(* BLIP_TYPES of util/image_utils.py (EMF WMF PICT JPEG PNG DIB TIFF); re-checked against the live tuple by the harness *)
Definition blip_types : list Z := [61466; 61467; 61468; 61469; 61470; 61471; 61481].
Definition is_blip (t : Z) : bool := existsb (Z.eqb t) blip_types.

(* one record whose image bytes are examined: (record offset, rec_type, start of the image data, end of the record) *)
Definition blip := (Z * Z * Z * Z)%type.

Fixpoint xls_blips (fuel : nat) (d : list Z) (off : Z) : option (list blip) :=
  match fuel with
  | O => None
  | S f =>
      if off <=? len d - 8 then
        let ver_instance := u16le d off in
        let rec_type := u16le d (off + 2) in
        let rec_len := u32le d (off + 4) in
        if (rec_len <=? 0) || (rec_len >? len d - off - 8) then xls_blips f d (off + 1)
        else if negb (is_blip rec_type) then xls_blips f d (off + 1)
        else
          let inst := Z.land (Z.shiftr ver_instance 4) 4095 in
          let header := if (inst =? 1761) || (inst =? 1131) then 33 else 17 in
          let next := off + 8 + rec_len in
          if (rec_len <=? 17) || (header >=? rec_len) then xls_blips f d next
          else match xls_blips f d next with
               | Some r => Some ((off, rec_type, off + 8 + header, next) :: r)
               | None => None
               end
      else Some []
  end.

Lemma xls_blips_fuel d : bytes_ok d = true ->
  forall fuel off, (Z.of_nat fuel > len d - off) -> (fuel >= 1)%nat -> xls_blips fuel d off <> None.
Proof.
  intros Hb. induction fuel as [|f IH]; intros off Hf H1; [lia|].
  cbn [xls_blips].
  destruct (off <=? len d - 8) eqn:Hg; [|discriminate].
  apply Z.leb_le in Hg.
  destruct ((u32le d (off + 4) <=? 0) || (u32le d (off + 4) >? len d - off - 8)) eqn:Hl.
  - apply IH; lia.
  - apply orb_false_iff in Hl as [Hpos Hfit]. apply Z.leb_gt in Hpos.
    destruct (negb (is_blip (u16le d (off + 2)))).
    + apply IH; lia.
    + match goal with |- context [if ?c then xls_blips f d ?n else _] => destruct c end.
      * apply IH; lia.
      * destruct (xls_blips f d (off + 8 + u32le d (off + 4))) eqn:E; [discriminate|].
        exfalso. revert E. apply IH; lia.
Qed.

Theorem xls_blips_terminates d off :
  bytes_ok d = true -> 0 <= off -> xls_blips (fuel_for d off) d off <> None.
Proof.
  intros Hb Ho. apply xls_blips_fuel; [exact Hb | | unfold fuel_for; lia].
  unfold fuel_for. lia.
Qed.

(* every examined slice is non-empty, lies inside the buffer and inside its record; records do not overlap *)
Theorem xls_blips_bounds d : bytes_ok d = true ->
  forall fuel off rs, 0 <= off -> xls_blips fuel d off = Some rs ->
    forall o t s e, In (o, t, s, e) rs -> off <= o /\ o + 8 < s /\ s < e /\ e <= len d.
Proof.
  intros Hb. induction fuel as [|f IH]; intros off rs Ho; cbn [xls_blips]; [discriminate|].
  destruct (off <=? len d - 8) eqn:Hg.
  - apply Z.leb_le in Hg.
    destruct ((u32le d (off + 4) <=? 0) || (u32le d (off + 4) >? len d - off - 8)) eqn:Hl.
    + intros H o t s e Hin. specialize (IH (off + 1) rs ltac:(lia) H o t s e Hin). lia.
    + apply orb_false_iff in Hl as [Hpos Hfit]. apply Z.leb_gt in Hpos.
      assert (Hle : u32le d (off + 4) <= len d - off - 8)
        by (destruct (Z.gtb_spec (u32le d (off + 4)) (len d - off - 8)); [discriminate | lia]).
      destruct (negb (is_blip (u16le d (off + 2)))).
      * intros H o t s e Hin. specialize (IH (off + 1) rs ltac:(lia) H o t s e Hin). lia.
      * set (hdr := if (Z.land (Z.shiftr (u16le d off) 4) 4095 =? 1761) || (Z.land (Z.shiftr (u16le d off) 4) 4095 =? 1131) then 33 else 17).
        assert (Hh : 17 <= hdr <= 33) by (unfold hdr; destruct (_ || _); lia).
        destruct ((u32le d (off + 4) <=? 17) || (hdr >=? u32le d (off + 4))) eqn:Hs.
        -- intros H o t s e Hin. specialize (IH (off + 8 + u32le d (off + 4)) rs ltac:(lia) H o t s e Hin). lia.
        -- apply orb_false_iff in Hs as [H17 Hhd]. apply Z.leb_gt in H17.
           assert (Hlt : hdr < u32le d (off + 4)) by (destruct (Z.geb_spec hdr (u32le d (off + 4))); [discriminate | lia]).
           destruct (xls_blips f d (off + 8 + u32le d (off + 4))) as [r|] eqn:E; [|discriminate].
           intros H o t s e Hin. inversion H; subst rs. destruct Hin as [Heq|Hin].
           ++ inversion Heq; subst. lia.
           ++ specialize (IH (off + 8 + u32le d (off + 4)) r ltac:(lia) E o t s e Hin). lia.
  - intros H o t s e Hin. inversion H; subst. destruct Hin.
Qed.

Example xls_blips_nonvacuous :
  bytes_ok [0;0;30;240;20;0;0;0; 1;2;3;4;5;6;7;8;9;10;11;12;13;14;15;16;17;18;19;20] = true
  /\ xls_blips 40 [0;0;30;240;20;0;0;0; 1;2;3;4;5;6;7;8;9;10;11;12;13;14;15;16;17;18;19;20] 0 = Some [(0, 61470, 25, 28)].
Proof. vm_compute. split; reflexivity. Qed.
