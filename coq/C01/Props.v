(* C01 — property theorems about exception-flow skeletons (generic, proved once). *)
From Coq Require Import List ZArith.
From S2T Require Import C01.Exn C01.ExnProofs C01.Loops C01.LoopsProofs C01.LoopsXls.

(* the abstract interpretation over-approximates the relational semantics: whatever exception kind
   can escape a statement run at top level is in esc *)
Theorem C01_esc_sound : forall (s : stmt) (k : kind), outs None s (Exc k) -> kmem k (esc top_ctx s) = true.
Proof. exact esc_sound. Qed.
Print Assumptions C01_esc_sound.

(* a function whose skeleton is `contained` lets no exception outside the ExtractionError family
   (other than GeneratorExit thrown in by close()) escape, whatever the `SAny` parts do *)
Theorem C01_contained_sound : forall s : stmt, contained s = true -> ~ outs None s (Exc Other).
Proof. exact contained_sound. Qed.
Print Assumptions C01_contained_sound.

(* non-vacuity: the wrapper shape used by the extractors is contained, and dropping the final
   `except Exception` clause, or narrowing it, is not *)
Definition fam_only := {| c_fam := Always; c_other := Never; c_base := Never |}.
Definition any_exception := {| c_fam := Always; c_other := Always; c_base := Never |}.
Definition some_other := {| c_fam := Never; c_other := Maybe; c_base := Never |}.
Example C01_wrapper_contained :
  contained (STry (SSeq SAny SYield) (HCons fam_only SReraise (HCons any_exception (SRaise Fam) HNil)) SPure SPure) = true.
Proof. reflexivity. Qed.
Print Assumptions C01_wrapper_contained.
Example C01_unwrapped_escapes :
  outs None (STry (SSeq SAny SYield) (HCons fam_only SReraise HNil) SPure SPure) (Exc Other)
  /\ outs None (STry SAny (HCons fam_only SReraise (HCons some_other (SRaise Fam) HNil)) SPure SPure) (Exc Other)
  /\ outs None (SSeq SAny (STry SAny (HCons any_exception (SRaise Fam) HNil) SPure SPure)) (Exc Other).
Proof.
  split; [|split].
  - eapply O_Try; [apply O_SeqE; apply O_AnyO | apply A_Exc; apply H_Skip; [discriminate | apply H_None] | apply F_Norm; apply O_Pure].
  - eapply O_Try; [apply O_AnyO | apply A_Exc; apply H_Skip; [discriminate | apply H_Skip; [discriminate | apply H_None]] | apply F_Norm; apply O_Pure].
  - apply O_SeqE. apply O_AnyO.
Qed.
Print Assumptions C01_unwrapped_escapes.

(* ---- termination of two input-driven record walks (fuel = remaining length + 1 always suffices,
   i.e. the loops make strict progress on every byte string) *)
Theorem C01_iter_records_terminates :
  forall (d : list Z) (off : Z), bytes_ok d = true -> (0 <= off)%Z -> iter_records (fuel_for d off) d off <> None.
Proof. exact iter_records_terminates. Qed.
Print Assumptions C01_iter_records_terminates.

Theorem C01_iter_records_in_bounds :
  forall (d : list Z) (fuel : nat) (off : Z) (rs : list rec), bytes_ok d = true -> (0 <= off)%Z ->
    iter_records fuel d off = Some rs ->
    Forall (fun r => let '(_, _, _, o, e) := r in (off <= o /\ o + 8 <= e /\ e <= len d)%Z) rs.
Proof. intros d fuel off rs Hb Ho. exact (iter_records_bounds d Hb fuel off rs Ho). Qed.
Print Assumptions C01_iter_records_in_bounds.

Theorem C01_jpeg_dims_terminates :
  forall (d : list Z) (off : Z), bytes_ok d = true -> (0 <= off)%Z -> jpeg_dims (fuel_for d off) d off <> None.
Proof. exact jpeg_dims_terminates. Qed.
Print Assumptions C01_jpeg_dims_terminates.

Theorem C01_ooxml_jpeg_dims_terminates :
  forall (d : list Z) (i : Z), bytes_ok d = true -> (0 <= i)%Z -> ooxml_jpeg_dims (fuel_for d i) d i <> None.
Proof. exact ooxml_jpeg_dims_terminates. Qed.
Print Assumptions C01_ooxml_jpeg_dims_terminates.

Example C01_loops_nonvacuous :
  bytes_ok [15; 0; 232; 3; 8; 0; 0; 0; 0; 0; 160; 15; 0; 0; 0; 0]%Z = true
  /\ iter_records (fuel_for [15; 0; 232; 3; 8; 0; 0; 0; 0; 0; 160; 15; 0; 0; 0; 0]%Z 0) [15; 0; 232; 3; 8; 0; 0; 0; 0; 0; 160; 15; 0; 0; 0; 0]%Z 0
     = Some [(1000, 0, true, 0, 16); (4000, 0, false, 8, 16)]%Z.
Proof. vm_compute. split; reflexivity. Qed.
Print Assumptions C01_loops_nonvacuous.

(* xls_extractor._extract_images_from_workbook: the BLIP record walk terminates on every byte string ... *)
Theorem C01_xls_blips_terminates :
  forall (d : list Z) (off : Z), bytes_ok d = true -> (0 <= off)%Z -> xls_blips (fuel_for d off) d off <> None.
Proof. exact xls_blips_terminates. Qed.
Print Assumptions C01_xls_blips_terminates.

(* ... and every slice it hands to the image sniffers is non-empty and lies inside the stream, behind its record header *)
Theorem C01_xls_blips_in_bounds :
  forall (d : list Z) (fuel : nat) (off : Z) (rs : list blip),
    bytes_ok d = true -> (0 <= off)%Z -> xls_blips fuel d off = Some rs ->
    forall o t s e, In (o, t, s, e) rs -> (off <= o /\ o + 8 < s /\ s < e /\ e <= len d)%Z.
Proof. intros d fuel off rs Hb Ho. exact (xls_blips_bounds d Hb fuel off rs Ho). Qed.
Print Assumptions C01_xls_blips_in_bounds.
