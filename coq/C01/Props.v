(* C01 — property theorems about exception-flow skeletons (generic, proved once). *)
From S2T Require Import C01.Exn C01.ExnProofs.

(* the abstract interpretation over-approximates the relational semantics: whatever exception kind
   can escape a statement run at top level is in esc *)
Theorem C01_esc_sound : forall (s : stmt) (k : kind), outs None s (Exc k) -> kmem k (esc top_ctx s) = true.
Proof. exact esc_sound. Qed.
Print Assumptions C01_esc_sound.

(* a function whose skeleton is `contained` lets no exception outside the ExtractionError family
   (other than GeneratorExit thrown in by close()) escape, whatever the `SAny` parts do *)
Theorem C01_contained_sound : forall s : stmt, contained s = true -> ~ outs None s (Exc Other).
Proof. exact contained_sound. Qed.
Print Assumptions C01_contained_sound.

(* non-vacuity: the wrapper shape used by the extractors is contained, and dropping the final
   `except Exception` clause, or narrowing it, is not *)
Definition fam_only := {| c_fam := Always; c_other := Never; c_base := Never |}.
Definition any_exception := {| c_fam := Always; c_other := Always; c_base := Never |}.
Definition some_other := {| c_fam := Never; c_other := Maybe; c_base := Never |}.
Example C01_wrapper_contained :
  contained (STry (SSeq SAny SYield) (HCons fam_only SReraise (HCons any_exception (SRaise Fam) HNil)) SPure SPure) = true.
Proof. reflexivity. Qed.
Print Assumptions C01_wrapper_contained.
Example C01_unwrapped_escapes :
  outs None (STry (SSeq SAny SYield) (HCons fam_only SReraise HNil) SPure SPure) (Exc Other)
  /\ outs None (STry SAny (HCons fam_only SReraise (HCons some_other (SRaise Fam) HNil)) SPure SPure) (Exc Other)
  /\ outs None (SSeq SAny (STry SAny (HCons any_exception (SRaise Fam) HNil) SPure SPure)) (Exc Other).
Proof.
  split; [|split].
  - eapply O_Try; [apply O_SeqE; apply O_AnyO | apply A_Exc; apply H_Skip; [discriminate | apply H_None] | apply F_Norm; apply O_Pure].
  - eapply O_Try; [apply O_AnyO | apply A_Exc; apply H_Skip; [discriminate | apply H_Skip; [discriminate | apply H_None]] | apply F_Norm; apply O_Pure].
  - apply O_SeqE. apply O_AnyO.
Qed.
Print Assumptions C01_unwrapped_escapes.
