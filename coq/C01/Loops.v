(* C01 — executable models (explicit fuel) of two input-driven record walks:
     ppt_extractor._iter_records  and  image_utils.get_jpeg_dimensions.
   `None` = out of fuel; the theorems state it is never returned with fuel = len+1. *)
From Coq Require Import List ZArith Bool.
Import ListNotations.
Open Scope Z_scope.

Definition byte_at (data : list Z) (i : Z) : Z := nth (Z.to_nat i) data 0.
Definition u16le (d : list Z) (i : Z) : Z := byte_at d i + 256 * byte_at d (i + 1).
Definition u16be (d : list Z) (i : Z) : Z := 256 * byte_at d i + byte_at d (i + 1).
Definition u32le (d : list Z) (i : Z) : Z :=
  byte_at d i + 256 * byte_at d (i + 1) + 65536 * byte_at d (i + 2) + 16777216 * byte_at d (i + 3).
Definition len (d : list Z) : Z := Z.of_nat (length d).

(* one yielded Record: (rec_type, rec_instance, is_container, offset, end_offset) *)
Definition rec := (Z * Z * bool * Z * Z)%type.

Fixpoint iter_records (fuel : nat) (d : list Z) (off : Z) : option (list rec) :=
  match fuel with
  | O => None
  | S f =>
      if off <=? len d - 8 then
        let ver_instance := u16le d off in
        let rec_type := u16le d (off + 2) in
        let rec_len := u32le d (off + 4) in
        if rec_len >? len d - off - 8 then iter_records f d (off + 1)
        else
          let rec_ver := Z.land ver_instance 15 in
          let rec_instance := Z.land (Z.shiftr ver_instance 4) 4095 in
          let is_container := rec_ver =? 15 in
          let data_start := off + 8 in
          let data_end := data_start + rec_len in
          match iter_records f d (if is_container then data_start else data_end) with
          | Some r => Some ((rec_type, rec_instance, is_container, off, data_end) :: r)
          | None => None
          end
      else Some []
  end.

Definition sof_markers : list Z := [192; 193; 194; 195; 197; 198; 199; 201; 202; 203; 205; 206; 207].
Definition is_sof (m : Z) : bool := existsb (Z.eqb m) sof_markers.

Inductive dims := Found (w h : Z) | NotFound.

Fixpoint jpeg_dims (fuel : nat) (d : list Z) (off : Z) : option dims :=
  match fuel with
  | O => None
  | S f =>
      if off <? len d - 9 then
        if negb (byte_at d off =? 255) then jpeg_dims f d (off + 1)
        else
          let marker := byte_at d (off + 1) in
          if marker =? 255 then jpeg_dims f d (off + 1)
          else if is_sof marker && (off + 9 <=? len d)
          then Some (Found (u16be d (off + 7)) (u16be d (off + 5)))
          else if off + 4 <=? len d then jpeg_dims f d (off + 2 + u16be d (off + 2))
          else Some NotFound
      else Some NotFound
  end.

(* fuel that always suffices *)
Definition fuel_for (d : list Z) (off : Z) : nat := S (Z.to_nat (len d - off)).
Definition bytes_ok (d : list Z) : bool := forallb (fun b => (0 <=? b) && (b <? 256)) d.

(* ms_modern/{docx,pptx,xlsx}_extractor._get_image_pixel_dimensions, JPEG branch (i starts at 2):
     while i + 4 <= size:
       if data[i] != 0xFF: i += 1; continue
       marker = data[i+1]
       if marker in (0xD9, 0xDA): break
       length = be16(data[i+2:i+4])
       if length < 2: break
       if marker in SOF and i + 2 + length <= size: return (w or None, h or None)
       i += 2 + length
   result: Some (Found w h) (0 standing for None), Some NotFound, None = out of fuel *)
(* int.from_bytes(data[i:i+2], "big") with Python slice semantics: the slice is cut at len(data) *)
Definition be16_slice (d : list Z) (i : Z) : Z :=
  if i + 2 <=? len d then u16be d i else if i + 1 <=? len d then byte_at d i else 0.

Fixpoint ooxml_jpeg_dims (fuel : nat) (d : list Z) (i : Z) : option dims :=
  match fuel with
  | O => None
  | S f =>
      if i + 4 <=? len d then
        if negb (byte_at d i =? 255) then ooxml_jpeg_dims f d (i + 1)
        else
          let marker := byte_at d (i + 1) in
          if (marker =? 217) || (marker =? 218) then Some NotFound
          else
            let length := u16be d (i + 2) in
            if length <? 2 then Some NotFound
            else if is_sof marker && (i + 2 + length <=? len d)
            then Some (Found (be16_slice d (i + 7)) (be16_slice d (i + 5)))
            else ooxml_jpeg_dims f d (i + 2 + length)
      else Some NotFound
  end.
