(* C01 — CLI output discipline: the steps of cli.main's extraction block that touch stdout.
   Definitions + proofs (small). *)
From Coq Require Import List Bool.
Import ListNotations.

Inductive step :=
| Compute      (* evaluates something; may raise; writes nothing *)
| WriteVar     (* sys.stdout.write(<already computed str>): writes it all, or raises (encoding) having written nothing *)
| WriteConst   (* sys.stdout.write("<ASCII literal>"): writes, cannot raise *)
| WriteStream. (* json.dump(obj, sys.stdout): may write a prefix and then raise *)

(* observable result of running a path: did anything reach stdout, did the block raise *)
Record obs := { wrote : bool; raised : bool }.

Inductive runs : list step -> bool -> obs -> Prop :=
| R_done w : runs [] w {| wrote := w; raised := false |}
| R_compute_ok p w o : runs p w o -> runs (Compute :: p) w o
| R_compute_raise p w : runs (Compute :: p) w {| wrote := w; raised := true |}
| R_var_ok p w o : runs p true o -> runs (WriteVar :: p) w o
| R_var_raise p w : runs (WriteVar :: p) w {| wrote := w; raised := true |}
| R_const p w o : runs p true o -> runs (WriteConst :: p) w o
| R_stream_ok p w o : runs p true o -> runs (WriteStream :: p) w o
| R_stream_partial p w : runs (WriteStream :: p) w {| wrote := true; raised := true |}
| R_stream_raise p w : runs (WriteStream :: p) w {| wrote := w; raised := true |}.

(* discipline: no streaming write; once something was written only constants follow *)
Fixpoint only_const (p : list step) : bool :=
  match p with [] => true | WriteConst :: r => only_const r | _ => false end.
Fixpoint disciplined (p : list step) : bool :=
  match p with
  | [] => true
  | Compute :: r => disciplined r
  | WriteVar :: r => only_const r
  | WriteConst :: r => only_const r
  | WriteStream :: _ => false
  end.

Lemma only_const_never_raises p w o : only_const p = true -> runs p w o -> raised o = false.
Proof.
  intros H R. induction R; simpl in H; try discriminate; auto.
Qed.

(* exit 1 (the block raised) implies nothing on stdout *)
Lemma disciplined_all_or_nothing p o : disciplined p = true -> runs p false o -> raised o = true -> wrote o = false.
Proof.
  intros H R. remember false as w eqn:Hw. revert Hw H.
  induction R; intros Hw H Hr; subst; simpl in *; try discriminate; auto.
  - (* WriteVar ok *) rewrite (only_const_never_raises _ _ _ H R) in Hr. discriminate.
  - (* WriteConst *) rewrite (only_const_never_raises _ _ _ H R) in Hr. discriminate.
Qed.

(* the pre-fix shape (json.dump streaming to stdout) violates the contract *)
Lemma streaming_refuted : exists o, runs [Compute; WriteStream; WriteConst] false o /\ raised o = true /\ wrote o = true.
Proof. eexists. split; [apply R_compute_ok; apply R_stream_partial | split; reflexivity]. Qed.
