From Coq Require Import List ZArith Bool Lia.
From S2T Require Import C01.Loops.
Import ListNotations.
Open Scope Z_scope.

Lemma byte_at_range d i : bytes_ok d = true -> 0 <= byte_at d i < 256.
Proof.
  intro H. unfold byte_at. unfold bytes_ok in H. rewrite forallb_forall in H.
  destruct (nth_in_or_default (Z.to_nat i) d 0) as [Hin|Hd].
  - specialize (H _ Hin). apply andb_true_iff in H as [H1 H2]. apply Z.leb_le in H1. apply Z.ltb_lt in H2. lia.
  - rewrite Hd. lia.
Qed.

Lemma u32le_nonneg d i : bytes_ok d = true -> 0 <= u32le d i.
Proof.
  intro H. unfold u32le.
  pose proof (byte_at_range d i H). pose proof (byte_at_range d (i + 1) H).
  pose proof (byte_at_range d (i + 2) H). pose proof (byte_at_range d (i + 3) H). lia.
Qed.

Lemma u16be_nonneg d i : bytes_ok d = true -> 0 <= u16be d i.
Proof.
  intro H. unfold u16be. pose proof (byte_at_range d i H). pose proof (byte_at_range d (i + 1) H). lia.
Qed.

(* the usable statement: fuel >= 1 and fuel > len - off *)
Lemma iter_records_fuel d : bytes_ok d = true ->
  forall fuel off, (Z.of_nat fuel > len d - off) -> (fuel >= 1)%nat -> iter_records fuel d off <> None.
Proof.
  intros Hb. induction fuel as [|f IH]; intros off Hf H1; [lia|].
  cbn [iter_records].
  destruct (off <=? len d - 8) eqn:Hg; [|discriminate].
  apply Z.leb_le in Hg.
  destruct (u32le d (off + 4) >? len d - off - 8) eqn:Hl.
  - apply IH; lia.
  - assert (Hle : u32le d (off + 4) <= len d - off - 8) by (destruct (Z.gtb_spec (u32le d (off + 4)) (len d - off - 8)); [discriminate | lia]).
    pose proof (u32le_nonneg d (off + 4) Hb) as Hn.
    destruct (Z.land (u16le d off) 15 =? 15).
    + destruct (iter_records f d (off + 8)) eqn:E; [discriminate|].
      exfalso. revert E. apply IH; lia.
    + destruct (iter_records f d (off + 8 + u32le d (off + 4))) eqn:E; [discriminate|].
      exfalso. revert E. apply IH; lia.
Qed.

Theorem iter_records_terminates d off :
  bytes_ok d = true -> 0 <= off -> iter_records (fuel_for d off) d off <> None.
Proof.
  intros Hb Ho. apply iter_records_fuel; [exact Hb | | unfold fuel_for; lia].
  unfold fuel_for. lia.
Qed.

(* every yielded record lies inside the buffer and records come in strictly increasing offsets *)
Lemma iter_records_bounds d : bytes_ok d = true ->
  forall fuel off rs, 0 <= off -> iter_records fuel d off = Some rs ->
    Forall (fun r => let '(_, _, _, o, e) := r in off <= o /\ o + 8 <= e /\ e <= len d) rs.
Proof.
  intros Hb. induction fuel as [|f IH]; intros off rs Ho; cbn [iter_records]; [discriminate|].
  destruct (off <=? len d - 8) eqn:Hg; [|intro H; inversion H; constructor].
  apply Z.leb_le in Hg.
  destruct (u32le d (off + 4) >? len d - off - 8) eqn:Hl.
  - intro H. apply IH in H; [|lia]. eapply Forall_impl; [|exact H]. intros [[[[? ?] ?] o] e]. lia.
  - assert (Hle : u32le d (off + 4) <= len d - off - 8) by (destruct (Z.gtb_spec (u32le d (off + 4)) (len d - off - 8)); [discriminate | lia]).
    pose proof (u32le_nonneg d (off + 4) Hb) as Hn.
    destruct (Z.land (u16le d off) 15 =? 15).
    + destruct (iter_records f d (off + 8)) eqn:E; [|discriminate]. intro H; inversion H; subst.
      constructor; [lia|]. apply IH in E; [|lia]. eapply Forall_impl; [|exact E]. intros [[[[? ?] ?] o] e]. lia.
    + destruct (iter_records f d (off + 8 + u32le d (off + 4))) eqn:E; [|discriminate]. intro H; inversion H; subst.
      constructor; [lia|]. apply IH in E; [|lia]. eapply Forall_impl; [|exact E]. intros [[[[? ?] ?] o] e]. lia.
Qed.

Lemma jpeg_dims_fuel d : bytes_ok d = true ->
  forall fuel off, (Z.of_nat fuel > len d - off) -> (fuel >= 1)%nat -> jpeg_dims fuel d off <> None.
Proof.
  intros Hb. induction fuel as [|f IH]; intros off Hf H1; [lia|].
  cbn [jpeg_dims].
  destruct (off <? len d - 9) eqn:Hg; [|discriminate].
  apply Z.ltb_lt in Hg.
  destruct (negb (byte_at d off =? 255)); [apply IH; lia|].
  destruct (byte_at d (off + 1) =? 255); [apply IH; lia|].
  destruct (is_sof (byte_at d (off + 1)) && (off + 9 <=? len d)); [discriminate|].
  destruct (off + 4 <=? len d); [|discriminate].
  pose proof (u16be_nonneg d (off + 2) Hb).
  destruct (Z_lt_le_dec (len d) (off + 2 + u16be d (off + 2))) as [Hbig|Hsmall].
  - (* jumped past the end: next call exits at the guard; needs fuel >= 1 *)
    destruct f as [|f']; [lia|]. cbn [jpeg_dims].
    destruct (off + 2 + u16be d (off + 2) <? len d - 9) eqn:E; [apply Z.ltb_lt in E; lia | discriminate].
  - apply IH; lia.
Qed.

Theorem jpeg_dims_terminates d off :
  bytes_ok d = true -> 0 <= off -> jpeg_dims (fuel_for d off) d off <> None.
Proof.
  intros Hb Ho. apply jpeg_dims_fuel; [exact Hb | unfold fuel_for; lia | unfold fuel_for; lia].
Qed.

Lemma ooxml_jpeg_dims_fuel d : bytes_ok d = true ->
  forall fuel i, (Z.of_nat fuel > len d - i) -> (fuel >= 1)%nat -> ooxml_jpeg_dims fuel d i <> None.
Proof.
  intros Hb. induction fuel as [|f IH]; intros i Hf H1; [lia|].
  cbn [ooxml_jpeg_dims].
  destruct (i + 4 <=? len d) eqn:Hg; [|discriminate].
  apply Z.leb_le in Hg.
  destruct (negb (byte_at d i =? 255)); [apply IH; lia|].
  destruct ((byte_at d (i + 1) =? 217) || (byte_at d (i + 1) =? 218)); [discriminate|].
  destruct (u16be d (i + 2) <? 2) eqn:Hl; [discriminate|].
  apply Z.ltb_ge in Hl.
  destruct (is_sof (byte_at d (i + 1)) && (i + 2 + u16be d (i + 2) <=? len d)); [discriminate|].
  destruct (Z_lt_le_dec (len d) (i + 2 + u16be d (i + 2))) as [Hbig|Hsmall].
  - destruct f as [|f']; [lia|]. cbn [ooxml_jpeg_dims].
    destruct (i + 2 + u16be d (i + 2) + 4 <=? len d) eqn:E; [apply Z.leb_le in E; lia | discriminate].
  - apply IH; lia.
Qed.

Theorem ooxml_jpeg_dims_terminates d i :
  bytes_ok d = true -> 0 <= i -> ooxml_jpeg_dims (fuel_for d i) d i <> None.
Proof.
  intros Hb Ho. apply ooxml_jpeg_dims_fuel; [exact Hb | unfold fuel_for; lia | unfold fuel_for; lia].
Qed.
