(* C01 — CLI: for every path through cli.main's extraction block (regenerated from the source),
   a failing run (exit 1) has written nothing to stdout. *)
From Coq Require Import List Bool.
From S2T Require Import C01.Cli Gen.C01CliPaths.
Import ListNotations.

Theorem C01_cli_paths_disciplined : forallb disciplined cli_paths = true /\ cli_paths <> [].
Proof. split; [vm_compute; reflexivity | discriminate]. Qed.
Print Assumptions C01_cli_paths_disciplined.

Theorem C01_cli_all_or_nothing :
  forall p o, In p cli_paths -> runs p false o -> raised o = true -> wrote o = false.
Proof.
  intros p o Hin. apply disciplined_all_or_nothing.
  pose proof (proj1 C01_cli_paths_disciplined) as A. rewrite forallb_forall in A. exact (A p Hin).
Qed.
Print Assumptions C01_cli_all_or_nothing.

(* the streaming shape (json.dump to sys.stdout) does not satisfy the contract: kept as a witness
   of what the discipline excludes *)
Theorem C01_cli_streaming_refuted :
  exists o, runs [Compute; WriteStream; WriteConst] false o /\ raised o = true /\ wrote o = true.
Proof. exact streaming_refuted. Qed.
Print Assumptions C01_cli_streaming_refuted.
