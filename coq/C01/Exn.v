(* C01 — exception-flow skeletons: a tiny statement language, its nondeterministic big-step
   semantics, and a computable abstract interpretation `esc` (which exception kinds can escape).
   Definitions only; soundness is proved in C01/ExnProofs.v. *)
From Coq Require Export List Bool.
Export ListNotations.

(* kinds of exception classes, as seen from the library's contract *)
Inductive kind :=
| Fam        (* a subclass of sharepoint2text.parsing.exceptions.ExtractionError *)
| Other      (* any other subclass of Exception *)
| BaseOnly.  (* BaseException but not Exception: GeneratorExit, KeyboardInterrupt, SystemExit *)

Definition kind_eqb (a b : kind) : bool :=
  match a, b with Fam, Fam | Other, Other | BaseOnly, BaseOnly => true | _, _ => false end.

(* what an `except` clause does with the classes of one kind *)
Inductive tri := Always | Maybe | Never.
Record catch := { c_fam : tri; c_other : tri; c_base : tri }.
Definition catch_of (c : catch) (k : kind) : tri :=
  match k with Fam => c_fam c | Other => c_other c | BaseOnly => c_base c end.

Inductive stmt :=
| SPure                      (* cannot raise: constants, names, allow-listed calls *)
| SAny                       (* arbitrary code: completes, or raises any Exception subclass *)
| SYield                     (* completes, or GeneratorExit is thrown in by close() *)
| SRaise (k : kind)          (* raise C(...) with C of kind k (constructor call allow-listed) *)
| SReraise                   (* bare `raise` *)
| SReturn
| SSeq (a b : stmt)
| SChoice (a b : stmt)       (* if / match *)
| SLoop (b : stmt)           (* for / while, any number of iterations (possibly infinitely many) *)
| STry (body : stmt) (hs : handlers) (orelse fin : stmt)
with handlers :=
| HNil
| HCons (c : catch) (h : stmt) (r : handlers).

Inductive outcome := Norm | Ret | Exc (k : kind).

(* ---- semantics: outs cur s o  — running s while handling exception `cur` may end in o.
   A loop that never ends has no outcome (termination is a separate claim). *)
Inductive outs : option kind -> stmt -> outcome -> Prop :=
| O_Pure cur : outs cur SPure Norm
| O_AnyN cur : outs cur SAny Norm
| O_AnyF cur : outs cur SAny (Exc Fam)
| O_AnyO cur : outs cur SAny (Exc Other)
| O_YieldN cur : outs cur SYield Norm
| O_YieldG cur : outs cur SYield (Exc BaseOnly)
| O_Raise cur k : outs cur (SRaise k) (Exc k)
| O_Reraise k : outs (Some k) SReraise (Exc k)
| O_ReraiseNone : outs None SReraise (Exc Other)          (* RuntimeError: no active exception *)
| O_Return cur : outs cur SReturn Ret
| O_SeqN cur a b o : outs cur a Norm -> outs cur b o -> outs cur (SSeq a b) o
| O_SeqR cur a b : outs cur a Ret -> outs cur (SSeq a b) Ret
| O_SeqE cur a b k : outs cur a (Exc k) -> outs cur (SSeq a b) (Exc k)
| O_ChoiceL cur a b o : outs cur a o -> outs cur (SChoice a b) o
| O_ChoiceR cur a b o : outs cur b o -> outs cur (SChoice a b) o
| O_Loop0 cur b : outs cur (SLoop b) Norm
| O_LoopS cur b o : outs cur b Norm -> outs cur (SLoop b) o -> outs cur (SLoop b) o
| O_LoopR cur b : outs cur b Ret -> outs cur (SLoop b) Ret
| O_LoopE cur b k : outs cur b (Exc k) -> outs cur (SLoop b) (Exc k)
| O_Try cur body hs orelse fin o1 o2 o3 :
    outs cur body o1 -> after_body cur hs orelse o1 o2 -> with_finally cur fin o2 o3 ->
    outs cur (STry body hs orelse fin) o3
with after_body : option kind -> handlers -> stmt -> outcome -> outcome -> Prop :=
| A_Norm cur hs orelse o : outs cur orelse o -> after_body cur hs orelse Norm o
| A_Ret cur hs orelse : after_body cur hs orelse Ret Ret
| A_Exc cur hs orelse k o : handle cur hs k o -> after_body cur hs orelse (Exc k) o
with handle : option kind -> handlers -> kind -> outcome -> Prop :=
| H_None cur k : handle cur HNil k (Exc k)
| H_Catch cur c h r k o : catch_of c k <> Never -> outs (Some k) h o -> handle cur (HCons c h r) k o
| H_Skip cur c h r k o : catch_of c k <> Always -> handle cur r k o -> handle cur (HCons c h r) k o
with with_finally : option kind -> stmt -> outcome -> outcome -> Prop :=
| F_Norm cur fin o : outs cur fin Norm -> with_finally cur fin o o
| F_Ret cur fin o : outs cur fin Ret -> with_finally cur fin o Ret
| F_Exc cur fin o k : outs cur fin (Exc k) -> with_finally cur fin o (Exc k).

(* ---- abstract interpretation: sets of kinds as three booleans (+ "no active exception") *)
Record kset := { s_fam : bool; s_other : bool; s_base : bool }.
Definition kempty := {| s_fam := false; s_other := false; s_base := false |}.
Definition kmem (k : kind) (s : kset) : bool :=
  match k with Fam => s_fam s | Other => s_other s | BaseOnly => s_base s end.
Definition ksingle (k : kind) : kset :=
  {| s_fam := kind_eqb k Fam; s_other := kind_eqb k Other; s_base := kind_eqb k BaseOnly |}.
Definition kunion (a b : kset) : kset :=
  {| s_fam := s_fam a || s_fam b; s_other := s_other a || s_other b; s_base := s_base a || s_base b |}.
Definition kis_empty (s : kset) : bool := negb (s_fam s || s_other s || s_base s).

Definition tri_not_never (t : tri) : bool := match t with Never => false | _ => true end.
Definition tri_not_always (t : tri) : bool := match t with Always => false | _ => true end.

(* kinds of s the clause may catch / kinds of s that may get past the clause *)
Definition kcaught (c : catch) (s : kset) : kset :=
  {| s_fam := s_fam s && tri_not_never (c_fam c); s_other := s_other s && tri_not_never (c_other c);
     s_base := s_base s && tri_not_never (c_base c) |}.
Definition kpassed (c : catch) (s : kset) : kset :=
  {| s_fam := s_fam s && tri_not_always (c_fam c); s_other := s_other s && tri_not_always (c_other c);
     s_base := s_base s && tri_not_always (c_base c) |}.

(* context: which kinds may be the active exception, and whether there may be none *)
Record ctx := { x_kinds : kset; x_none : bool }.
Definition top_ctx := {| x_kinds := kempty; x_none := true |}.

Fixpoint esc (x : ctx) (s : stmt) : kset :=
  match s with
  | SPure | SReturn => kempty
  | SAny => {| s_fam := true; s_other := true; s_base := false |}
  | SYield => ksingle BaseOnly
  | SRaise k => ksingle k
  | SReraise => kunion (x_kinds x) (if x_none x then ksingle Other else kempty)
  | SSeq a b | SChoice a b => kunion (esc x a) (esc x b)
  | SLoop b => esc x b
  | STry body hs orelse fin =>
      kunion (kunion (esc_handlers (esc x body) hs) (esc x orelse)) (esc x fin)
  end
with esc_handlers (r : kset) (hs : handlers) : kset :=
  match hs with
  | HNil => r
  | HCons c h rest =>
      let p := kcaught c r in
      kunion (if kis_empty p then kempty else esc {| x_kinds := p; x_none := false |} h)
             (esc_handlers (kpassed c r) rest)
  end.

(* the library's contract for a generator body: only family errors (and GeneratorExit) escape *)
Definition contained (s : stmt) : bool := negb (s_other (esc top_ctx s)).
