From S2T Require Import C01.Exn.

Scheme outs_ind' := Minimality for outs Sort Prop
  with after_body_ind' := Minimality for after_body Sort Prop
  with handle_ind' := Minimality for handle Sort Prop
  with with_finally_ind' := Minimality for with_finally Sort Prop.
Combined Scheme outs_mutind from outs_ind', after_body_ind', handle_ind', with_finally_ind'.

Definition ctx_ok (x : ctx) (cur : option kind) : Prop :=
  match cur with None => x_none x = true | Some k => kmem k (x_kinds x) = true end.

Lemma kmem_union k a b : kmem k (kunion a b) = true <-> kmem k a = true \/ kmem k b = true.
Proof. destruct k; simpl; apply orb_true_iff. Qed.

Lemma kmem_single k k' : kmem k (ksingle k') = true <-> k = k'.
Proof. destruct k, k'; simpl; split; intro H; try reflexivity; try discriminate. Qed.

Lemma kmem_caught k c r : kmem k r = true -> catch_of c k <> Never -> kmem k (kcaught c r) = true.
Proof.
  destruct k; simpl; intros H Hn; rewrite H; simpl;
    match goal with |- tri_not_never ?t = true => destruct t; [reflexivity | reflexivity | contradiction Hn; reflexivity] end.
Qed.

Lemma kmem_passed k c r : kmem k r = true -> catch_of c k <> Always -> kmem k (kpassed c r) = true.
Proof.
  destruct k; simpl; intros H Hn; rewrite H; simpl;
    match goal with |- tri_not_always ?t = true => destruct t; [contradiction Hn; reflexivity | reflexivity | reflexivity] end.
Qed.

Lemma kmem_nonempty k s : kmem k s = true -> kis_empty s = false.
Proof. destruct k, s as [a b c]; unfold kis_empty; simpl; intro H; subst; simpl; rewrite ?orb_true_r; reflexivity. Qed.

Definition P_outs (cur : option kind) (s : stmt) (o : outcome) : Prop :=
  forall x, ctx_ok x cur -> forall k, o = Exc k -> kmem k (esc x s) = true.
Definition P_after (cur : option kind) (hs : handlers) (orelse : stmt) (o1 o2 : outcome) : Prop :=
  forall x r, ctx_ok x cur -> (forall k, o1 = Exc k -> kmem k r = true) ->
    forall k, o2 = Exc k -> kmem k (kunion (esc_handlers r hs) (esc x orelse)) = true.
Definition P_handle (cur : option kind) (hs : handlers) (k : kind) (o : outcome) : Prop :=
  forall r, kmem k r = true -> forall k', o = Exc k' -> kmem k' (esc_handlers r hs) = true.
Definition P_fin (cur : option kind) (fin : stmt) (o2 o3 : outcome) : Prop :=
  forall x s, ctx_ok x cur -> (forall k, o2 = Exc k -> kmem k s = true) ->
    forall k, o3 = Exc k -> kmem k (kunion s (esc x fin)) = true.

Lemma esc_sound_mut :
  (forall cur s o, outs cur s o -> P_outs cur s o)
  /\ (forall cur hs orelse o1 o2, after_body cur hs orelse o1 o2 -> P_after cur hs orelse o1 o2)
  /\ (forall cur hs k o, handle cur hs k o -> P_handle cur hs k o)
  /\ (forall cur fin o2 o3, with_finally cur fin o2 o3 -> P_fin cur fin o2 o3).
Proof.
  apply outs_mutind; unfold P_outs, P_after, P_handle, P_fin; intros.
  all: try discriminate.
  all: try match goal with H : Exc _ = Exc ?k |- _ => injection H as H; try subst k end.
  all: cbn [esc esc_handlers].
  - (* AnyF *) reflexivity.
  - (* AnyO *) reflexivity.
  - (* YieldG *) reflexivity.
  - (* Raise *) apply kmem_single; reflexivity.
  - (* Reraise Some *) apply kmem_union. left. assumption.
  - (* Reraise None *) apply kmem_union. right.
    match goal with H : ctx_ok _ None |- _ => unfold ctx_ok in H; rewrite H end. reflexivity.
  - (* SeqN *) apply kmem_union. right. eauto.
  - (* SeqE *) apply kmem_union. left. eauto.
  - (* ChoiceL *) apply kmem_union. left. eauto.
  - (* ChoiceR *) apply kmem_union. right. eauto.
  - (* LoopS *)
    match goal with H : forall x, ctx_ok x cur -> forall k, ?o = Exc k -> kmem k (esc x (SLoop ?b)) = true |- _ =>
      specialize (H x); cbn [esc] in H; eauto end.
  - (* LoopE *) eauto.
  - (* Try *)
    match goal with
    | Hb : forall x, ctx_ok x cur -> forall k, ?o1 = Exc k -> kmem k (esc x ?body) = true,
      Ha : forall x r, ctx_ok x cur -> _ -> forall k, ?o2 = Exc k -> _,
      Hf : forall x s, ctx_ok x cur -> _ -> forall k, ?o3 = Exc k -> _ |- _ =>
        apply (Hf x (kunion (esc_handlers (esc x body) hs) (esc x orelse))); auto;
        intros k0 Hk0; apply (Ha x (esc x body)); auto
    end.
  - (* A_Norm *) apply kmem_union. right. eauto.
  - (* A_Exc *) apply kmem_union. left.
    match goal with Hh : forall r, kmem ?k r = true -> _ |- _ => apply (Hh r); auto end.
  - (* H_None *) assumption.
  - (* H_Catch *) apply kmem_union. left.
    match goal with Hc : catch_of ?c ?k <> Never, Hr : kmem ?k ?rr = true |- _ =>
      pose proof (kmem_caught k c rr Hr Hc) as Hp; rewrite (kmem_nonempty _ _ Hp) end.
    match goal with Hh : forall x, ctx_ok x (Some _) -> _ |- _ => apply Hh; auto end.
  - (* H_Skip *) apply kmem_union. right.
    match goal with Hh : forall r, kmem _ r = true -> _ |- _ => apply Hh; auto end.
    apply kmem_passed; assumption.
  - (* F_Norm *) apply kmem_union. left. auto.
  - (* F_Exc *) apply kmem_union. right. eauto.
Qed.

(* every exception that can escape a top-level statement is predicted by esc *)
Theorem esc_sound s k : outs None s (Exc k) -> kmem k (esc top_ctx s) = true.
Proof. intro H. exact (proj1 esc_sound_mut None s (Exc k) H top_ctx eq_refl k eq_refl). Qed.

(* the obligation generated per function: contained s = true implies no non-family Exception escapes *)
Theorem contained_sound s : contained s = true -> ~ outs None s (Exc Other).
Proof.
  unfold contained. intros H Ho. apply esc_sound in Ho. simpl in Ho. rewrite Ho in H. discriminate.
Qed.
