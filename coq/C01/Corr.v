(* C01 — correspondence helpers for the loop models *)
From Coq Require Import List ZArith Bool.
From S2T Require Import C01.Loops C01.LoopsXls.
Import ListNotations.
Open Scope Z_scope.

Definition rec_eqb (a b : rec) : bool :=
  let '(t1, i1, c1, o1, e1) := a in let '(t2, i2, c2, o2, e2) := b in
  (t1 =? t2) && (i1 =? i2) && Bool.eqb c1 c2 && (o1 =? o2) && (e1 =? e2).
Fixpoint recs_eqb (a b : list rec) : bool :=
  match a, b with [], [] => true | x :: a', y :: b' => rec_eqb x y && recs_eqb a' b' | _, _ => false end.

(* case = (data, start offset, implementation's records) *)
Definition iter_case (c : list Z * Z * list rec) : bool :=
  let '(d, off, want) := c in
  match iter_records (fuel_for d off) d off with Some r => recs_eqb r want | None => false end.

(* case = (data, implementation's (w,h) or None) *)
Definition jpeg_case (c : list Z * option (Z * Z)) : bool :=
  let '(d, want) := c in
  match jpeg_dims (fuel_for d 2) d 2, want with
  | Some (Found w h), Some (w', h') => (w =? w') && (h =? h')
  | Some NotFound, None => true
  | _, _ => false
  end.

(* case = (data starting with FF D8, implementation's (w or 0, h or 0)); "not found" and zero
   dimensions are the same observable value (None, None) *)
Definition ooxml_jpeg_case (c : list Z * (Z * Z)) : bool :=
  let '(d, (w', h')) := c in
  match ooxml_jpeg_dims (fuel_for d 2) d 2 with
  | Some (Found w h) => (w =? w') && (h =? h')
  | Some NotFound => (w' =? 0) && (h' =? 0)
  | None => false
  end.

(* xls BLIP walk: case = (Workbook stream, the image-data slices the implementation handed to the sniffer) *)
Fixpoint zl_eqb (a b : list Z) : bool :=
  match a, b with [], [] => true | x :: a', y :: b' => (x =? y) && zl_eqb a' b' | _, _ => false end.
Fixpoint zll_eqb (a b : list (list Z)) : bool :=
  match a, b with [], [] => true | x :: a', y :: b' => zl_eqb x y && zll_eqb a' b' | _, _ => false end.
Definition slice (d : list Z) (s e : Z) : list Z := firstn (Z.to_nat (e - s)) (skipn (Z.to_nat s) d).
Definition xls_blip_case (c : list Z * list (list Z)) : bool :=
  let '(d, want) := c in
  if len d <? 25 then match want with [] => true | _ => false end
  else match xls_blips (fuel_for d 0) d 0 with
       | Some bs => zll_eqb (map (fun b => let '(_, _, s, e) := b in slice d s e) bs) want
       | None => false
       end.
