(* GENERATED on every check run from the ast / live modules of the repo under test - do not edit. *)
From Coq Require Import List.
Import ListNotations.
From S2T Require Import C15.Model.

(* pdf_extractor._patched_build_char_map, statement skeleton *)
Definition skeleton : list instr :=
  [Acquire; IfDepthZero [ReadG; Push Global; SetWrap]; Incr; Release; Yield; Acquire; Decr; IfDepthZero [PopRestoreAll Global]; Release].

Definition patch_targets : nat := 1.

(* _pypdf_aes_fallback._get_round_keys: shape = locked *)
Definition rk_atomic : bool := true.
Definition round_key_cache_max : nat := 4.

(* pdf_extractor._ttf_get_glyph_features: _FONT_CACHE key = keyed *)
Definition font_key_has_gids : bool := true.

(* pdf_extractor._open_pdf_reader: AES fallback installation = OnEncrypted *)
Definition aes_install_mode : aes_install := OnEncrypted.

(* functools.lru_cache capacities *)
Definition lru_caps : list nat := [256; 256; 256; 512].
