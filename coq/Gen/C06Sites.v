(* GENERATED on every check run by tools/props/c06.py from the ast of the repo under test - do not edit. *)
From Coq Require Import ZArith List.
From S2T Require Import Lib.PyStr C06.Lib C06.Model.
Import ListNotations.

Definition set_sites : list site := [
  ((s "sharepoint2text/parsing/extractors/archive_extractor.py"), (s "<module>"), (85)%Z, UAnyAll);
  ((s "sharepoint2text/parsing/extractors/archive_extractor.py"), (s "<module>"), (101)%Z, UNone);
  ((s "sharepoint2text/parsing/extractors/data_types.py"), (s "DocxContent.iterate_units"), (963)%Z, UMember);
  ((s "sharepoint2text/parsing/extractors/epub_extractor.py"), (s "<module>"), (124)%Z, UMember);
  ((s "sharepoint2text/parsing/extractors/epub_extractor.py"), (s "<module>"), (127)%Z, UMember);
  ((s "sharepoint2text/parsing/extractors/epub_extractor.py"), (s "<module>"), (130)%Z, UMember);
  ((s "sharepoint2text/parsing/extractors/epub_extractor.py"), (s "<module>"), (688)%Z, UMember);
  ((s "sharepoint2text/parsing/extractors/html_extractor.py"), (s "<module>"), (111)%Z, UMember);
  ((s "sharepoint2text/parsing/extractors/html_extractor.py"), (s "<module>"), (114)%Z, UMember);
  ((s "sharepoint2text/parsing/extractors/html_extractor.py"), (s "<module>"), (149)%Z, UMember);
  ((s "sharepoint2text/parsing/extractors/html_extractor.py"), (s "_HtmlTextExtractor._collect_headings_recursive"), (403)%Z, UMember);
  ((s "sharepoint2text/parsing/extractors/html_extractor.py"), (s "_HtmlTextExtractor._process_node"), (524)%Z, UMember);
  ((s "sharepoint2text/parsing/extractors/ms_legacy/doc_extractor.py"), (s "_DocReader._extract_images_from_word_document"), (360)%Z, UMember);
  ((s "sharepoint2text/parsing/extractors/ms_legacy/doc_extractor.py"), (s "_DocReader._extract_png_images_from_bytes"), (454)%Z, UMember);
  ((s "sharepoint2text/parsing/extractors/ms_legacy/doc_extractor.py"), (s "_DocReader._extract_image_captions"), (594)%Z, UMember);
  ((s "sharepoint2text/parsing/extractors/ms_legacy/doc_extractor.py"), (s "_DocReader._parse_content"), (697)%Z, UMember);
  ((s "sharepoint2text/parsing/extractors/ms_legacy/doc_extractor.py"), (s "_DocReader._filter_low_entropy_images"), (562)%Z, ULen);
  ((s "sharepoint2text/parsing/extractors/ms_legacy/ppt_extractor.py"), (s "<module>"), (90)%Z, UMember);
  ((s "sharepoint2text/parsing/extractors/ms_legacy/ppt_extractor.py"), (s "<module>"), (91)%Z, UMember);
  ((s "sharepoint2text/parsing/extractors/ms_legacy/ppt_extractor.py"), (s "<module>"), (99)%Z, UMember);
  ((s "sharepoint2text/parsing/extractors/ms_legacy/ppt_extractor.py"), (s "_extract_images_from_pictures_stream"), (615)%Z, UMember);
  ((s "sharepoint2text/parsing/extractors/ms_legacy/ppt_extractor.py"), (s "_parse_ppt_document"), (366)%Z, UMember);
  ((s "sharepoint2text/parsing/extractors/ms_legacy/rtf_extractor.py"), (s "_RtfParser.<class>"), (215)%Z, UAnyAll);
  ((s "sharepoint2text/parsing/extractors/ms_legacy/xls_extractor.py"), (s "_extract_images_from_workbook"), (370)%Z, UMember);
  ((s "sharepoint2text/parsing/extractors/ms_modern/docx_extractor.py"), (s "<module>"), (178)%Z, UMember);
  ((s "sharepoint2text/parsing/extractors/ms_modern/docx_extractor.py"), (s "<module>"), (181)%Z, UMember);
  ((s "sharepoint2text/parsing/extractors/ms_modern/docx_extractor.py"), (s "_extract_images_from_context"), (927)%Z, UMember);
  ((s "sharepoint2text/parsing/extractors/ms_modern/docx_extractor.py"), (s "_extract_formulas_from_context"), (1014)%Z, UMember);
  ((s "sharepoint2text/parsing/extractors/ms_modern/docx_extractor.py"), (s "read_docx"), (1069)%Z, USorted);
  ((s "sharepoint2text/parsing/extractors/ms_modern/docx_extractor.py"), (s "_extract_images_from_context"), (968)%Z, USorted);
  ((s "sharepoint2text/parsing/extractors/ms_modern/docx_extractor.py"), (s "_extract_images_from_context"), (914)%Z, USorted);
  ((s "sharepoint2text/parsing/extractors/ms_modern/pptx_extractor.py"), (s "<module>"), (193)%Z, UMember);
  ((s "sharepoint2text/parsing/extractors/ms_modern/pptx_extractor.py"), (s "<module>"), (196)%Z, UMember);
  ((s "sharepoint2text/parsing/extractors/ms_modern/pptx_extractor.py"), (s "<module>"), (199)%Z, UMember);
  ((s "sharepoint2text/parsing/extractors/ms_modern/pptx_extractor.py"), (s "<module>"), (203)%Z, UMember);
  ((s "sharepoint2text/parsing/extractors/ms_modern/pptx_extractor.py"), (s "_extract_formulas_from_element"), (661)%Z, UMember);
  ((s "sharepoint2text/parsing/extractors/ms_modern/pptx_extractor.py"), (s "_process_slide_from_context"), (867)%Z, UMember);
  ((s "sharepoint2text/parsing/extractors/ms_modern/xlsx_extractor.py"), (s "<module>"), (80)%Z, UMember);
  ((s "sharepoint2text/parsing/extractors/open_office/_shared.py"), (s "element_text"), (107)%Z, UMember);
  ((s "sharepoint2text/parsing/extractors/open_office/odf_extractor.py"), (s "<module>"), (65)%Z, UMember);
  ((s "sharepoint2text/parsing/extractors/open_office/odg_extractor.py"), (s "<module>"), (74)%Z, UMember);
  ((s "sharepoint2text/parsing/extractors/open_office/odg_extractor.py"), (s "_extract_images"), (107)%Z, UMember);
  ((s "sharepoint2text/parsing/extractors/open_office/odp_extractor.py"), (s "<module>"), (173)%Z, UMember);
  ((s "sharepoint2text/parsing/extractors/open_office/odp_extractor.py"), (s "<module>"), (293)%Z, UMember);
  ((s "sharepoint2text/parsing/extractors/open_office/ods_extractor.py"), (s "<module>"), (180)%Z, UMember);
  ((s "sharepoint2text/parsing/extractors/open_office/ods_extractor.py"), (s "<module>"), (424)%Z, UMember);
  ((s "sharepoint2text/parsing/extractors/open_office/odt_extractor.py"), (s "<module>"), (245)%Z, UMember);
  ((s "sharepoint2text/parsing/extractors/open_office/odt_extractor.py"), (s "_extract_images_from_context"), (482)%Z, UMember);
  ((s "sharepoint2text/parsing/extractors/open_office/odt_extractor.py"), (s "_extract_styles_from_context"), (680)%Z, USorted);
  ((s "sharepoint2text/parsing/extractors/pdf/pdf_extractor.py"), (s "_assign_digit_glyphs"), (394)%Z, UMember);
  ((s "sharepoint2text/parsing/extractors/pdf/pdf_extractor.py"), (s "_TableExtractor.<class>"), (907)%Z, UMember);
  ((s "sharepoint2text/parsing/extractors/pdf/pdf_extractor.py"), (s "_TableExtractor._split_compound_words"), (1404)%Z, UMember);
  ((s "sharepoint2text/parsing/extractors/pdf/pdf_extractor.py"), (s "_TableExtractor._split_compound_words"), (1405)%Z, UMember);
  ((s "sharepoint2text/parsing/extractors/pdf/pdf_extractor.py"), (s "_TableExtractor.is_numeric_token"), (1304)%Z, UMember);
  ((s "sharepoint2text/parsing/extractors/serialization.py"), (s "_deserialize_dataclass"), (200)%Z, UMember);
  ((s "sharepoint2text/parsing/extractors/util/omml_to_latex.py"), (s "<module>"), (157)%Z, UMember);
  ((s "sharepoint2text/parsing/extractors/util/zip_context.py"), (s "ZipContext.__init__"), (19)%Z, UMember);
  ((s "sharepoint2text/parsing/router.py"), (s "<module>"), (118)%Z, UMember);
  ((s "sharepoint2text/parsing/router.py"), (s "<module>"), (121)%Z, UMember);
  ((s "sharepoint2text/parsing/router.py"), (s "<module>"), (119)%Z, UMember);
  ((s "sharepoint2text/parsing/router.py"), (s "<module>"), (120)%Z, UMember)
].

Definition nd_sites : list nd_site := [
  ((s "sharepoint2text/parsing/extractors/archive_extractor.py"), (s "read_archive"), (599)%Z, (s "time.perf_counter"), SLog);
  ((s "sharepoint2text/parsing/extractors/archive_extractor.py"), (s "read_archive"), (631)%Z, (s "time.perf_counter"), SLog);
  ((s "sharepoint2text/parsing/extractors/archive_extractor.py"), (s "read_archive"), (609)%Z, (s "time.perf_counter"), SLog);
  ((s "sharepoint2text/parsing/extractors/html_extractor.py"), (s "_HtmlTextExtractor._find_nodes"), (314)%Z, (s "id()"), SIdentityKey);
  ((s "sharepoint2text/parsing/extractors/html_extractor.py"), (s "_HtmlTextExtractor._find_node"), (331)%Z, (s "id()"), SIdentityKey);
  ((s "sharepoint2text/parsing/extractors/ms_modern/docx_extractor.py"), (s "_extract_formulas_from_context"), (1027)%Z, (s "id()"), SIdentityKey);
  ((s "sharepoint2text/parsing/extractors/ms_modern/docx_extractor.py"), (s "_extract_formulas_from_context"), (1020)%Z, (s "id()"), SIdentityKey);
  ((s "sharepoint2text/parsing/extractors/ms_modern/pptx_extractor.py"), (s "_extract_formulas_from_element"), (674)%Z, (s "id()"), SIdentityKey);
  ((s "sharepoint2text/parsing/extractors/ms_modern/pptx_extractor.py"), (s "_extract_formulas_from_element"), (667)%Z, (s "id()"), SIdentityKey);
  ((s "sharepoint2text/parsing/extractors/pdf/_pypdf_aes_fallback.py"), (s "_cryptaes_encrypt"), (844)%Z, (s "secrets.token_bytes"), SEncryptOnly)
].

Definition stream_sites : list stream_site := [
  ((s "sharepoint2text/parsing/extractors/archive_extractor.py"), (s "_detect_archive_type_optimized"), (182)%Z, (s "seek"));
  ((s "sharepoint2text/parsing/extractors/archive_extractor.py"), (s "_detect_archive_type_optimized"), (183)%Z, (s "read"));
  ((s "sharepoint2text/parsing/extractors/archive_extractor.py"), (s "_detect_archive_type_optimized"), (184)%Z, (s "seek"));
  ((s "sharepoint2text/parsing/extractors/archive_extractor.py"), (s "_extract_from_7z_optimized"), (467)%Z, (s "seek"));
  ((s "sharepoint2text/parsing/extractors/archive_extractor.py"), (s "_extract_from_7z_optimized"), (468)%Z, (s "tell"));
  ((s "sharepoint2text/parsing/extractors/archive_extractor.py"), (s "_extract_from_7z_optimized"), (469)%Z, (s "seek"));
  ((s "sharepoint2text/parsing/extractors/epub_extractor.py"), (s "read_epub"), (767)%Z, (s "seek"));
  ((s "sharepoint2text/parsing/extractors/html_extractor.py"), (s "read_html"), (636)%Z, (s "seek"));
  ((s "sharepoint2text/parsing/extractors/html_extractor.py"), (s "read_html"), (638)%Z, (s "read"));
  ((s "sharepoint2text/parsing/extractors/mail/eml_email_extractor.py"), (s "read_eml_format_mail"), (270)%Z, (s "seek"));
  ((s "sharepoint2text/parsing/extractors/mail/eml_email_extractor.py"), (s "read_eml_format_mail"), (271)%Z, (s "getvalue"));
  ((s "sharepoint2text/parsing/extractors/mail/mbox_email_extractor.py"), (s "read_mbox_format_mail"), (517)%Z, (s "seek"));
  ((s "sharepoint2text/parsing/extractors/mail/mbox_email_extractor.py"), (s "read_mbox_format_mail"), (518)%Z, (s "read"));
  ((s "sharepoint2text/parsing/extractors/mail/msg_email_extractor.py"), (s "read_msg_format_mail"), (379)%Z, (s "seek"));
  ((s "sharepoint2text/parsing/extractors/mail/msg_email_extractor.py"), (s "read_msg_format_mail"), (380)%Z, (s "read"));
  ((s "sharepoint2text/parsing/extractors/mhtml_extractor.py"), (s "read_mhtml"), (268)%Z, (s "seek"));
  ((s "sharepoint2text/parsing/extractors/mhtml_extractor.py"), (s "read_mhtml"), (269)%Z, (s "read"));
  ((s "sharepoint2text/parsing/extractors/ms_legacy/doc_extractor.py"), (s "read_doc"), (241)%Z, (s "seek"));
  ((s "sharepoint2text/parsing/extractors/ms_legacy/ppt_extractor.py"), (s "read_ppt"), (239)%Z, (s "seek"));
  ((s "sharepoint2text/parsing/extractors/ms_legacy/ppt_extractor.py"), (s "_extract_ppt_content_structured"), (256)%Z, (s "seek"));
  ((s "sharepoint2text/parsing/extractors/ms_legacy/ppt_extractor.py"), (s "_extract_ppt_content_structured"), (263)%Z, (s "seek"));
  ((s "sharepoint2text/parsing/extractors/ms_legacy/ppt_extractor.py"), (s "_extract_ppt_metadata"), (677)%Z, (s "seek"));
  ((s "sharepoint2text/parsing/extractors/ms_legacy/ppt_extractor.py"), (s "_extract_ppt_metadata"), (682)%Z, (s "seek"));
  ((s "sharepoint2text/parsing/extractors/ms_legacy/rtf_extractor.py"), (s "read_rtf"), (888)%Z, (s "seek"));
  ((s "sharepoint2text/parsing/extractors/ms_legacy/rtf_extractor.py"), (s "read_rtf"), (889)%Z, (s "read"));
  ((s "sharepoint2text/parsing/extractors/ms_legacy/xls_extractor.py"), (s "_read_content"), (225)%Z, (s "read"));
  ((s "sharepoint2text/parsing/extractors/ms_legacy/xls_extractor.py"), (s "read_xls"), (318)%Z, (s "seek"));
  ((s "sharepoint2text/parsing/extractors/ms_legacy/xls_extractor.py"), (s "read_xls"), (322)%Z, (s "seek"));
  ((s "sharepoint2text/parsing/extractors/ms_legacy/xls_extractor.py"), (s "read_xls"), (323)%Z, (s "read"));
  ((s "sharepoint2text/parsing/extractors/ms_legacy/xls_extractor.py"), (s "_extract_images_from_workbook"), (351)%Z, (s "seek"));
  ((s "sharepoint2text/parsing/extractors/ms_legacy/xls_extractor.py"), (s "_extract_images_from_workbook"), (355)%Z, (s "seek"));
  ((s "sharepoint2text/parsing/extractors/ms_modern/docx_extractor.py"), (s "read_docx"), (1050)%Z, (s "seek"));
  ((s "sharepoint2text/parsing/extractors/ms_modern/pptx_extractor.py"), (s "read_pptx"), (951)%Z, (s "seek"));
  ((s "sharepoint2text/parsing/extractors/ms_modern/xlsx_extractor.py"), (s "_read_metadata"), (314)%Z, (s "seek"));
  ((s "sharepoint2text/parsing/extractors/ms_modern/xlsx_extractor.py"), (s "_read_content"), (532)%Z, (s "seek"));
  ((s "sharepoint2text/parsing/extractors/ms_modern/xlsx_extractor.py"), (s "_read_content"), (533)%Z, (s "read"));
  ((s "sharepoint2text/parsing/extractors/ms_modern/xlsx_extractor.py"), (s "read_xlsx"), (590)%Z, (s "seek"));
  ((s "sharepoint2text/parsing/extractors/ms_modern/xlsx_extractor.py"), (s "read_xlsx"), (596)%Z, (s "read"));
  ((s "sharepoint2text/parsing/extractors/open_office/odf_extractor.py"), (s "read_odf"), (241)%Z, (s "seek"));
  ((s "sharepoint2text/parsing/extractors/open_office/odg_extractor.py"), (s "read_odg"), (204)%Z, (s "seek"));
  ((s "sharepoint2text/parsing/extractors/open_office/odp_extractor.py"), (s "read_odp"), (541)%Z, (s "seek"));
  ((s "sharepoint2text/parsing/extractors/open_office/ods_extractor.py"), (s "read_ods"), (587)%Z, (s "seek"));
  ((s "sharepoint2text/parsing/extractors/open_office/odt_extractor.py"), (s "read_odt"), (779)%Z, (s "seek"));
  ((s "sharepoint2text/parsing/extractors/pdf/pdf_extractor.py"), (s "_open_pdf_reader"), (220)%Z, (s "seek"));
  ((s "sharepoint2text/parsing/extractors/pdf/pdf_extractor.py"), (s "_open_pdf_reader"), (228)%Z, (s "seek"));
  ((s "sharepoint2text/parsing/extractors/pdf/pdf_extractor.py"), (s "_should_skip_images"), (248)%Z, (s "getbuffer().nbytes"));
  ((s "sharepoint2text/parsing/extractors/plain_extractor.py"), (s "read_plain_text"), (187)%Z, (s "seek"));
  ((s "sharepoint2text/parsing/extractors/plain_extractor.py"), (s "read_plain_text"), (189)%Z, (s "read"));
  ((s "sharepoint2text/parsing/extractors/util/encryption.py"), (s "is_ooxml_encrypted"), (19)%Z, (s "seek"));
  ((s "sharepoint2text/parsing/extractors/util/encryption.py"), (s "is_ooxml_encrypted"), (26)%Z, (s "seek"));
  ((s "sharepoint2text/parsing/extractors/util/encryption.py"), (s "is_ooxml_encrypted"), (21)%Z, (s "seek"));
  ((s "sharepoint2text/parsing/extractors/util/encryption.py"), (s "is_ooxml_encrypted"), (24)%Z, (s "seek"));
  ((s "sharepoint2text/parsing/extractors/util/encryption.py"), (s "is_odf_encrypted"), (31)%Z, (s "seek"));
  ((s "sharepoint2text/parsing/extractors/util/encryption.py"), (s "is_odf_encrypted"), (36)%Z, (s "seek"));
  ((s "sharepoint2text/parsing/extractors/util/encryption.py"), (s "is_odf_encrypted"), (43)%Z, (s "seek"));
  ((s "sharepoint2text/parsing/extractors/util/encryption.py"), (s "is_odf_encrypted"), (33)%Z, (s "seek"));
  ((s "sharepoint2text/parsing/extractors/util/encryption.py"), (s "is_xls_encrypted"), (60)%Z, (s "seek"));
  ((s "sharepoint2text/parsing/extractors/util/encryption.py"), (s "is_xls_encrypted"), (65)%Z, (s "seek"));
  ((s "sharepoint2text/parsing/extractors/util/encryption.py"), (s "is_xls_encrypted"), (88)%Z, (s "seek"));
  ((s "sharepoint2text/parsing/extractors/util/encryption.py"), (s "is_xls_encrypted"), (62)%Z, (s "seek"));
  ((s "sharepoint2text/parsing/extractors/util/encryption.py"), (s "is_xls_encrypted"), (74)%Z, (s "seek"));
  ((s "sharepoint2text/parsing/extractors/util/encryption.py"), (s "is_xls_encrypted"), (85)%Z, (s "seek"));
  ((s "sharepoint2text/parsing/extractors/util/encryption.py"), (s "is_ppt_encrypted"), (93)%Z, (s "seek"));
  ((s "sharepoint2text/parsing/extractors/util/encryption.py"), (s "is_ppt_encrypted"), (98)%Z, (s "seek"));
  ((s "sharepoint2text/parsing/extractors/util/encryption.py"), (s "is_ppt_encrypted"), (112)%Z, (s "seek"));
  ((s "sharepoint2text/parsing/extractors/util/encryption.py"), (s "is_ppt_encrypted"), (95)%Z, (s "seek"));
  ((s "sharepoint2text/parsing/extractors/util/encryption.py"), (s "is_ppt_encrypted"), (101)%Z, (s "seek"));
  ((s "sharepoint2text/parsing/extractors/util/zip_bomb.py"), (s "open_zipfile"), (124)%Z, (s "seek"));
  ((s "sharepoint2text/parsing/extractors/util/zip_bomb.py"), (s "validate_zip_bytesio"), (145)%Z, (s "tell"));
  ((s "sharepoint2text/parsing/extractors/util/zip_bomb.py"), (s "validate_zip_bytesio"), (147)%Z, (s "seek"));
  ((s "sharepoint2text/parsing/extractors/util/zip_bomb.py"), (s "validate_zip_bytesio"), (151)%Z, (s "seek"))
].

(* modes of zipfile.ZipFile(file_like, mode) / open(...) applied to the input object *)
Definition open_modes : list (str * str * Z * str) := [
  ((s "sharepoint2text/parsing/extractors/archive_extractor.py"), (s "_extract_from_zip_optimized"), (313)%Z, (s "r"));
  ((s "sharepoint2text/parsing/extractors/util/zip_bomb.py"), (s "open_zipfile"), (125)%Z, (s "r"));
  ((s "sharepoint2text/parsing/extractors/util/zip_bomb.py"), (s "validate_zip_bytesio"), (148)%Z, (s "r"))
].

(* stores through self / shared objects inside observer methods of data_types.py: (class, method, line) *)
Definition observer_writes : list (str * str * Z) := [

].

(* writes to process-global state of the STANDARD LIBRARY (registries, environment, interpreter settings) *)
Definition stdlib_global_writes : list (str * str * Z * str) := [

].

(* places where an object is turned into text that may reach a result (primitive operands omitted: 304 sites) *)
Definition stringify_sites : list (str * str * str * sclass) := [
  ((s "sharepoint2text/parsing/extractors/archive_extractor.py"), (s "read_archive"), (s "archive_type.split('.')[-1]"), KReviewed);
  ((s "sharepoint2text/parsing/extractors/data_types.py"), (s "FileMetadataInterface.populate_from_path"), (s "p.resolve()"), KReviewed);
  ((s "sharepoint2text/parsing/extractors/data_types.py"), (s "FileMetadataInterface.populate_from_path"), (s "p"), KReviewed);
  ((s "sharepoint2text/parsing/extractors/data_types.py"), (s "FileMetadataInterface.populate_from_path"), (s "p.parent.resolve()"), KReviewed);
  ((s "sharepoint2text/parsing/extractors/data_types.py"), (s "FileMetadataInterface.populate_from_path"), (s "p.parent"), KReviewed);
  ((s "sharepoint2text/parsing/extractors/data_types.py"), (s "EmailContent.iterate_supported_attachments"), (s "file_type"), KReviewed);
  ((s "sharepoint2text/parsing/extractors/data_types.py"), (s "XlsContent.iterate_units"), (s "cell"), KReviewed);
  ((s "sharepoint2text/parsing/extractors/data_types.py"), (s "OdtContent.iterate_units"), (s "cell"), KReviewed);
  ((s "sharepoint2text/parsing/extractors/data_types.py"), (s "OdtContent.iterate_units"), (s "cell"), KReviewed);
  ((s "sharepoint2text/parsing/extractors/html_extractor.py"), (s "_HtmlTextExtractor._extract_headings"), (s "level"), KReviewed);
  ((s "sharepoint2text/parsing/extractors/mail/eml_email_extractor.py"), (s "_read_eml_format"), (s "mail.text_plain"), KReviewed);
  ((s "sharepoint2text/parsing/extractors/mail/eml_email_extractor.py"), (s "_read_eml_format"), (s "mail.text_html"), KReviewed);
  ((s "sharepoint2text/parsing/extractors/mail/eml_email_extractor.py"), (s "_read_eml_format"), (s "mail.message.get('Date', '')"), KReviewed);
  ((s "sharepoint2text/parsing/extractors/mail/mbox_email_extractor.py"), (s "get_body_content"), (s "part.get('Content-Disposition', '')"), KReviewed);
  ((s "sharepoint2text/parsing/extractors/ms_legacy/xls_extractor.py"), (s "_get_cell_values"), (s "value"), KReviewed);
  ((s "sharepoint2text/parsing/extractors/ms_legacy/xls_extractor.py"), (s "_get_cell_value"), (s "value"), KReviewed);
  ((s "sharepoint2text/parsing/extractors/ms_legacy/xls_extractor.py"), (s "_get_cell_values"), (s "value"), KReviewed);
  ((s "sharepoint2text/parsing/extractors/ms_legacy/xls_extractor.py"), (s "_get_cell_value"), (s "value"), KReviewed);
  ((s "sharepoint2text/parsing/extractors/ms_legacy/xls_extractor.py"), (s "_get_cell_value"), (s "value"), KReviewed);
  ((s "sharepoint2text/parsing/extractors/ms_legacy/xls_extractor.py"), (s "_get_cell_values"), (s "value"), KReviewed);
  ((s "sharepoint2text/parsing/extractors/ms_legacy/xls_extractor.py"), (s "_get_cell_values"), (s "value"), KReviewed);
  ((s "sharepoint2text/parsing/extractors/ms_legacy/xls_extractor.py"), (s "_get_cell_value"), (s "value"), KReviewed);
  ((s "sharepoint2text/parsing/extractors/ms_modern/docx_extractor.py"), (s "_extract_images_from_context"), (s "e"), KException);
  ((s "sharepoint2text/parsing/extractors/ms_modern/pptx_extractor.py"), (s "_PptxContext._load_xml_files"), (s "slide_name"), KReviewed);
  ((s "sharepoint2text/parsing/extractors/ms_modern/pptx_extractor.py"), (s "_process_slide_from_context"), (s "latex"), KReviewed);
  ((s "sharepoint2text/parsing/extractors/ms_modern/pptx_extractor.py"), (s "_process_slide_from_context"), (s "latex"), KReviewed);
  ((s "sharepoint2text/parsing/extractors/ms_modern/pptx_extractor.py"), (s "_process_slide_from_context"), (s "comment.author"), KReviewed);
  ((s "sharepoint2text/parsing/extractors/ms_modern/pptx_extractor.py"), (s "_process_slide_from_context"), (s "comment.date"), KReviewed);
  ((s "sharepoint2text/parsing/extractors/ms_modern/pptx_extractor.py"), (s "_PptxContext._compute_slide_order"), (s "target"), KReviewed);
  ((s "sharepoint2text/parsing/extractors/ms_modern/pptx_extractor.py"), (s "_PptxContext._compute_slide_order"), (s "target"), KReviewed);
  ((s "sharepoint2text/parsing/extractors/ms_modern/pptx_extractor.py"), (s "_process_slide_from_context"), (s "description"), KReviewed);
  ((s "sharepoint2text/parsing/extractors/ms_modern/xlsx_extractor.py"), (s "_format_value_for_display"), (s "value"), KReviewed);
  ((s "sharepoint2text/parsing/extractors/ms_modern/xlsx_extractor.py"), (s "_get_cell_value"), (s "cell_value"), KReviewed);
  ((s "sharepoint2text/parsing/extractors/ms_modern/xlsx_extractor.py"), (s "_read_sheet_data"), (s "val"), KReviewed);
  ((s "sharepoint2text/parsing/extractors/ms_modern/xlsx_extractor.py"), (s "_read_content_from_workbook"), (s "sheet_name"), KReviewed);
  ((s "sharepoint2text/parsing/extractors/open_office/odg_extractor.py"), (s "_extract_images"), (s "exc"), KException);
  ((s "sharepoint2text/parsing/extractors/open_office/odp_extractor.py"), (s "_extract_image"), (s "e"), KException);
  ((s "sharepoint2text/parsing/extractors/open_office/ods_extractor.py"), (s "_extract_images"), (s "e"), KException);
  ((s "sharepoint2text/parsing/extractors/open_office/odt_extractor.py"), (s "_extract_images_from_context"), (s "e"), KException);
  ((s "sharepoint2text/parsing/extractors/open_office/odt_extractor.py"), (s "_extract_images_from_context"), (s "e"), KException);
  ((s "sharepoint2text/parsing/extractors/pdf/pdf_extractor.py"), (s "_extract_image"), (s "filter_type"), KReviewed);
  ((s "sharepoint2text/parsing/extractors/pdf/pdf_extractor.py"), (s "_normalize_text"), (s "value"), KReviewed);
  ((s "sharepoint2text/parsing/extractors/pdf/pdf_extractor.py"), (s "_extract_image"), (s "image_obj.get('/ColorSpace', 'unknown')"), KStripped);
  ((s "sharepoint2text/parsing/extractors/pdf/pdf_extractor.py"), (s "_patch_font_digit_map"), (s "digit"), KReviewed);
  ((s "sharepoint2text/parsing/extractors/pdf/pdf_extractor.py"), (s "_extract_image"), (s "name"), KReviewed);
  ((s "sharepoint2text/parsing/extractors/pdf/pdf_extractor.py"), (s "_extract_page_mcid_data"), (s "actual_text"), KReviewed);
  ((s "sharepoint2text/parsing/extractors/pdf/pdf_extractor.py"), (s "_TableExtractor._build_row"), (s "last_row[0]"), KReviewed);
  ((s "sharepoint2text/parsing/extractors/pdf/pdf_extractor.py"), (s "_extract_image_alt_text"), (s "value"), KStripped);
  ((s "sharepoint2text/parsing/extractors/pdf/pdf_extractor.py"), (s "_TableExtractor._score_tables"), (s "cell"), KReviewed);
  ((s "sharepoint2text/parsing/extractors/plain_extractor.py"), (s "_detect_and_decode"), (s "best_match"), KReviewed);
  ((s "sharepoint2text/parsing/extractors/serialization.py"), (s "_serialize_for_json"), (s "key"), KReviewed);
  ((s "sharepoint2text/parsing/extractors/util/ole_text.py"), (s "decode_ole_text"), (s "value"), KReviewed);
  ((s "sharepoint2text/parsing/extractors/util/omml_to_latex.py"), (s "process_element"), (s "left"), KReviewed);
  ((s "sharepoint2text/parsing/extractors/util/omml_to_latex.py"), (s "process_element"), (s "right"), KReviewed);
  ((s "sharepoint2text/parsing/extractors/util/omml_to_latex.py"), (s "process_element"), (s "latex_fname"), KReviewed);
  ((s "sharepoint2text/parsing/extractors/util/omml_to_latex.py"), (s "process_element"), (s "latex_accent"), KReviewed)
].

(* calls in archive_extractor.py that could re-order members or results *)
Definition archive_reorder_sites : list (str * Z * str) := [

].

(* (pattern, replacement) of every re.sub / re.compile whose pattern names IndirectObject *)
Definition strip_patterns : list (str * str) := [
  ((s "(IndirectObject\(\d+, \d+), \d+\)"), (s "\1)"));
  ((s "(IndirectObject\(\d+, \d+), \d+\)"), (s "\1)"))
].
