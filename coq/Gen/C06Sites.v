(* GENERATED on every check run by tools/props/c06.py from the ast of the repo under test - do not edit. *)
From Coq Require Import ZArith List.
From S2T Require Import Lib.PyStr C06.Lib C06.Model.
Import ListNotations.

Definition set_sites : list site := [
  ((s "sharepoint2text/parsing/extractors/archive_extractor.py"), (s "<module>"), (85)%Z, UAnyAll);
  ((s "sharepoint2text/parsing/extractors/archive_extractor.py"), (s "<module>"), (101)%Z, UNone);
  ((s "sharepoint2text/parsing/extractors/data_types.py"), (s "DocxContent.iterate_units"), (963)%Z, UMember);
  ((s "sharepoint2text/parsing/extractors/epub_extractor.py"), (s "<module>"), (120)%Z, UMember);
  ((s "sharepoint2text/parsing/extractors/epub_extractor.py"), (s "<module>"), (123)%Z, UMember);
  ((s "sharepoint2text/parsing/extractors/epub_extractor.py"), (s "<module>"), (126)%Z, UMember);
  ((s "sharepoint2text/parsing/extractors/epub_extractor.py"), (s "<module>"), (682)%Z, UMember);
  ((s "sharepoint2text/parsing/extractors/html_extractor.py"), (s "<module>"), (111)%Z, UMember);
  ((s "sharepoint2text/parsing/extractors/html_extractor.py"), (s "<module>"), (114)%Z, UMember);
  ((s "sharepoint2text/parsing/extractors/html_extractor.py"), (s "<module>"), (142)%Z, UMember);
  ((s "sharepoint2text/parsing/extractors/html_extractor.py"), (s "_HtmlTextExtractor._collect_headings_recursive"), (396)%Z, UMember);
  ((s "sharepoint2text/parsing/extractors/html_extractor.py"), (s "_HtmlTextExtractor._process_node"), (517)%Z, UMember);
  ((s "sharepoint2text/parsing/extractors/ms_legacy/doc_extractor.py"), (s "_DocReader._extract_images_from_word_document"), (357)%Z, UMember);
  ((s "sharepoint2text/parsing/extractors/ms_legacy/doc_extractor.py"), (s "_DocReader._extract_png_images_from_bytes"), (451)%Z, UMember);
  ((s "sharepoint2text/parsing/extractors/ms_legacy/doc_extractor.py"), (s "_DocReader._extract_image_captions"), (591)%Z, UMember);
  ((s "sharepoint2text/parsing/extractors/ms_legacy/doc_extractor.py"), (s "_DocReader._parse_content"), (694)%Z, UMember);
  ((s "sharepoint2text/parsing/extractors/ms_legacy/doc_extractor.py"), (s "_DocReader._filter_low_entropy_images"), (559)%Z, ULen);
  ((s "sharepoint2text/parsing/extractors/ms_legacy/ppt_extractor.py"), (s "<module>"), (87)%Z, UMember);
  ((s "sharepoint2text/parsing/extractors/ms_legacy/ppt_extractor.py"), (s "<module>"), (88)%Z, UMember);
  ((s "sharepoint2text/parsing/extractors/ms_legacy/ppt_extractor.py"), (s "<module>"), (96)%Z, UMember);
  ((s "sharepoint2text/parsing/extractors/ms_legacy/ppt_extractor.py"), (s "_extract_images_from_pictures_stream"), (612)%Z, UMember);
  ((s "sharepoint2text/parsing/extractors/ms_legacy/ppt_extractor.py"), (s "_parse_ppt_document"), (363)%Z, UMember);
  ((s "sharepoint2text/parsing/extractors/ms_legacy/rtf_extractor.py"), (s "_RtfParser.<class>"), (215)%Z, UAnyAll);
  ((s "sharepoint2text/parsing/extractors/ms_legacy/xls_extractor.py"), (s "_extract_images_from_workbook"), (349)%Z, UMember);
  ((s "sharepoint2text/parsing/extractors/ms_modern/docx_extractor.py"), (s "<module>"), (177)%Z, UMember);
  ((s "sharepoint2text/parsing/extractors/ms_modern/docx_extractor.py"), (s "<module>"), (180)%Z, UMember);
  ((s "sharepoint2text/parsing/extractors/ms_modern/docx_extractor.py"), (s "_extract_images_from_context"), (915)%Z, UMember);
  ((s "sharepoint2text/parsing/extractors/ms_modern/docx_extractor.py"), (s "_extract_formulas_from_context"), (1001)%Z, UMember);
  ((s "sharepoint2text/parsing/extractors/ms_modern/docx_extractor.py"), (s "read_docx"), (1056)%Z, USorted);
  ((s "sharepoint2text/parsing/extractors/ms_modern/docx_extractor.py"), (s "_extract_images_from_context"), (955)%Z, USorted);
  ((s "sharepoint2text/parsing/extractors/ms_modern/docx_extractor.py"), (s "_extract_images_from_context"), (902)%Z, USorted);
  ((s "sharepoint2text/parsing/extractors/ms_modern/pptx_extractor.py"), (s "<module>"), (192)%Z, UMember);
  ((s "sharepoint2text/parsing/extractors/ms_modern/pptx_extractor.py"), (s "<module>"), (195)%Z, UMember);
  ((s "sharepoint2text/parsing/extractors/ms_modern/pptx_extractor.py"), (s "<module>"), (198)%Z, UMember);
  ((s "sharepoint2text/parsing/extractors/ms_modern/pptx_extractor.py"), (s "<module>"), (202)%Z, UMember);
  ((s "sharepoint2text/parsing/extractors/ms_modern/pptx_extractor.py"), (s "_extract_formulas_from_element"), (660)%Z, UMember);
  ((s "sharepoint2text/parsing/extractors/ms_modern/pptx_extractor.py"), (s "_process_slide_from_context"), (861)%Z, UMember);
  ((s "sharepoint2text/parsing/extractors/ms_modern/xlsx_extractor.py"), (s "<module>"), (79)%Z, UMember);
  ((s "sharepoint2text/parsing/extractors/open_office/_shared.py"), (s "element_text"), (114)%Z, UMember);
  ((s "sharepoint2text/parsing/extractors/open_office/odf_extractor.py"), (s "<module>"), (65)%Z, UMember);
  ((s "sharepoint2text/parsing/extractors/open_office/odg_extractor.py"), (s "<module>"), (74)%Z, UMember);
  ((s "sharepoint2text/parsing/extractors/open_office/odg_extractor.py"), (s "_extract_images"), (107)%Z, UMember);
  ((s "sharepoint2text/parsing/extractors/open_office/odp_extractor.py"), (s "<module>"), (173)%Z, UMember);
  ((s "sharepoint2text/parsing/extractors/open_office/odp_extractor.py"), (s "<module>"), (293)%Z, UMember);
  ((s "sharepoint2text/parsing/extractors/open_office/ods_extractor.py"), (s "<module>"), (180)%Z, UMember);
  ((s "sharepoint2text/parsing/extractors/open_office/ods_extractor.py"), (s "<module>"), (424)%Z, UMember);
  ((s "sharepoint2text/parsing/extractors/open_office/odt_extractor.py"), (s "<module>"), (245)%Z, UMember);
  ((s "sharepoint2text/parsing/extractors/open_office/odt_extractor.py"), (s "_extract_images_from_context"), (482)%Z, UMember);
  ((s "sharepoint2text/parsing/extractors/open_office/odt_extractor.py"), (s "_extract_styles_from_context"), (680)%Z, USorted);
  ((s "sharepoint2text/parsing/extractors/pdf/pdf_extractor.py"), (s "_assign_digit_glyphs"), (394)%Z, UMember);
  ((s "sharepoint2text/parsing/extractors/pdf/pdf_extractor.py"), (s "_TableExtractor.<class>"), (895)%Z, UMember);
  ((s "sharepoint2text/parsing/extractors/pdf/pdf_extractor.py"), (s "_TableExtractor._split_compound_words"), (1392)%Z, UMember);
  ((s "sharepoint2text/parsing/extractors/pdf/pdf_extractor.py"), (s "_TableExtractor._split_compound_words"), (1393)%Z, UMember);
  ((s "sharepoint2text/parsing/extractors/pdf/pdf_extractor.py"), (s "_TableExtractor.is_numeric_token"), (1292)%Z, UMember);
  ((s "sharepoint2text/parsing/extractors/serialization.py"), (s "_deserialize_dataclass"), (196)%Z, UMember);
  ((s "sharepoint2text/parsing/extractors/util/omml_to_latex.py"), (s "<module>"), (157)%Z, UMember);
  ((s "sharepoint2text/parsing/extractors/util/zip_context.py"), (s "ZipContext.__init__"), (18)%Z, UMember);
  ((s "sharepoint2text/parsing/router.py"), (s "<module>"), (118)%Z, UMember);
  ((s "sharepoint2text/parsing/router.py"), (s "<module>"), (121)%Z, UMember);
  ((s "sharepoint2text/parsing/router.py"), (s "<module>"), (119)%Z, UMember);
  ((s "sharepoint2text/parsing/router.py"), (s "<module>"), (120)%Z, UMember)
].

Definition nd_sites : list nd_site := [
  ((s "sharepoint2text/parsing/extractors/archive_extractor.py"), (s "read_archive"), (588)%Z, (s "time.perf_counter"), SLog);
  ((s "sharepoint2text/parsing/extractors/archive_extractor.py"), (s "read_archive"), (620)%Z, (s "time.perf_counter"), SLog);
  ((s "sharepoint2text/parsing/extractors/archive_extractor.py"), (s "read_archive"), (598)%Z, (s "time.perf_counter"), SLog);
  ((s "sharepoint2text/parsing/extractors/html_extractor.py"), (s "_HtmlTextExtractor._find_nodes"), (307)%Z, (s "id()"), SIdentityKey);
  ((s "sharepoint2text/parsing/extractors/html_extractor.py"), (s "_HtmlTextExtractor._find_node"), (324)%Z, (s "id()"), SIdentityKey);
  ((s "sharepoint2text/parsing/extractors/ms_modern/docx_extractor.py"), (s "_extract_formulas_from_context"), (1014)%Z, (s "id()"), SIdentityKey);
  ((s "sharepoint2text/parsing/extractors/ms_modern/docx_extractor.py"), (s "_extract_formulas_from_context"), (1007)%Z, (s "id()"), SIdentityKey);
  ((s "sharepoint2text/parsing/extractors/ms_modern/pptx_extractor.py"), (s "_extract_formulas_from_element"), (673)%Z, (s "id()"), SIdentityKey);
  ((s "sharepoint2text/parsing/extractors/ms_modern/pptx_extractor.py"), (s "_extract_formulas_from_element"), (666)%Z, (s "id()"), SIdentityKey);
  ((s "sharepoint2text/parsing/extractors/pdf/_pypdf_aes_fallback.py"), (s "_cryptaes_encrypt"), (844)%Z, (s "secrets.token_bytes"), SEncryptOnly)
].

Definition stream_sites : list stream_site := [
  ((s "sharepoint2text/parsing/extractors/archive_extractor.py"), (s "_detect_archive_type_optimized"), (182)%Z, (s "seek"));
  ((s "sharepoint2text/parsing/extractors/archive_extractor.py"), (s "_detect_archive_type_optimized"), (183)%Z, (s "read"));
  ((s "sharepoint2text/parsing/extractors/archive_extractor.py"), (s "_detect_archive_type_optimized"), (184)%Z, (s "seek"));
  ((s "sharepoint2text/parsing/extractors/archive_extractor.py"), (s "_extract_from_7z_optimized"), (467)%Z, (s "seek"));
  ((s "sharepoint2text/parsing/extractors/archive_extractor.py"), (s "_extract_from_7z_optimized"), (468)%Z, (s "tell"));
  ((s "sharepoint2text/parsing/extractors/archive_extractor.py"), (s "_extract_from_7z_optimized"), (469)%Z, (s "seek"));
  ((s "sharepoint2text/parsing/extractors/epub_extractor.py"), (s "read_epub"), (761)%Z, (s "seek"));
  ((s "sharepoint2text/parsing/extractors/html_extractor.py"), (s "read_html"), (629)%Z, (s "seek"));
  ((s "sharepoint2text/parsing/extractors/html_extractor.py"), (s "read_html"), (631)%Z, (s "read"));
  ((s "sharepoint2text/parsing/extractors/mail/eml_email_extractor.py"), (s "read_eml_format_mail"), (261)%Z, (s "seek"));
  ((s "sharepoint2text/parsing/extractors/mail/eml_email_extractor.py"), (s "read_eml_format_mail"), (262)%Z, (s "getvalue"));
  ((s "sharepoint2text/parsing/extractors/mail/mbox_email_extractor.py"), (s "read_mbox_format_mail"), (517)%Z, (s "seek"));
  ((s "sharepoint2text/parsing/extractors/mail/mbox_email_extractor.py"), (s "read_mbox_format_mail"), (518)%Z, (s "read"));
  ((s "sharepoint2text/parsing/extractors/mail/msg_email_extractor.py"), (s "read_msg_format_mail"), (379)%Z, (s "seek"));
  ((s "sharepoint2text/parsing/extractors/mail/msg_email_extractor.py"), (s "read_msg_format_mail"), (380)%Z, (s "read"));
  ((s "sharepoint2text/parsing/extractors/mhtml_extractor.py"), (s "read_mhtml"), (268)%Z, (s "seek"));
  ((s "sharepoint2text/parsing/extractors/mhtml_extractor.py"), (s "read_mhtml"), (269)%Z, (s "read"));
  ((s "sharepoint2text/parsing/extractors/ms_legacy/doc_extractor.py"), (s "read_doc"), (238)%Z, (s "seek"));
  ((s "sharepoint2text/parsing/extractors/ms_legacy/ppt_extractor.py"), (s "read_ppt"), (236)%Z, (s "seek"));
  ((s "sharepoint2text/parsing/extractors/ms_legacy/ppt_extractor.py"), (s "_extract_ppt_content_structured"), (253)%Z, (s "seek"));
  ((s "sharepoint2text/parsing/extractors/ms_legacy/ppt_extractor.py"), (s "_extract_ppt_content_structured"), (260)%Z, (s "seek"));
  ((s "sharepoint2text/parsing/extractors/ms_legacy/ppt_extractor.py"), (s "_extract_ppt_metadata"), (674)%Z, (s "seek"));
  ((s "sharepoint2text/parsing/extractors/ms_legacy/ppt_extractor.py"), (s "_extract_ppt_metadata"), (679)%Z, (s "seek"));
  ((s "sharepoint2text/parsing/extractors/ms_legacy/rtf_extractor.py"), (s "read_rtf"), (888)%Z, (s "seek"));
  ((s "sharepoint2text/parsing/extractors/ms_legacy/rtf_extractor.py"), (s "read_rtf"), (889)%Z, (s "read"));
  ((s "sharepoint2text/parsing/extractors/ms_legacy/xls_extractor.py"), (s "_read_content"), (204)%Z, (s "read"));
  ((s "sharepoint2text/parsing/extractors/ms_legacy/xls_extractor.py"), (s "read_xls"), (297)%Z, (s "seek"));
  ((s "sharepoint2text/parsing/extractors/ms_legacy/xls_extractor.py"), (s "read_xls"), (301)%Z, (s "seek"));
  ((s "sharepoint2text/parsing/extractors/ms_legacy/xls_extractor.py"), (s "read_xls"), (302)%Z, (s "read"));
  ((s "sharepoint2text/parsing/extractors/ms_legacy/xls_extractor.py"), (s "_extract_images_from_workbook"), (330)%Z, (s "seek"));
  ((s "sharepoint2text/parsing/extractors/ms_legacy/xls_extractor.py"), (s "_extract_images_from_workbook"), (334)%Z, (s "seek"));
  ((s "sharepoint2text/parsing/extractors/ms_modern/docx_extractor.py"), (s "read_docx"), (1037)%Z, (s "seek"));
  ((s "sharepoint2text/parsing/extractors/ms_modern/pptx_extractor.py"), (s "read_pptx"), (945)%Z, (s "seek"));
  ((s "sharepoint2text/parsing/extractors/ms_modern/xlsx_extractor.py"), (s "_read_metadata"), (313)%Z, (s "seek"));
  ((s "sharepoint2text/parsing/extractors/ms_modern/xlsx_extractor.py"), (s "_read_content"), (525)%Z, (s "seek"));
  ((s "sharepoint2text/parsing/extractors/ms_modern/xlsx_extractor.py"), (s "_read_content"), (526)%Z, (s "read"));
  ((s "sharepoint2text/parsing/extractors/ms_modern/xlsx_extractor.py"), (s "read_xlsx"), (583)%Z, (s "seek"));
  ((s "sharepoint2text/parsing/extractors/ms_modern/xlsx_extractor.py"), (s "read_xlsx"), (589)%Z, (s "read"));
  ((s "sharepoint2text/parsing/extractors/open_office/odf_extractor.py"), (s "read_odf"), (241)%Z, (s "seek"));
  ((s "sharepoint2text/parsing/extractors/open_office/odg_extractor.py"), (s "read_odg"), (204)%Z, (s "seek"));
  ((s "sharepoint2text/parsing/extractors/open_office/odp_extractor.py"), (s "read_odp"), (541)%Z, (s "seek"));
  ((s "sharepoint2text/parsing/extractors/open_office/ods_extractor.py"), (s "read_ods"), (587)%Z, (s "seek"));
  ((s "sharepoint2text/parsing/extractors/open_office/odt_extractor.py"), (s "read_odt"), (779)%Z, (s "seek"));
  ((s "sharepoint2text/parsing/extractors/pdf/pdf_extractor.py"), (s "_open_pdf_reader"), (220)%Z, (s "seek"));
  ((s "sharepoint2text/parsing/extractors/pdf/pdf_extractor.py"), (s "_open_pdf_reader"), (228)%Z, (s "seek"));
  ((s "sharepoint2text/parsing/extractors/pdf/pdf_extractor.py"), (s "_should_skip_images"), (248)%Z, (s "getbuffer().nbytes"));
  ((s "sharepoint2text/parsing/extractors/plain_extractor.py"), (s "read_plain_text"), (177)%Z, (s "seek"));
  ((s "sharepoint2text/parsing/extractors/plain_extractor.py"), (s "read_plain_text"), (179)%Z, (s "read"));
  ((s "sharepoint2text/parsing/extractors/util/encryption.py"), (s "is_ooxml_encrypted"), (18)%Z, (s "seek"));
  ((s "sharepoint2text/parsing/extractors/util/encryption.py"), (s "is_ooxml_encrypted"), (25)%Z, (s "seek"));
  ((s "sharepoint2text/parsing/extractors/util/encryption.py"), (s "is_ooxml_encrypted"), (20)%Z, (s "seek"));
  ((s "sharepoint2text/parsing/extractors/util/encryption.py"), (s "is_ooxml_encrypted"), (23)%Z, (s "seek"));
  ((s "sharepoint2text/parsing/extractors/util/encryption.py"), (s "is_odf_encrypted"), (30)%Z, (s "seek"));
  ((s "sharepoint2text/parsing/extractors/util/encryption.py"), (s "is_odf_encrypted"), (35)%Z, (s "seek"));
  ((s "sharepoint2text/parsing/extractors/util/encryption.py"), (s "is_odf_encrypted"), (42)%Z, (s "seek"));
  ((s "sharepoint2text/parsing/extractors/util/encryption.py"), (s "is_odf_encrypted"), (32)%Z, (s "seek"));
  ((s "sharepoint2text/parsing/extractors/util/encryption.py"), (s "is_xls_encrypted"), (59)%Z, (s "seek"));
  ((s "sharepoint2text/parsing/extractors/util/encryption.py"), (s "is_xls_encrypted"), (64)%Z, (s "seek"));
  ((s "sharepoint2text/parsing/extractors/util/encryption.py"), (s "is_xls_encrypted"), (87)%Z, (s "seek"));
  ((s "sharepoint2text/parsing/extractors/util/encryption.py"), (s "is_xls_encrypted"), (61)%Z, (s "seek"));
  ((s "sharepoint2text/parsing/extractors/util/encryption.py"), (s "is_xls_encrypted"), (73)%Z, (s "seek"));
  ((s "sharepoint2text/parsing/extractors/util/encryption.py"), (s "is_xls_encrypted"), (84)%Z, (s "seek"));
  ((s "sharepoint2text/parsing/extractors/util/encryption.py"), (s "is_ppt_encrypted"), (92)%Z, (s "seek"));
  ((s "sharepoint2text/parsing/extractors/util/encryption.py"), (s "is_ppt_encrypted"), (97)%Z, (s "seek"));
  ((s "sharepoint2text/parsing/extractors/util/encryption.py"), (s "is_ppt_encrypted"), (105)%Z, (s "seek"));
  ((s "sharepoint2text/parsing/extractors/util/encryption.py"), (s "is_ppt_encrypted"), (94)%Z, (s "seek"));
  ((s "sharepoint2text/parsing/extractors/util/encryption.py"), (s "is_ppt_encrypted"), (100)%Z, (s "seek"));
  ((s "sharepoint2text/parsing/extractors/util/zip_bomb.py"), (s "open_zipfile"), (124)%Z, (s "seek"));
  ((s "sharepoint2text/parsing/extractors/util/zip_bomb.py"), (s "validate_zip_bytesio"), (145)%Z, (s "tell"));
  ((s "sharepoint2text/parsing/extractors/util/zip_bomb.py"), (s "validate_zip_bytesio"), (147)%Z, (s "seek"));
  ((s "sharepoint2text/parsing/extractors/util/zip_bomb.py"), (s "validate_zip_bytesio"), (151)%Z, (s "seek"))
].

(* modes of zipfile.ZipFile(file_like, mode) / open(...) applied to the input object *)
Definition open_modes : list (str * str * Z * str) := [
  ((s "sharepoint2text/parsing/extractors/archive_extractor.py"), (s "_extract_from_zip_optimized"), (313)%Z, (s "r"));
  ((s "sharepoint2text/parsing/extractors/util/zip_bomb.py"), (s "open_zipfile"), (125)%Z, (s "r"));
  ((s "sharepoint2text/parsing/extractors/util/zip_bomb.py"), (s "validate_zip_bytesio"), (148)%Z, (s "r"))
].

(* stores through self / shared objects inside observer methods of data_types.py: (class, method, line) *)
Definition observer_writes : list (str * str * Z) := [

].

(* writes to process-global state of the STANDARD LIBRARY (registries, environment, interpreter settings) *)
Definition stdlib_global_writes : list (str * str * Z * str) := [

].
