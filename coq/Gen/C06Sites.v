(* GENERATED on every check run by tools/props/c06.py from the ast of the repo under test - do not edit. *)
From Coq Require Import ZArith List.
From S2T Require Import Lib.PyStr C06.Lib C06.Model.
Import ListNotations.

Definition set_sites : list site := [
  ((s "sharepoint2text/parsing/extractors/archive_extractor.py"), (s "<module>"), (85)%Z, UAnyAll);
  ((s "sharepoint2text/parsing/extractors/archive_extractor.py"), (s "<module>"), (101)%Z, UNone);
  ((s "sharepoint2text/parsing/extractors/data_types.py"), (s "DocxContent.iterate_units"), (959)%Z, UMember);
  ((s "sharepoint2text/parsing/extractors/epub_extractor.py"), (s "<module>"), (120)%Z, UMember);
  ((s "sharepoint2text/parsing/extractors/epub_extractor.py"), (s "<module>"), (123)%Z, UMember);
  ((s "sharepoint2text/parsing/extractors/epub_extractor.py"), (s "<module>"), (126)%Z, UMember);
  ((s "sharepoint2text/parsing/extractors/epub_extractor.py"), (s "<module>"), (677)%Z, UMember);
  ((s "sharepoint2text/parsing/extractors/html_extractor.py"), (s "<module>"), (111)%Z, UMember);
  ((s "sharepoint2text/parsing/extractors/html_extractor.py"), (s "<module>"), (114)%Z, UMember);
  ((s "sharepoint2text/parsing/extractors/html_extractor.py"), (s "<module>"), (142)%Z, UMember);
  ((s "sharepoint2text/parsing/extractors/html_extractor.py"), (s "_HtmlTextExtractor._collect_headings_recursive"), (396)%Z, UMember);
  ((s "sharepoint2text/parsing/extractors/html_extractor.py"), (s "_HtmlTextExtractor._process_node"), (517)%Z, UMember);
  ((s "sharepoint2text/parsing/extractors/ms_legacy/doc_extractor.py"), (s "_DocReader._extract_images_from_word_document"), (356)%Z, UMember);
  ((s "sharepoint2text/parsing/extractors/ms_legacy/doc_extractor.py"), (s "_DocReader._extract_png_images_from_bytes"), (450)%Z, UMember);
  ((s "sharepoint2text/parsing/extractors/ms_legacy/doc_extractor.py"), (s "_DocReader._extract_image_captions"), (590)%Z, UMember);
  ((s "sharepoint2text/parsing/extractors/ms_legacy/doc_extractor.py"), (s "_DocReader._parse_content"), (693)%Z, UMember);
  ((s "sharepoint2text/parsing/extractors/ms_legacy/doc_extractor.py"), (s "_DocReader._filter_low_entropy_images"), (558)%Z, ULen);
  ((s "sharepoint2text/parsing/extractors/ms_legacy/ppt_extractor.py"), (s "<module>"), (86)%Z, UMember);
  ((s "sharepoint2text/parsing/extractors/ms_legacy/ppt_extractor.py"), (s "<module>"), (87)%Z, UMember);
  ((s "sharepoint2text/parsing/extractors/ms_legacy/ppt_extractor.py"), (s "<module>"), (95)%Z, UMember);
  ((s "sharepoint2text/parsing/extractors/ms_legacy/ppt_extractor.py"), (s "_extract_images_from_pictures_stream"), (613)%Z, UMember);
  ((s "sharepoint2text/parsing/extractors/ms_legacy/ppt_extractor.py"), (s "_parse_ppt_document"), (364)%Z, UMember);
  ((s "sharepoint2text/parsing/extractors/ms_legacy/rtf_extractor.py"), (s "_RtfParser.<class>"), (215)%Z, UAnyAll);
  ((s "sharepoint2text/parsing/extractors/ms_legacy/xls_extractor.py"), (s "_extract_images_from_workbook"), (348)%Z, UMember);
  ((s "sharepoint2text/parsing/extractors/ms_modern/docx_extractor.py"), (s "<module>"), (177)%Z, UMember);
  ((s "sharepoint2text/parsing/extractors/ms_modern/docx_extractor.py"), (s "<module>"), (180)%Z, UMember);
  ((s "sharepoint2text/parsing/extractors/ms_modern/docx_extractor.py"), (s "_extract_formulas_from_context"), (989)%Z, UMember);
  ((s "sharepoint2text/parsing/extractors/ms_modern/docx_extractor.py"), (s "read_docx"), (1044)%Z, USorted);
  ((s "sharepoint2text/parsing/extractors/ms_modern/docx_extractor.py"), (s "_extract_images_from_context"), (943)%Z, USorted);
  ((s "sharepoint2text/parsing/extractors/ms_modern/docx_extractor.py"), (s "_extract_images_from_context"), (902)%Z, USorted);
  ((s "sharepoint2text/parsing/extractors/ms_modern/pptx_extractor.py"), (s "<module>"), (192)%Z, UMember);
  ((s "sharepoint2text/parsing/extractors/ms_modern/pptx_extractor.py"), (s "<module>"), (195)%Z, UMember);
  ((s "sharepoint2text/parsing/extractors/ms_modern/pptx_extractor.py"), (s "<module>"), (198)%Z, UMember);
  ((s "sharepoint2text/parsing/extractors/ms_modern/pptx_extractor.py"), (s "<module>"), (202)%Z, UMember);
  ((s "sharepoint2text/parsing/extractors/ms_modern/pptx_extractor.py"), (s "_extract_formulas_from_element"), (660)%Z, UMember);
  ((s "sharepoint2text/parsing/extractors/ms_modern/pptx_extractor.py"), (s "_process_slide_from_context"), (860)%Z, UMember);
  ((s "sharepoint2text/parsing/extractors/ms_modern/xlsx_extractor.py"), (s "<module>"), (79)%Z, UMember);
  ((s "sharepoint2text/parsing/extractors/open_office/_shared.py"), (s "element_text"), (97)%Z, UMember);
  ((s "sharepoint2text/parsing/extractors/open_office/odf_extractor.py"), (s "<module>"), (65)%Z, UMember);
  ((s "sharepoint2text/parsing/extractors/open_office/odg_extractor.py"), (s "<module>"), (73)%Z, UMember);
  ((s "sharepoint2text/parsing/extractors/open_office/odg_extractor.py"), (s "_extract_images"), (106)%Z, UMember);
  ((s "sharepoint2text/parsing/extractors/open_office/odp_extractor.py"), (s "<module>"), (171)%Z, UMember);
  ((s "sharepoint2text/parsing/extractors/open_office/ods_extractor.py"), (s "<module>"), (179)%Z, UMember);
  ((s "sharepoint2text/parsing/extractors/open_office/odt_extractor.py"), (s "<module>"), (244)%Z, UMember);
  ((s "sharepoint2text/parsing/extractors/open_office/odt_extractor.py"), (s "_extract_images_from_context"), (481)%Z, UMember);
  ((s "sharepoint2text/parsing/extractors/open_office/odt_extractor.py"), (s "_extract_styles_from_context"), (679)%Z, USorted);
  ((s "sharepoint2text/parsing/extractors/pdf/pdf_extractor.py"), (s "_assign_digit_glyphs"), (394)%Z, UMember);
  ((s "sharepoint2text/parsing/extractors/pdf/pdf_extractor.py"), (s "_TableExtractor.<class>"), (895)%Z, UMember);
  ((s "sharepoint2text/parsing/extractors/pdf/pdf_extractor.py"), (s "_TableExtractor._split_compound_words"), (1392)%Z, UMember);
  ((s "sharepoint2text/parsing/extractors/pdf/pdf_extractor.py"), (s "_TableExtractor._split_compound_words"), (1393)%Z, UMember);
  ((s "sharepoint2text/parsing/extractors/pdf/pdf_extractor.py"), (s "_TableExtractor.is_numeric_token"), (1292)%Z, UMember);
  ((s "sharepoint2text/parsing/extractors/serialization.py"), (s "_deserialize_dataclass"), (196)%Z, UMember);
  ((s "sharepoint2text/parsing/extractors/util/omml_to_latex.py"), (s "<module>"), (157)%Z, UMember);
  ((s "sharepoint2text/parsing/extractors/util/zip_context.py"), (s "ZipContext.__init__"), (18)%Z, UMember);
  ((s "sharepoint2text/parsing/router.py"), (s "<module>"), (118)%Z, UMember);
  ((s "sharepoint2text/parsing/router.py"), (s "<module>"), (121)%Z, UMember);
  ((s "sharepoint2text/parsing/router.py"), (s "<module>"), (119)%Z, UMember);
  ((s "sharepoint2text/parsing/router.py"), (s "<module>"), (120)%Z, UMember)
].

Definition nd_sites : list nd_site := [
  ((s "sharepoint2text/parsing/extractors/archive_extractor.py"), (s "read_archive"), (570)%Z, (s "time.perf_counter"), SLog);
  ((s "sharepoint2text/parsing/extractors/archive_extractor.py"), (s "read_archive"), (602)%Z, (s "time.perf_counter"), SLog);
  ((s "sharepoint2text/parsing/extractors/archive_extractor.py"), (s "read_archive"), (580)%Z, (s "time.perf_counter"), SLog);
  ((s "sharepoint2text/parsing/extractors/html_extractor.py"), (s "_HtmlTextExtractor._find_nodes"), (307)%Z, (s "id()"), SIdentityKey);
  ((s "sharepoint2text/parsing/extractors/html_extractor.py"), (s "_HtmlTextExtractor._find_node"), (324)%Z, (s "id()"), SIdentityKey);
  ((s "sharepoint2text/parsing/extractors/ms_modern/docx_extractor.py"), (s "_extract_formulas_from_context"), (1002)%Z, (s "id()"), SIdentityKey);
  ((s "sharepoint2text/parsing/extractors/ms_modern/docx_extractor.py"), (s "_extract_formulas_from_context"), (995)%Z, (s "id()"), SIdentityKey);
  ((s "sharepoint2text/parsing/extractors/ms_modern/pptx_extractor.py"), (s "_extract_formulas_from_element"), (673)%Z, (s "id()"), SIdentityKey);
  ((s "sharepoint2text/parsing/extractors/ms_modern/pptx_extractor.py"), (s "_extract_formulas_from_element"), (666)%Z, (s "id()"), SIdentityKey);
  ((s "sharepoint2text/parsing/extractors/pdf/_pypdf_aes_fallback.py"), (s "_cryptaes_encrypt"), (844)%Z, (s "secrets.token_bytes"), SEncryptOnly)
].

Definition stream_sites : list stream_site := [
  ((s "sharepoint2text/parsing/extractors/archive_extractor.py"), (s "_detect_archive_type_optimized"), (182)%Z, (s "seek"));
  ((s "sharepoint2text/parsing/extractors/archive_extractor.py"), (s "_detect_archive_type_optimized"), (183)%Z, (s "read"));
  ((s "sharepoint2text/parsing/extractors/archive_extractor.py"), (s "_detect_archive_type_optimized"), (184)%Z, (s "seek"));
  ((s "sharepoint2text/parsing/extractors/archive_extractor.py"), (s "_extract_from_7z_optimized"), (449)%Z, (s "seek"));
  ((s "sharepoint2text/parsing/extractors/archive_extractor.py"), (s "_extract_from_7z_optimized"), (450)%Z, (s "tell"));
  ((s "sharepoint2text/parsing/extractors/archive_extractor.py"), (s "_extract_from_7z_optimized"), (451)%Z, (s "seek"));
  ((s "sharepoint2text/parsing/extractors/epub_extractor.py"), (s "read_epub"), (756)%Z, (s "seek"));
  ((s "sharepoint2text/parsing/extractors/html_extractor.py"), (s "read_html"), (629)%Z, (s "seek"));
  ((s "sharepoint2text/parsing/extractors/html_extractor.py"), (s "read_html"), (631)%Z, (s "read"));
  ((s "sharepoint2text/parsing/extractors/mail/eml_email_extractor.py"), (s "read_eml_format_mail"), (261)%Z, (s "seek"));
  ((s "sharepoint2text/parsing/extractors/mail/eml_email_extractor.py"), (s "read_eml_format_mail"), (262)%Z, (s "getvalue"));
  ((s "sharepoint2text/parsing/extractors/mail/mbox_email_extractor.py"), (s "read_mbox_format_mail"), (517)%Z, (s "seek"));
  ((s "sharepoint2text/parsing/extractors/mail/mbox_email_extractor.py"), (s "read_mbox_format_mail"), (518)%Z, (s "read"));
  ((s "sharepoint2text/parsing/extractors/mail/msg_email_extractor.py"), (s "read_msg_format_mail"), (379)%Z, (s "seek"));
  ((s "sharepoint2text/parsing/extractors/mail/msg_email_extractor.py"), (s "read_msg_format_mail"), (380)%Z, (s "read"));
  ((s "sharepoint2text/parsing/extractors/mhtml_extractor.py"), (s "read_mhtml"), (268)%Z, (s "seek"));
  ((s "sharepoint2text/parsing/extractors/mhtml_extractor.py"), (s "read_mhtml"), (269)%Z, (s "read"));
  ((s "sharepoint2text/parsing/extractors/ms_legacy/doc_extractor.py"), (s "read_doc"), (237)%Z, (s "seek"));
  ((s "sharepoint2text/parsing/extractors/ms_legacy/ppt_extractor.py"), (s "read_ppt"), (235)%Z, (s "seek"));
  ((s "sharepoint2text/parsing/extractors/ms_legacy/ppt_extractor.py"), (s "_extract_ppt_content_structured"), (252)%Z, (s "seek"));
  ((s "sharepoint2text/parsing/extractors/ms_legacy/ppt_extractor.py"), (s "_extract_ppt_content_structured"), (259)%Z, (s "seek"));
  ((s "sharepoint2text/parsing/extractors/ms_legacy/ppt_extractor.py"), (s "_extract_ppt_metadata"), (675)%Z, (s "seek"));
  ((s "sharepoint2text/parsing/extractors/ms_legacy/ppt_extractor.py"), (s "_extract_ppt_metadata"), (680)%Z, (s "seek"));
  ((s "sharepoint2text/parsing/extractors/ms_legacy/rtf_extractor.py"), (s "read_rtf"), (885)%Z, (s "seek"));
  ((s "sharepoint2text/parsing/extractors/ms_legacy/rtf_extractor.py"), (s "read_rtf"), (886)%Z, (s "read"));
  ((s "sharepoint2text/parsing/extractors/ms_legacy/xls_extractor.py"), (s "_read_content"), (203)%Z, (s "read"));
  ((s "sharepoint2text/parsing/extractors/ms_legacy/xls_extractor.py"), (s "read_xls"), (296)%Z, (s "seek"));
  ((s "sharepoint2text/parsing/extractors/ms_legacy/xls_extractor.py"), (s "read_xls"), (300)%Z, (s "seek"));
  ((s "sharepoint2text/parsing/extractors/ms_legacy/xls_extractor.py"), (s "read_xls"), (301)%Z, (s "read"));
  ((s "sharepoint2text/parsing/extractors/ms_legacy/xls_extractor.py"), (s "_extract_images_from_workbook"), (329)%Z, (s "seek"));
  ((s "sharepoint2text/parsing/extractors/ms_legacy/xls_extractor.py"), (s "_extract_images_from_workbook"), (333)%Z, (s "seek"));
  ((s "sharepoint2text/parsing/extractors/ms_modern/docx_extractor.py"), (s "read_docx"), (1025)%Z, (s "seek"));
  ((s "sharepoint2text/parsing/extractors/ms_modern/pptx_extractor.py"), (s "read_pptx"), (944)%Z, (s "seek"));
  ((s "sharepoint2text/parsing/extractors/ms_modern/xlsx_extractor.py"), (s "_read_metadata"), (313)%Z, (s "seek"));
  ((s "sharepoint2text/parsing/extractors/ms_modern/xlsx_extractor.py"), (s "_read_content"), (525)%Z, (s "seek"));
  ((s "sharepoint2text/parsing/extractors/ms_modern/xlsx_extractor.py"), (s "_read_content"), (526)%Z, (s "read"));
  ((s "sharepoint2text/parsing/extractors/ms_modern/xlsx_extractor.py"), (s "read_xlsx"), (583)%Z, (s "seek"));
  ((s "sharepoint2text/parsing/extractors/ms_modern/xlsx_extractor.py"), (s "read_xlsx"), (589)%Z, (s "read"));
  ((s "sharepoint2text/parsing/extractors/open_office/odf_extractor.py"), (s "read_odf"), (241)%Z, (s "seek"));
  ((s "sharepoint2text/parsing/extractors/open_office/odg_extractor.py"), (s "read_odg"), (203)%Z, (s "seek"));
  ((s "sharepoint2text/parsing/extractors/open_office/odp_extractor.py"), (s "read_odp"), (502)%Z, (s "seek"));
  ((s "sharepoint2text/parsing/extractors/open_office/ods_extractor.py"), (s "read_ods"), (549)%Z, (s "seek"));
  ((s "sharepoint2text/parsing/extractors/open_office/odt_extractor.py"), (s "read_odt"), (778)%Z, (s "seek"));
  ((s "sharepoint2text/parsing/extractors/pdf/pdf_extractor.py"), (s "_open_pdf_reader"), (220)%Z, (s "seek"));
  ((s "sharepoint2text/parsing/extractors/pdf/pdf_extractor.py"), (s "_open_pdf_reader"), (228)%Z, (s "seek"));
  ((s "sharepoint2text/parsing/extractors/pdf/pdf_extractor.py"), (s "_should_skip_images"), (248)%Z, (s "getbuffer().nbytes"));
  ((s "sharepoint2text/parsing/extractors/plain_extractor.py"), (s "read_plain_text"), (177)%Z, (s "seek"));
  ((s "sharepoint2text/parsing/extractors/plain_extractor.py"), (s "read_plain_text"), (179)%Z, (s "read"));
  ((s "sharepoint2text/parsing/extractors/util/encryption.py"), (s "is_ooxml_encrypted"), (18)%Z, (s "seek"));
  ((s "sharepoint2text/parsing/extractors/util/encryption.py"), (s "is_ooxml_encrypted"), (25)%Z, (s "seek"));
  ((s "sharepoint2text/parsing/extractors/util/encryption.py"), (s "is_ooxml_encrypted"), (20)%Z, (s "seek"));
  ((s "sharepoint2text/parsing/extractors/util/encryption.py"), (s "is_ooxml_encrypted"), (23)%Z, (s "seek"));
  ((s "sharepoint2text/parsing/extractors/util/encryption.py"), (s "is_odf_encrypted"), (30)%Z, (s "seek"));
  ((s "sharepoint2text/parsing/extractors/util/encryption.py"), (s "is_odf_encrypted"), (35)%Z, (s "seek"));
  ((s "sharepoint2text/parsing/extractors/util/encryption.py"), (s "is_odf_encrypted"), (42)%Z, (s "seek"));
  ((s "sharepoint2text/parsing/extractors/util/encryption.py"), (s "is_odf_encrypted"), (32)%Z, (s "seek"));
  ((s "sharepoint2text/parsing/extractors/util/encryption.py"), (s "is_xls_encrypted"), (59)%Z, (s "seek"));
  ((s "sharepoint2text/parsing/extractors/util/encryption.py"), (s "is_xls_encrypted"), (64)%Z, (s "seek"));
  ((s "sharepoint2text/parsing/extractors/util/encryption.py"), (s "is_xls_encrypted"), (87)%Z, (s "seek"));
  ((s "sharepoint2text/parsing/extractors/util/encryption.py"), (s "is_xls_encrypted"), (61)%Z, (s "seek"));
  ((s "sharepoint2text/parsing/extractors/util/encryption.py"), (s "is_xls_encrypted"), (73)%Z, (s "seek"));
  ((s "sharepoint2text/parsing/extractors/util/encryption.py"), (s "is_xls_encrypted"), (84)%Z, (s "seek"));
  ((s "sharepoint2text/parsing/extractors/util/encryption.py"), (s "is_ppt_encrypted"), (92)%Z, (s "seek"));
  ((s "sharepoint2text/parsing/extractors/util/encryption.py"), (s "is_ppt_encrypted"), (97)%Z, (s "seek"));
  ((s "sharepoint2text/parsing/extractors/util/encryption.py"), (s "is_ppt_encrypted"), (105)%Z, (s "seek"));
  ((s "sharepoint2text/parsing/extractors/util/encryption.py"), (s "is_ppt_encrypted"), (94)%Z, (s "seek"));
  ((s "sharepoint2text/parsing/extractors/util/encryption.py"), (s "is_ppt_encrypted"), (100)%Z, (s "seek"));
  ((s "sharepoint2text/parsing/extractors/util/zip_bomb.py"), (s "open_zipfile"), (124)%Z, (s "seek"));
  ((s "sharepoint2text/parsing/extractors/util/zip_bomb.py"), (s "validate_zip_bytesio"), (145)%Z, (s "tell"));
  ((s "sharepoint2text/parsing/extractors/util/zip_bomb.py"), (s "validate_zip_bytesio"), (147)%Z, (s "seek"));
  ((s "sharepoint2text/parsing/extractors/util/zip_bomb.py"), (s "validate_zip_bytesio"), (151)%Z, (s "seek"))
].

(* modes of zipfile.ZipFile(file_like, mode) / open(...) applied to the input object *)
Definition open_modes : list (str * str * Z * str) := [
  ((s "sharepoint2text/parsing/extractors/archive_extractor.py"), (s "_extract_from_zip_optimized"), (295)%Z, (s "r"));
  ((s "sharepoint2text/parsing/extractors/util/zip_bomb.py"), (s "open_zipfile"), (125)%Z, (s "r"));
  ((s "sharepoint2text/parsing/extractors/util/zip_bomb.py"), (s "validate_zip_bytesio"), (148)%Z, (s "r"))
].

(* stores through self / shared objects inside observer methods of data_types.py: (class, method, line) *)
Definition observer_writes : list (str * str * Z) := [

].
