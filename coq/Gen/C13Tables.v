(* GENERATED on every check run from the live interpreter and modules of the repo under test — do not edit. *)
From Coq Require Import NArith List Bool.
From S2T Require Import Lib.PyStr C13.Model.
Import ListNotations.
Open Scope N_scope.

(* code points c with chr(c).isspace() (== those matched by regex \s) *)
Definition py_ws_points : list N := [9; 10; 11; 12; 13; 28; 29; 30; 31; 32; 133; 160; 5760; 8192; 8193; 8194; 8195; 8196; 8197; 8198; 8199; 8200; 8201; 8202; 8232; 8233; 8239; 8287; 12288].
Definition py_is_ws (c : N) : bool := existsb (N.eqb c) py_ws_points.

(* (model constant, live module constant in prefix:local form) *)
Definition live_tags : list (str * str) := [(W_P, (s "w:p")); (W_T, (s "w:t")); (W_TBL, (s "w:tbl")); (W_TR, (s "w:tr")); (W_TC, (s "w:tc")); (A_GRAPHICDATA, (s "a:graphicData")); (A_TBL, (s "a:tbl")); (A_TR, (s "a:tr")); (A_TC, (s "a:tc")); (A_TXBODY, (s "a:txBody")); (A_P, (s "a:p")); (A_R, (s "a:r")); (A_FLD, (s "a:fld")); (A_BR, (s "a:br")); (A_T, (s "a:t")); (P_GRAPHICFRAME, (s "p:graphicFrame")); (TABLE_URI, (s "http://schemas.openxmlformats.org/drawingml/2006/table")); (TEXT_P, (s "text:p")); (TEXT_S, (s "text:s")); (TEXT_TAB, (s "text:tab")); (TEXT_LB, (s "text:line-break")); (OFFICE_ANNOTATION, (s "office:annotation")); (ATTR_TEXT_C, (s "text:c")); (ATTR_REPEAT_ROWS, (s "table:number-rows-repeated")); (ATTR_REPEAT_COLS, (s "table:number-columns-repeated")); (ATTR_VALUE_TYPE, (s "office:value-type")); (ATTR_VALUE, (s "office:value")); (ATTR_DATE_VALUE, (s "office:date-value")); (ATTR_TIME_VALUE, (s "office:time-value")); (ATTR_BOOLEAN_VALUE, (s "office:boolean-value")); (TABLE_TABLE, (s "table:table")); (TABLE_ROW, (s "table:table-row")); (TABLE_CELL, (s "table:table-cell")); (TEXT_P, (s "text:p")); (TEXT_P, (s "text:p"))].

Definition live_remove_tags_html : list str := [(s "applet"); (s "embed"); (s "iframe"); (s "noscript"); (s "object"); (s "script"); (s "style")].
Definition live_remove_tags_epub : list str := [(s "applet"); (s "embed"); (s "iframe"); (s "noscript"); (s "object"); (s "script"); (s "style")].
Definition live_void_remove_tags_epub : list str := [(s "embed")].
Definition live_ods_skip_tags : list str := [(s "office:annotation")].
Definition live_odt_skip_tags : list str := [(s "office:annotation"); (s "text:note")].
Definition live_odp_skip_tags : list str := [(s "office:annotation")].
