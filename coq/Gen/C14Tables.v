(* GENERATED on every check run from the live modules of the repo under test — do not edit. *)
From Coq Require Import ZArith List.
From S2T Require Import Lib.PyStr.
Import ListNotations.

Definition sof_docx : list Z := [192; 193; 194; 195; 197; 198; 199; 201; 202; 203; 205; 206; 207]%Z.
Definition ctmap_docx : list (str * str) := [((s "png"), (s "image/png")); ((s "jpg"), (s "image/jpeg")); ((s "jpeg"), (s "image/jpeg")); ((s "gif"), (s "image/gif")); ((s "bmp"), (s "image/bmp")); ((s "tiff"), (s "image/tiff")); ((s "tif"), (s "image/tiff")); ((s "emf"), (s "image/x-emf")); ((s "wmf"), (s "image/x-wmf"))].
Definition sof_pptx : list Z := [192; 193; 194; 195; 197; 198; 199; 201; 202; 203; 205; 206; 207]%Z.
Definition ctmap_pptx : list (str * str) := [((s "png"), (s "image/png")); ((s "jpg"), (s "image/jpeg")); ((s "jpeg"), (s "image/jpeg")); ((s "gif"), (s "image/gif")); ((s "bmp"), (s "image/bmp")); ((s "tiff"), (s "image/tiff")); ((s "tif"), (s "image/tiff")); ((s "emf"), (s "image/x-emf")); ((s "wmf"), (s "image/x-wmf"))].
Definition sof_xlsx : list Z := [192; 193; 194; 195; 197; 198; 199; 201; 202; 203; 205; 206; 207]%Z.
Definition ctmap_xlsx : list (str * str) := [((s "png"), (s "image/png")); ((s "jpg"), (s "image/jpeg")); ((s "jpeg"), (s "image/jpeg")); ((s "gif"), (s "image/gif")); ((s "bmp"), (s "image/bmp")); ((s "tiff"), (s "image/tiff")); ((s "tif"), (s "image/tiff")); ((s "emf"), (s "image/x-emf")); ((s "wmf"), (s "image/x-wmf"))].
Definition resolver_sites : list (str * bool) := [((s "docx._extract_images_from_context"), true); ((s "pptx._normalize_relative_path"), true); ((s "pptx._process_slide_from_context"), true); ((s "xlsx._resolve_image_path"), true); ((s "xlsx._resolve_drawing_path"), true); ((s "epub.resolve_href"), true); ((s "odf._shared.odf_member_name"), true); ((s "odt._extract_images_from_context"), true); ((s "odp._extract_image"), true); ((s "ods._extract_images"), true); ((s "odg._extract_images"), true)].
Definition pdf_ctmap : list (str * str) := [((s "/DCTDecode"), (s "image/jpeg")); ((s "/JPXDecode"), (s "image/jp2")); ((s "/FlateDecode"), (s "image/png")); ((s "/CCITTFaxDecode"), (s "image/tiff")); ((s "/JBIG2Decode"), (s "image/jbig2")); ((s "/LZWDecode"), (s "image/png"))].
Definition zip_lookup_sites : list (str * bool) := [((s "ZipContext.__init__: _namelist = set(zip.namelist())"), true); ((s "ZipContext.namelist"), true); ((s "ZipContext.exists"), true); ((s "ZipContext.read_bytes"), true); ((s "ZipContext.open_stream"), true); ((s "ZipContext.read_text"), true); ((s "ZipContext.read_xml_root"), true); ((s "zip_utils.read_zip_text"), true); ((s "zip_utils.read_zip_xml_root"), true); ((s "OOXMLZipContext: is a ZipContext and overrides no accessor"), true); ((s "_DocxContext: is a ZipContext and overrides no accessor"), true); ((s "_PptxContext: is a ZipContext and overrides no accessor"), true); ((s "_EpubContext: is a ZipContext and overrides no accessor"), true); ((s "_OdtContext: is a ZipContext and overrides no accessor"), true); ((s "_OdpContext: is a ZipContext and overrides no accessor"), true); ((s "_OdsContext: is a ZipContext and overrides no accessor"), true); ((s "_DocxContext.get_image_data"), true); ((s "_PptxContext.get_image_data"), true)].
Definition sig_png : list Z := [137; 80; 78; 71; 13; 10; 26; 10]%Z.
Definition sig_bmp : list Z := [66; 77]%Z.
Definition sig_gif87 : list Z := [71; 73; 70; 56; 55; 97]%Z.
Definition sig_gif89 : list Z := [71; 73; 70; 56; 57; 97]%Z.
Definition anchor_order : list Z := [0; 1; 2]%Z.
