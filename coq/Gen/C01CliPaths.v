(* GENERATED on every check run from sharepoint2text/cli.py — do not edit. *)
From Coq Require Import List.
From S2T Require Import C01.Cli.
Import ListNotations.

Definition cli_paths : list (list step) := [
  [Compute];
  [Compute; Compute; Compute];
  [Compute; Compute; Compute; Compute; Compute];
  [Compute; Compute; Compute; Compute; Compute; Compute];
  [Compute; Compute; Compute; Compute; Compute; Compute; Compute; Compute; WriteVar; WriteConst];
  [Compute; Compute; Compute; Compute; Compute; Compute; WriteVar; WriteConst]
].
