(* GENERATED on every check run from the AST of patch_pypdf_fallback_aes — do not edit. *)
From S2T Require Import Lib.PyStr C20.Patch.

Definition patch_guard : str := (s "local_crypt_fallback").
Definition patch_body : list assign := [
  ((Fb, (s "aes_ecb_encrypt")), (OursFn (s "aes_ecb_encrypt")));
  ((Fb, (s "aes_ecb_decrypt")), (OursFn (s "aes_ecb_decrypt")));
  ((Fb, (s "aes_cbc_encrypt")), (OursFn (s "aes_cbc_encrypt")));
  ((Fb, (s "aes_cbc_decrypt")), (OursFn (s "aes_cbc_decrypt")));
  ((FbCryptAES, (s "__init__")), (Wrapper (s "_cryptaes_init")));
  ((FbCryptAES, (s "encrypt")), (Wrapper (s "_cryptaes_encrypt")));
  ((FbCryptAES, (s "decrypt")), (Wrapper (s "_cryptaes_decrypt")));
  ((Providers, (s "aes_ecb_encrypt")), (OursFn (s "aes_ecb_encrypt")));
  ((Providers, (s "aes_ecb_decrypt")), (OursFn (s "aes_ecb_decrypt")));
  ((Providers, (s "aes_cbc_encrypt")), (OursFn (s "aes_cbc_encrypt")));
  ((Providers, (s "aes_cbc_decrypt")), (OursFn (s "aes_cbc_decrypt")));
  ((Providers, (s "CryptAES")), FbClass);
  ((Enc, (s "aes_ecb_encrypt")), (OursFn (s "aes_ecb_encrypt")));
  ((Enc, (s "aes_ecb_decrypt")), (OursFn (s "aes_ecb_decrypt")));
  ((Enc, (s "aes_cbc_encrypt")), (OursFn (s "aes_cbc_encrypt")));
  ((Enc, (s "aes_cbc_decrypt")), (OursFn (s "aes_cbc_decrypt")));
  ((Enc, (s "CryptAES")), FbClass)
].
