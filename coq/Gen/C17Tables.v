(* GENERATED on every check run from the live modules of the repo under test — do not edit. *)
From S2T Require Import Lib.PyStr.

Definition html_remove : list str := [(s "applet"); (s "embed"); (s "iframe"); (s "noscript"); (s "object"); (s "script"); (s "style")].
Definition html_void : list str := [(s "area"); (s "base"); (s "br"); (s "col"); (s "embed"); (s "hr"); (s "img"); (s "input"); (s "link"); (s "meta"); (s "param"); (s "source"); (s "track"); (s "wbr")].
Definition html_block : list str := [(s "address"); (s "article"); (s "aside"); (s "blockquote"); (s "br"); (s "dd"); (s "div"); (s "dl"); (s "dt"); (s "fieldset"); (s "figcaption"); (s "figure"); (s "footer"); (s "form"); (s "h1"); (s "h2"); (s "h3"); (s "h4"); (s "h5"); (s "h6"); (s "header"); (s "hr"); (s "li"); (s "main"); (s "nav"); (s "ol"); (s "p"); (s "pre"); (s "section"); (s "table"); (s "tr"); (s "ul")].
Definition epub_remove : list str := [(s "applet"); (s "embed"); (s "iframe"); (s "noscript"); (s "object"); (s "script"); (s "style")].
Definition epub_void : list str := [(s "embed")].
Definition epub_block : list str := [(s "address"); (s "article"); (s "aside"); (s "blockquote"); (s "br"); (s "dd"); (s "div"); (s "dl"); (s "dt"); (s "figcaption"); (s "figure"); (s "footer"); (s "h1"); (s "h2"); (s "h3"); (s "h4"); (s "h5"); (s "h6"); (s "header"); (s "hr"); (s "li"); (s "main"); (s "nav"); (s "ol"); (s "p"); (s "pre"); (s "section"); (s "table"); (s "tr"); (s "ul")].
Definition std_void : list str := [(s "area"); (s "base"); (s "br"); (s "col"); (s "embed"); (s "hr"); (s "img"); (s "input"); (s "link"); (s "meta"); (s "param"); (s "source"); (s "track"); (s "wbr")].
Definition statement_removed : list str := [(s "applet"); (s "embed"); (s "iframe"); (s "noscript"); (s "object"); (s "script"); (s "style")].
Definition ws_table : list N := [9;10;11;12;13;28;29;30;31;32;133;160;5760;8192;8193;8194;8195;8196;8197;8198;8199;8200;8201;8202;8232;8233;8239;8287;12288]%N.
