(* GENERATED on every check run from the live interpreter / modules — do not edit. *)
From Coq Require Import ZArith List.
From S2T Require Import Lib.PyStr C03.Lib C03.Model C03.Extract.
Import ListNotations.

Definition py_spaces : list N := [9; 10; 11; 12; 13; 28; 29; 30; 31; 32; 133; 160; 5760; 8192; 8193; 8194; 8195; 8196; 8197; 8198; 8199; 8200; 8201; 8202; 8232; 8233; 8239; 8287; 12288]%N.

Definition PPT : ppt_tables := {|
  title_types := [0; 6]%Z;
  body_types := [1; 5; 7; 8]%Z;
  notes_type := (2)%Z
|}.
