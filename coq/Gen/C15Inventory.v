(* GENERATED on every check run from the ast of every library module - do not edit. *)
From Coq Require Import List.
Import ListNotations.
From S2T Require Import Lib.PyStr C15.Model.

(* every module-level / class-level object shared by extractor calls, with its class *)
Definition shared_inventory : list (str * kind) := [
  ((s "parsing.extractors.archive_extractor._get_router_functions"), (KMemo 1));
  ((s "parsing.extractors.archive_extractor._is_supported_file_cached"), (KMemo 256));
  ((s "parsing.extractors.archive_extractor._get_file_extractor_cached"), (KMemo 256));
  ((s "parsing.extractors.archive_extractor.NESTED_ARCHIVE_EXTENSIONS"), KConst);
  ((s "parsing.extractors.archive_extractor.HIDDEN_PATTERNS"), KConst);
  ((s "parsing.extractors.archive_extractor._config"), KConfig);
  ((s "parsing.extractors.data_types.RtfImage._CONTENT_TYPES"), KConst);
  ((s "parsing.extractors.epub_extractor._guess_content_type"), (KMemo 256));
  ((s "parsing.extractors.epub_extractor.NS"), KConst);
  ((s "parsing.extractors.epub_extractor.REMOVE_TAGS"), KConst);
  ((s "parsing.extractors.epub_extractor._VOID_REMOVE_TAGS"), KConst);
  ((s "parsing.extractors.epub_extractor.BLOCK_TAGS"), KConst);
  ((s "parsing.extractors.html_extractor.REMOVE_TAGS"), KConst);
  ((s "parsing.extractors.html_extractor.BLOCK_TAGS"), KConst);
  ((s "parsing.extractors.ms_legacy.rtf_extractor._DEST_PATTERNS"), KConst);
  ((s "parsing.extractors.ms_legacy.rtf_extractor._HEADER_FOOTER_PATTERNS"), KConst);
  ((s "parsing.extractors.ms_legacy.rtf_extractor._RtfParser.SPECIAL_CHARS"), KConst);
  ((s "parsing.extractors.ms_modern.docx_extractor.NAMESPACES"), KConst);
  ((s "parsing.extractors.ms_modern.docx_extractor._CONTENT_TYPE_MAP"), KConst);
  ((s "parsing.extractors.ms_modern.pptx_extractor._CONTENT_TYPE_MAP"), KConst);
  ((s "parsing.extractors.ms_modern.xlsx_extractor._CONTENT_TYPE_MAP"), KConst);
  ((s "parsing.extractors.open_office._shared.guess_content_type"), (KMemo 512));
  ((s "parsing.extractors.open_office.odf_extractor.NS"), KConst);
  ((s "parsing.extractors.open_office.odf_extractor._TEXT_SKIP_TAGS"), KConst);
  ((s "parsing.extractors.open_office.odg_extractor.NS"), KConst);
  ((s "parsing.extractors.open_office.odg_extractor._TEXT_SKIP_TAGS"), KConst);
  ((s "parsing.extractors.open_office.odp_extractor.NS"), KConst);
  ((s "parsing.extractors.open_office.odp_extractor._TEXT_SKIP_TAGS"), KConst);
  ((s "parsing.extractors.open_office.ods_extractor.NS"), KConst);
  ((s "parsing.extractors.open_office.ods_extractor._TEXT_SKIP_TAGS"), KConst);
  ((s "parsing.extractors.open_office.odt_extractor.NS"), KConst);
  ((s "parsing.extractors.open_office.odt_extractor._TEXT_SKIP_TAGS"), KConst);
  ((s "parsing.extractors.pdf._pypdf_aes_fallback._SBOX"), KConst);
  ((s "parsing.extractors.pdf._pypdf_aes_fallback._INV_SBOX"), KConst);
  ((s "parsing.extractors.pdf._pypdf_aes_fallback._MUL2"), KConst);
  ((s "parsing.extractors.pdf._pypdf_aes_fallback._MUL3"), KConst);
  ((s "parsing.extractors.pdf._pypdf_aes_fallback._MUL9"), KConst);
  ((s "parsing.extractors.pdf._pypdf_aes_fallback._MUL11"), KConst);
  ((s "parsing.extractors.pdf._pypdf_aes_fallback._MUL13"), KConst);
  ((s "parsing.extractors.pdf._pypdf_aes_fallback._MUL14"), KConst);
  ((s "parsing.extractors.pdf._pypdf_aes_fallback._RCON"), KConst);
  ((s "parsing.extractors.pdf._pypdf_aes_fallback._ROUND_KEY_CACHE"), (KMemo 4));
  ((s "parsing.extractors.pdf.pdf_extractor._FONT_CACHE"), (KMemo 4096));
  ((s "parsing.extractors.pdf.pdf_extractor._REFERENCE_DIGIT_FEATURES"), KConst);
  ((s "parsing.extractors.pdf.pdf_extractor.FILTER_TO_FORMAT"), KConst);
  ((s "parsing.extractors.pdf.pdf_extractor.FILTER_TO_CONTENT_TYPE"), KConst);
  ((s "parsing.extractors.pdf.pdf_extractor._CHAR_MAP_PATCH_ORIGINALS"), KProtocol);
  ((s "parsing.extractors.pdf.pdf_extractor._TableExtractor.MONTH_TOKENS"), KConst);
  ((s "parsing.extractors.serialization._TYPE_REGISTRY"), KLazy);
  ((s "parsing.extractors.util.omml_to_latex.GREEK_TO_LATEX"), KConst);
  ((s "parsing.extractors.util.zip_bomb.DEFAULT_ZIP_BOMB_LIMITS"), KConst);
  ((s "parsing.mime_types.MIME_TYPE_MAPPING"), KConst);
  ((s "parsing.router._EXTRACTOR_REGISTRY"), KConst);
  ((s "parsing.router._EXTENSION_ALIASES"), KConst);
  ((s "parsing.router._COMPOUND_EXTENSIONS"), KConst);
  ((s "global _CHAR_MAP_PATCH_DEPTH"), KProtocol)
].

Definition unclassified_mutation_sites : nat := 0.

(* serialization._get_type_registry: publish *)
Definition registry_shape_modelled : bool := true.
