(* GENERATED on every check run from the live module sharepoint2text...util.zip_bomb — do not edit. *)
From Coq Require Import ZArith.
From S2T Require Import C11.Model C11.Corr.
Open Scope Z_scope.

Definition default_limits : limits := (mkL 50000 4294967296 1073741824 (RFin 200 0) (RFin 500 0)).
