(* GENERATED on every check run from the live modules of /repo — do not edit. *)
From Coq Require Import ZArith.
Open Scope Z_scope.
Definition MAX_7Z_FILE_SIZE : Z := 104857600.
Definition READ_FILE_DEFAULT_MAX : Z := 104857600.
Definition MAX_MEMORY_SIZE : Z := 10485760.
Definition MAX_ARCHIVE_FILE_SIZE : Z := 52428800.
