(* GENERATED on every check run from the ast of sharepoint2text/__init__.py - do not edit. *)
From S2T Require Import C15.Handles.

(* sharepoint2text.read_file *)
Definition read_file_skeleton : rblock :=
  (BCons RAny (BCons RAny (BCons RAny (BCons (RIf (BCons RAny (BCons RAny (BCons (RIf (BCons RRaise BNil)) BNil)))) (BCons RAny (BCons (RWith (BCons (RTry (BCons RAny (BCons RAny (BCons (RLoop (BCons RAny (BCons RYield BNil))) BNil)))) BNil)) BNil)))))).
