(* GENERATED on every check run from the live modules of /repo — do not edit. *)
From S2T Require Import Lib.PyStr.

Definition g_enc_streams : list str := [(s "EncryptionInfo"); (s "EncryptedPackage"); (s "DataSpaces")].
Definition g_ppt_streams : list str := [(s "EncryptedSummary"); (s "EncryptedSummaryInformation"); (s "Current User")].
Definition g_ppt_token_aware : bool := true.
Definition g_xls_ints : list N := [0; 4; 2; 47]%N.
Definition g_min_doc_size : nat := 512.
Definition g_doc_magics : list N := [42476; 42460]%N.
Definition g_fib_flags_offset : nat := 10.
Definition g_fib_flag : N := 256%N.
Definition g_aes_prefix : list N := [6;241;7]%N.
Definition g_epub_findall : str := (s ".//{http://www.w3.org/2001/04/xmlenc#}EncryptedData").
Definition g_obfuscation : list str := [(s "http://ns.adobe.com/pdf/enc#RC"); (s "http://www.idpf.org/2008/embedding")].
