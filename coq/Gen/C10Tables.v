(* GENERATED on every check run from the live modules of the repository under test — do not edit. *)
From S2T Require Import Lib.PyStr C10.Model.

Definition T : tables := {|
  magic := [([80;75;3;4]%N, (s "zip"), 4%N); ([80;75;5;6]%N, (s "zip"), 4%N); ([55;122;188;175;39;28]%N, (s "7z"), 6%N); ([31;139]%N, (s "tar.gz"), 2%N); ([66;90]%N, (s "tar.bz2"), 2%N); ([253;55;122;88;90;0]%N, (s "tar.xz"), 6%N)];
  tar_magic_offset := 257%N;
  tar_magic := [117;115;116;97;114]%N;
  nested := [(s ".7z"); (s ".bz2"); (s ".gz"); (s ".tar"); (s ".tar.bz2"); (s ".tar.gz"); (s ".tar.xz"); (s ".tbz2"); (s ".tgz"); (s ".txz"); (s ".xz"); (s ".zip")];
  max_archive_file := 52428800%N;
  max_memory := 10485760%N;
  max_7z := 104857600%N;
  aes_prefix := [6;241;7]%N;
  id_copy := [0]%N; id_lzma := [3;1;1]%N; id_lzma2 := [33]%N; id_bcj := [3;3;1;3]%N
|}.

Definition prop_ids : list N := [0%N; 1%N; 2%N; 3%N; 4%N; 5%N; 6%N; 7%N; 8%N; 9%N; 10%N; 11%N; 12%N; 13%N; 14%N; 15%N; 17%N; 21%N; 23%N].
Definition magic7 : bytes := [55;122;188;175;39;28]%N.
