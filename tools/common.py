"""Shared machinery for ./check: Coq build, model evaluation, evidence, findings.

Everything here runs under /venv/bin/python with PYTHONPATH=/repo (the implementation is
imported from /repo's current working tree).
"""
from __future__ import annotations

import fcntl
import hashlib
import json
import os
import random
import re
import subprocess
import sys
import time
from pathlib import Path

VERIF = Path(__file__).resolve().parents[1]   # /verif, or a snapshot of it (vp run)
COQ = VERIF / "coq"
REPO = Path(os.environ.get("S2T_REPO", "/repo"))  # scratch worktrees only for development; registered checks use /repo
EVID = VERIF / "evidence"
REPLAY = VERIF / "replay"
SCRATCH = COQ / "Scratch"

KERNEL = "Coq 8.16.1 kernel incl. its VM (vm_compute); no native_compute"
ALLOWED_AXIOMS: set[str] = set()  # goal: every property theorem is closed under the global context

FORBIDDEN = re.compile(
    r"\b(Admitted|admit|Axiom|Axioms|Parameter|Parameters|Conjecture|Admit Obligations|"
    r"Unset Guard Checking|Unset Positivity Checking|Unset Universe Checking|bypass_check|"
    r"Local Unset Guard|type-in-type|impredicative-set)\b"
)


def sh(cmd, timeout=600, cwd=None, env=None, input=None):
    e = dict(os.environ)
    if env:
        e.update(env)
    try:
        p = subprocess.run(
            cmd, shell=isinstance(cmd, str), cwd=cwd, env=e, input=input,
            stdout=subprocess.PIPE, stderr=subprocess.STDOUT, timeout=timeout, text=True,
        )
        return p.returncode, p.stdout
    except subprocess.TimeoutExpired as ex:
        out = ex.stdout or ""
        if isinstance(out, bytes):
            out = out.decode("utf-8", "replace")
        return 124, out + "\n[timeout]"


# ----------------------------------------------------------------------------- Coq literals
def coq_str(s: str) -> str:
    """Python str -> Coq term of type `list N` (code points).  ASCII printable strings use the
    readable `(s "...")` form, everything else an explicit numeral list."""
    if s and all(32 <= ord(c) < 127 for c in s):
        return '(s "' + s.replace('"', '""') + '")'
    return "[" + ";".join(str(ord(c)) for c in s) + "]%N"


def coq_bytes(b: bytes) -> str:
    return "[" + ";".join(str(x) for x in b) + "]%N"


def coq_list(items) -> str:
    return "[" + "; ".join(items) + "]"


def coq_bool(b) -> str:
    return "true" if b else "false"


def coq_opt(x, f) -> str:
    return "None" if x is None else "(Some " + f(x) + ")"


def coq_Z(n: int) -> str:
    return f"({n})%Z"


# ----------------------------------------------------------------------------- context
class Ctx:
    def __init__(self, pid: str, tier: str, seed: int):
        self.pid = pid
        self.tier = tier
        self.seed = seed
        self.rng = random.Random(f"{pid}-{seed}")
        self.t0 = time.time()
        self.violations: list[dict] = []
        self.known_hits: list[str] = []
        self.obligations: list[dict] = []  # {name, ok, detail}
        self.axioms: dict[str, str] = {}
        self.evaluations = 0
        self.nontrivial: set[str] = set()
        self.samples: list = []
        self.hist: dict[str, int] = {}
        self.trusted: list[str] = [KERNEL]
        self.assumptions: list[str] = []
        self.checker_cmds: list[str] = []
        self.extra: dict = {}
        self.rule = ""
        self.level = "proof"
        self.traces = 0
        self.disagreements = 0
        self.kf = load_known_findings()
        REPLAY.mkdir(exist_ok=True)
        EVID.mkdir(exist_ok=True)
        SCRATCH.mkdir(exist_ok=True)

    # -- sizes
    def n(self, quick: int, thorough: int) -> int:
        return thorough if self.tier == "thorough" else quick

    # -- bookkeeping of explored cases
    def case(self, canon, nontrivial: bool, kind: str | None = None):
        self.evaluations += 1
        if kind:
            self.hist[kind] = self.hist.get(kind, 0) + 1
        if nontrivial:
            h = hashlib.sha1(repr(canon).encode("utf-8", "surrogatepass")).hexdigest()[:16]
            self.nontrivial.add(h)
        if len(self.samples) < 6 and nontrivial:
            self.samples.append(_jsonable(canon))

    def count(self, kind: str, k: int = 1):
        self.hist[kind] = self.hist.get(kind, 0) + k

    # -- obligations
    def obligation(self, name: str, ok: bool, detail: str = ""):
        self.obligations.append({"name": name, "ok": bool(ok), "detail": detail[:2000]})

    def broken_obligations(self):
        return [o for o in self.obligations if not o["ok"]]

    # -- findings
    def finding(self, key: str, what: str, replay: dict, found_input: bool = True):
        """Report that the property fails.  `key` identifies the specific input / call site /
        history; a key listed as an open known finding prints KNOWN-FINDING, anything else is a
        VIOLATION."""
        for k in self.kf:
            if k.get("property") == self.pid and k.get("status") == "open" and k.get("key") == key:
                if key not in self.known_hits:
                    self.known_hits.append(key)
                    print(f"KNOWN-FINDING: property={self.pid} {k.get('what', what)} [key={key}]")
                return
        if any(v["key"] == key for v in self.violations):
            return
        if len(self.violations) >= 12:   # keep the report readable: further violations are only counted
            self.suppressed = getattr(self, "suppressed", 0) + 1
            return
        replay = dict(replay)
        replay.update({"property": self.pid, "key": key, "what": what, "seed": self.seed,
                       "tier": self.tier, "found_input": found_input,
                       "rerun": f"./check {self.pid} --tier {self.tier}"})
        h = hashlib.sha1((self.pid + key).encode("utf-8", "surrogatepass")).hexdigest()[:12]
        path = REPLAY / f"{self.pid}-{h}.json"
        path.write_text(json.dumps(_jsonable(replay), indent=1, ensure_ascii=True))
        self.violations.append({"key": key, "what": what, "replay": str(path), "found_input": found_input})
        tail = "" if found_input else " no-failing-input-found"
        print(f"VIOLATION property={self.pid} replay={path}{tail}")
        print(f"  what: {what}")

    # -- finish
    def finish(self) -> int:
        broken = self.broken_obligations()
        if broken and not any(v["found_input"] for v in self.violations):
            # an obligation or the correspondence no longer checks, and no failing input was found
            names = ", ".join(o["name"] for o in broken)
            self.finding(
                "obligation:" + names,
                f"proof obligation(s) no longer check: {names}; search found no failing input",
                {"broken": broken, "search": {"evaluations": self.evaluations, "hist": self.hist}},
                found_input=False,
            )
        elif broken:
            for o in broken:
                print(f"  broken obligation: {o['name']}: {o['detail'][:300]}")
        n_ob = len(self.obligations)
        n_ok = sum(1 for o in self.obligations if o["ok"])
        cov = {
            "obligations": n_ob,
            "discharged": n_ok,
            "checker_cmd": " ; ".join(self.checker_cmds) or "n/a",
            "trusted_base": self.trusted + [f"axioms[{k}]: {v}" for k, v in sorted(self.axioms.items())],
            "evaluations": self.evaluations,
            "distinct_nontrivial": len(self.nontrivial),
            "rule": self.rule,
            "samples": self.samples or [o["name"] for o in self.obligations[:5]],
            "traces_validated_against_impl": self.traces,
            "disagreements_checked": self.disagreements,
            "input_distribution": self.hist,
            "obligation_list": [{"name": o["name"], "ok": o["ok"]} for o in self.obligations],
            "known_findings_hit": self.known_hits,
            "violations_not_printed": getattr(self, "suppressed", 0),
        }
        cov.update(self.extra)
        ev = {
            "property_id": self.pid,
            "tier": self.tier,
            "seed": self.seed,
            "level": self.level,
            "coverage": cov,
            "assumptions": self.assumptions,
            "wall_s": round(time.time() - self.t0, 2),
            "violations": len(self.violations),
        }
        (EVID / f"{self.pid}.json").write_text(json.dumps(_jsonable(ev), indent=1, ensure_ascii=True) + "\n")
        print(f"{self.pid} [{self.tier}] obligations {n_ok}/{n_ob} evaluations {self.evaluations} "
              f"distinct_nontrivial {len(self.nontrivial)} known-findings {len(self.known_hits)} "
              f"violations {len(self.violations)} wall {ev['wall_s']}s")
        return 1 if self.violations else 0

    # ------------------------------------------------------------------------- Coq
    def gen_write(self, rel: str, text: str) -> bool:
        """Write a generated .v file under coq/ only when its content changed."""
        p = COQ / rel
        p.parent.mkdir(parents=True, exist_ok=True)
        if p.exists() and p.read_text() == text:
            return False
        p.write_text(text)
        return True

    def coq_build(self, targets: list[str], timeout: int = 1500, force: list[str] | None = None):
        """make the given .vo targets (paths relative to coq/).  `force` lists .vo files to delete
        first so their Print Assumptions output is produced again.  Returns (ok, log)."""
        with open(COQ / ".build.lock", "w") as lk:
            fcntl.flock(lk, fcntl.LOCK_EX)
            ensure_makefile()
            for f in force or []:
                for suffix in ("", "s", "k"):
                    q = COQ / (f + suffix)
                    if q.exists():
                        q.unlink()
            cmd = f"timeout {timeout} make -j16 " + " ".join(targets)
            self.checker_cmds.append(f"cd {COQ} && {cmd}")
            rc, out = sh(cmd, cwd=COQ, timeout=timeout + 30)
        return rc == 0, out

    def prove(self, props_v: str, deps: list[str], timeout: int = 1500, expected: list[str] | None = None):
        """Build `deps` (.vo targets relative to coq/) with make, then compile the property file
        `props_v` on its own with coqc and pair the k-th `Print Assumptions` output with the k-th
        `Print Assumptions <name>.` command of the file.  One obligation per such theorem:
        discharged iff the file compiled and the theorem depends on no axiom outside
        ALLOWED_AXIOMS.  Returns (ok, log)."""
        gate = grep_gate()
        self.obligation("grep-gate(no Admitted/admit/Axiom/Parameter/unset checks)", not gate, "; ".join(gate))
        src = strip_coq_comments((COQ / props_v).read_text())
        names = re.findall(r"Print\s+Assumptions\s+([\w.']+)\s*\.", src)
        stated = re.findall(r"^\s*(?:Theorem|Lemma|Example|Corollary)\s+([\w']+)", src, re.M)
        missing = [n for n in stated if n not in names]
        if missing:
            self.obligation("every-theorem-has-Print-Assumptions", False, "missing: " + ", ".join(missing))
        for e in expected or []:
            if e not in names:
                self.obligation(e, False, "expected property theorem is not stated in " + props_v)
        ok, log = self.coq_build(deps, timeout=timeout)
        log2 = ""
        if ok:
            cmd = f"timeout {timeout} coqc -q -Q . S2T {props_v}"
            self.checker_cmds.append(f"cd {COQ} && {cmd}")
            with open(COQ / ".build.lock", "w") as lk:
                fcntl.flock(lk, fcntl.LOCK_EX)
                rc, log2 = sh(cmd, cwd=COQ, timeout=timeout + 30)
            ok = rc == 0
        if ok and self.tier == "thorough":
            # independent re-check of the compiled file and everything it depends on
            mod = "S2T." + props_v[:-2].replace("/", ".")
            cmd = f"timeout 2400 coqchk -silent -o -Q . S2T {mod}"
            self.checker_cmds.append(f"cd {COQ} && {cmd}")
            with open(COQ / ".build.lock", "w") as lk:
                fcntl.flock(lk, fcntl.LOCK_EX)
                rc3, out3 = sh(cmd, cwd=COQ, timeout=2500)
            m = re.search(r"\* Axioms:\s*(.*?)\n\s*\n", out3 + "\n\n", re.S)
            axioms = m.group(1).strip() if m else "?"
            self.axioms[f"coqchk:{mod}"] = axioms
            self.obligation(f"coqchk -o {mod}: no axioms, no unsafe fixpoints", rc3 == 0 and axioms == "<none>",
                            out3[-600:])
        blocks = parse_assumption_blocks(log2)
        for i, name in enumerate(names):
            if not ok:
                self.obligation(name, False, "build failed: " + _tail_err(log + log2))
                continue
            if i >= len(blocks):
                self.obligation(name, False, "no Print Assumptions output")
                continue
            a = blocks[i]
            bad = [x for x in a if x.split(":")[0].strip() not in ALLOWED_AXIOMS]
            self.axioms[name] = "Closed under the global context" if not a else "; ".join(a)
            self.obligation(name, not bad, "axioms: " + "; ".join(bad))
        return ok, log + log2

    def coq_eval(self, name: str, text: str, timeout: int = 600):
        """Compile a scratch file (not part of the project) and return (ok, stdout)."""
        SCRATCH.mkdir(exist_ok=True)
        mod = f"{self.pid}_{name}_p{os.getpid()}"   # per-process name: concurrent runs must not collide
        p = SCRATCH / f"{mod}.v"
        p.write_text(text)
        rc, out = sh(f"timeout {timeout} coqc -q -Q . S2T Scratch/{mod}.v", cwd=COQ, timeout=timeout + 30)
        for ext in (".vo", ".vos", ".vok", ".glob"):
            q = SCRATCH / f"{mod}{ext}"
            if q.exists():
                q.unlink()
        aux = SCRATCH / f".{mod}.aux"
        if aux.exists():
            aux.unlink()
        if rc == 0 and p.exists():
            p.unlink()                               # keep the source only when it failed (diagnosis)
        return rc == 0, out


def coq_eval_shards(ctx, name: str, preamble: str, fn: str, cases: list[str], shard: int = 400,
                    timeout: int = 900, ty: str | None = None):
    """Evaluate the boolean Coq function `fn` on every case term (vm_compute inside coqc, one
    scratch file per shard, shards in parallel).  Returns (ok, failing_indices, log)."""
    from concurrent.futures import ThreadPoolExecutor
    chunks = [cases[i:i + shard] for i in range(0, len(cases), shard)]

    def run(k_chunk):
        k, chunk = k_chunk
        body = (preamble + "\nDefinition cases" + (f" : list ({ty})" if ty else "") + " := [\n" + ";\n".join(chunk) + "\n].\n"
                "Fixpoint failing {A} (f : A -> bool) (i : nat) (l : list A) : list nat :=\n"
                "  match l with [] => [] | x :: r => if f x then failing f (S i) r else i :: failing f (S i) r end.\n"
                f"Eval vm_compute in (failing {fn} 0 cases).\n")
        ok, out = ctx.coq_eval(f"{name}_{k}", body, timeout=timeout)
        if not ok:
            return k, False, [], out
        m = re.search(r"=\s*\[(.*?)\]\s*(?:%nat)?\s*:\s*list nat", out, re.S)
        if not m:
            return k, False, [], out
        idx = [int(x) for x in re.findall(r"\d+", m.group(1))]
        return k, True, idx, out

    allok, failing, logs = True, [], []
    with ThreadPoolExecutor(max_workers=8) as ex:
        for k, ok, idx, out in ex.map(run, list(enumerate(chunks))):
            if not ok:
                allok = False
                logs.append(out[-1500:])
            failing.extend(k * shard + i for i in idx)
    return allok, sorted(failing), "\n".join(logs)


def _tail_err(log: str) -> str:
    m = re.search(r"(File \"[^\n]*\n(?:.*\n){0,12})", log[log.find("Error") - 600 if "Error" in log else 0:])
    i = log.find("Error")
    return log[max(0, i - 300): i + 700] if i >= 0 else log[-800:]


def parse_assumption_blocks(log: str) -> list[list[str]]:
    """Split coqc output into one block per Print Assumptions command (in order)."""
    blocks: list[list[str]] = []
    mode = False
    for line in log.splitlines():
        if line.startswith("Closed under the global context"):
            blocks.append([])
            mode = False
        elif line.startswith("Axioms:"):
            blocks.append([])
            mode = True
        elif mode:
            if line.startswith(" ") or line.startswith("\t"):
                t = " ".join(line.split())
                if re.match(r"^[A-Za-z_][\w.']*\s*:", t) or not blocks[-1]:
                    blocks[-1].append(t)
                else:
                    blocks[-1][-1] += " " + t
            elif line.strip() == "":
                continue
            else:
                mode = False
    return blocks


def ensure_makefile():
    proj = COQ / "_CoqProject"
    files = sorted(str(p.relative_to(COQ)) for p in COQ.rglob("*.v")
                   if "Scratch" not in p.parts and "_build" not in p.parts)
    text = "-Q . S2T\n-arg -w -arg -notation-overridden,-deprecated-hint-without-locality,-deprecated-instance-without-locality\n" + "\n".join(files) + "\n"
    changed = (not proj.exists()) or proj.read_text() != text
    if changed:
        proj.write_text(text)
    if changed or not (COQ / "Makefile").exists():
        rc, out = sh("coq_makefile -f _CoqProject -o Makefile", cwd=COQ)
        if rc != 0:
            raise RuntimeError("coq_makefile failed: " + out)


def grep_gate() -> list[str]:
    bad = []
    for p in COQ.rglob("*.v"):
        if "Scratch" in p.parts:
            continue
        txt = p.read_text()
        txt_nc = strip_coq_comments(txt)
        for i, line in enumerate(txt_nc.splitlines(), 1):
            if FORBIDDEN.search(line):
                bad.append(f"{p.relative_to(COQ)}:{i}: {line.strip()[:80]}")
            if re.match(r"^\s*(Variable|Variables|Hypothesis|Hypotheses)\b", line) and not _in_section(txt_nc, i):
                bad.append(f"{p.relative_to(COQ)}:{i}: Variable/Hypothesis outside a section")
    return bad


def strip_coq_comments(t: str) -> str:
    out = []
    depth = 0
    i = 0
    instr = False
    while i < len(t):
        if depth == 0 and t[i] == '"':
            instr = not instr
            out.append(t[i]); i += 1; continue
        if not instr and t.startswith("(*", i):
            depth += 1; i += 2; continue
        if not instr and depth and t.startswith("*)", i):
            depth -= 1; i += 2; continue
        if depth == 0:
            out.append(t[i])
        elif t[i] == "\n":
            out.append("\n")
        i += 1
    return "".join(out)


def _in_section(txt: str, lineno: int) -> bool:
    depth = 0
    for i, line in enumerate(txt.splitlines(), 1):
        if i >= lineno:
            break
        if re.match(r"^\s*Section\s+\w+", line):
            depth += 1
        elif re.match(r"^\s*End\s+\w+", line) and depth > 0:
            depth -= 1
    return depth > 0


def load_known_findings():
    """known_findings/Cxx.json: {"findings": [{"property","key","status": "open"|"fixed","what",...}]}.
    Read-only at run time."""
    out = []
    d = VERIF / "known_findings"
    if d.exists():
        for p in sorted(d.glob("*.json")):
            out += json.loads(p.read_text()).get("findings", [])
    return out


def _jsonable(x):
    if isinstance(x, dict):
        return {str(k): _jsonable(v) for k, v in x.items()}
    if isinstance(x, (list, tuple, set, frozenset)):
        return [_jsonable(v) for v in x]
    if isinstance(x, bytes):
        if len(x) <= 4096:
            return {"_hex": x.hex()}
        if len(x) <= 8 * 2 ** 20:       # the whole input, compressed, so that the replay really replays
            import base64
            import zlib
            return {"_zlib_b64": base64.b64encode(zlib.compress(x, 9)).decode("ascii"), "_len": len(x)}
        return {"_hex_prefix": x[:4096].hex(), "_len": len(x)}
    if isinstance(x, str):
        return x.encode("utf-8", "backslashreplace").decode("utf-8")
    if isinstance(x, (int, float, bool)) or x is None:
        return x
    return repr(x)


ENV_VARIANTS = ("debug-logging", "worker-thread", "tz-new-york", "tz-tokyo", "cwd-elsewhere")


def env_sweep(ctx, name: str, fn, cases, variants=ENV_VARIANTS, describe=repr, max_findings: int = 3):
    """Environment dimension shared by all properties: `fn(case)` (a canonical, comparable result of the
    implementation on `case`; exceptions are mapped to ('EXC', class name)) must give the same value
      - with DEBUG logging enabled for the library (diagnostic code paths run; handlers swallow the records),
      - in a worker thread instead of the main thread,
      - under other time zones (TZ + time.tzset),
      - with another current working directory,
    as in the environment the check normally runs in.  A difference is a finding `environment-dependent:<name>:<variant>`
    with the case as replay.  Returns the number of differences."""
    import logging
    import tempfile
    import threading

    def safe(case):
        try:
            return fn(case)
        except Exception as e:  # noqa
            return ("EXC", type(e).__name__)

    cases = list(cases)
    base = [safe(c) for c in cases]
    # a case whose result is not even stable in the baseline environment is not an environment finding
    again = [safe(c) for c in cases]
    stable = [i for i in range(len(cases)) if base[i] == again[i]]
    diffs = 0
    for v in variants:
        got = {}
        if v == "debug-logging":
            root = logging.getLogger()
            lib = logging.getLogger("sharepoint2text")
            saved = (logging.root.manager.disable, root.level, lib.level, list(root.handlers))
            logging.disable(logging.NOTSET)
            root.handlers[:] = [logging.NullHandler()]
            root.setLevel(logging.DEBUG)
            lib.setLevel(logging.DEBUG)
            try:
                for i in stable:
                    got[i] = safe(cases[i])
            finally:
                root.handlers[:] = saved[3]
                root.setLevel(saved[1])
                lib.setLevel(saved[2])
                logging.disable(saved[0])
        elif v == "worker-thread":
            def work():
                for i in stable:
                    got[i] = safe(cases[i])
            t = threading.Thread(target=work, daemon=True)
            t.start()
            t.join(timeout=600)
        elif v.startswith("tz-"):
            tz = {"tz-new-york": "EST5EDT,M3.2.0,M11.1.0", "tz-tokyo": "JST-9", "tz-berlin": "CET-1CEST,M3.5.0,M10.5.0/3"}[v]
            old = os.environ.get("TZ")
            os.environ["TZ"] = tz
            time.tzset()
            try:
                for i in stable:
                    got[i] = safe(cases[i])
            finally:
                if old is None:
                    os.environ.pop("TZ", None)
                else:
                    os.environ["TZ"] = old
                time.tzset()
        elif v == "cwd-elsewhere":
            old = os.getcwd()
            with tempfile.TemporaryDirectory(dir="/var/tmp") as td:
                os.chdir(td)
                try:
                    for i in stable:
                        got[i] = safe(cases[i])
                finally:
                    os.chdir(old)
        else:
            continue
        n_v = 0
        for i in stable:
            ctx.case((name, v, i), True, kind=f"env:{v}")
            if i in got and got[i] != base[i]:
                diffs += 1
                n_v += 1
                if n_v <= max_findings:
                    ctx.finding(f"environment-dependent:{name}:{v}",
                                f"{name}: the result for {describe(cases[i])[:200]} differs under '{v}': {str(got[i])[:200]} instead of "
                                f"{str(base[i])[:200]}", {"case": cases[i], "variant": v, "baseline": base[i], "got": got[i]})
    ctx.extra.setdefault("env_sweeps", {})[name] = {"cases": len(cases), "stable": len(stable), "variants": list(variants), "differences": diffs}
    return diffs


def replay_bytes(x):
    """Inverse of _jsonable for bytes values stored in a replay file (None if only a prefix was kept)."""
    if isinstance(x, dict) and "_hex" in x:
        return bytes.fromhex(x["_hex"])
    if isinstance(x, dict) and "_zlib_b64" in x:
        import base64
        import zlib
        return zlib.decompress(base64.b64decode(x["_zlib_b64"]))
    return None


def extraction_directives() -> list[str]:
    out = []
    d = COQ / "Extract"
    if d.exists():
        for p in d.glob("*.v"):
            for line in p.read_text().splitlines():
                if re.match(r"^\s*(Extract|Extraction|Require Import ExtrOcaml|From Coq Require (Import )?Extr)", line):
                    out.append(f"{p.name}: {line.strip()}")
    return out
