"""X-translator: Python function body (ast) -> Coq term of C01.Exn.stmt.  Fail-closed: unknown syntax or
an unresolvable exception class raises TranslateError (the caller records the obligation as open).

Over-approximation: every expression/call not on the allow-list is `SAny` (may complete, may raise any
Exception subclass).  Allow-list of non-raising forms (part of the trusted base): constants, names,
attribute reads on names, f-strings/arithmetics/comparisons of those, `logger.<level>(...)`,
`time.perf_counter()`, `len(name)`, `str(name)`, `bool(name)`, `print(..., file=sys.stderr)`, constructors of ExtractionError-family
classes with allow-listed arguments, nested def/class statements, pass/break/continue.
"""
from __future__ import annotations

import ast
import builtins
import importlib
import inspect
import textwrap


class TranslateError(Exception):
    pass


LOG_LEVELS = {"debug", "info", "warning", "error", "exception", "critical", "log"}


class Translator:
    def __init__(self, module, func_node: ast.AST, family_base):
        self.module = module
        self.family = family_base
        self.local_names = {}
        for n in ast.walk(func_node):
            if isinstance(n, ast.ImportFrom) and n.module and n.level == 0:
                for a in n.names:
                    self.local_names[a.asname or a.name] = (n.module, a.name)

    # ------------------------------------------------------------------ classes
    def resolve(self, node):
        if isinstance(node, ast.Name):
            nm = node.id
            if hasattr(self.module, nm):
                return getattr(self.module, nm)
            if nm in self.local_names:
                mod, attr = self.local_names[nm]
                return getattr(importlib.import_module(mod), attr)
            if hasattr(builtins, nm):
                return getattr(builtins, nm)
            raise TranslateError(f"cannot resolve name {nm}")
        if isinstance(node, ast.Attribute):
            base = self.resolve(node.value)
            return getattr(base, node.attr)
        raise TranslateError(f"cannot resolve {ast.dump(node)[:80]}")

    def kind_of_class(self, c):
        if not (isinstance(c, type) and issubclass(c, BaseException)):
            raise TranslateError(f"not an exception class: {c!r}")
        if issubclass(c, self.family):
            return "Fam"
        if issubclass(c, Exception):
            return "Other"
        return "BaseOnly"

    def catch_spec(self, typ):
        if typ is None:
            return ("Always", "Always", "Always")
        nodes = typ.elts if isinstance(typ, ast.Tuple) else [typ]
        rank = {"Never": 0, "Maybe": 1, "Always": 2}
        best = ["Never", "Never", "Never"]
        for nd in nodes:
            c = self.resolve(nd)
            if not (isinstance(c, type) and issubclass(c, BaseException)):
                raise TranslateError(f"except clause names a non-exception {c!r}")
            fam = "Always" if issubclass(self.family, c) else ("Maybe" if issubclass(c, self.family) else "Never")
            if c in (Exception, BaseException):
                oth = "Always"
            elif issubclass(c, self.family) or not issubclass(c, Exception):
                oth = "Never"
            else:
                oth = "Maybe"
            if c is BaseException:
                bas = "Always"
            elif not issubclass(c, Exception):
                bas = "Maybe"
            else:
                bas = "Never"
            for i, v in enumerate((fam, oth, bas)):
                if rank[v] > rank[best[i]]:
                    best[i] = v
        return tuple(best)

    # ------------------------------------------------------------------ expressions
    def pure(self, e) -> bool:
        if e is None:
            return True
        if isinstance(e, (ast.Constant, ast.Name)):
            return True
        if isinstance(e, ast.Attribute):
            return isinstance(e.value, ast.Name)
        if isinstance(e, ast.JoinedStr):
            return all(self.pure(v) for v in e.values)
        if isinstance(e, ast.FormattedValue):
            return self.pure(e.value)
        if isinstance(e, ast.BinOp):
            return isinstance(e.op, (ast.Add, ast.Sub)) and self.pure(e.left) and self.pure(e.right)
        if isinstance(e, ast.BoolOp):
            return all(self.pure(v) for v in e.values)
        if isinstance(e, ast.UnaryOp):
            return isinstance(e.op, ast.Not) and self.pure(e.operand)
        if isinstance(e, ast.Compare):
            return self.pure(e.left) and all(self.pure(c) for c in e.comparators) and all(
                isinstance(o, (ast.Is, ast.IsNot, ast.Eq, ast.NotEq, ast.Gt, ast.Lt, ast.GtE, ast.LtE)) for o in e.ops)
        if isinstance(e, ast.IfExp):
            return self.pure(e.test) and self.pure(e.body) and self.pure(e.orelse)
        if isinstance(e, (ast.Tuple, ast.List)):
            return all(self.pure(v) for v in e.elts)
        if isinstance(e, ast.Call):
            args_ok = all(self.pure(a) for a in e.args) and all(self.pure(k.value) for k in e.keywords)
            f = e.func
            if isinstance(f, ast.Attribute) and isinstance(f.value, ast.Name):
                if f.value.id == "logger" and f.attr in LOG_LEVELS:
                    return args_ok
                if f.value.id == "time" and f.attr == "perf_counter":
                    return args_ok
            if isinstance(f, ast.Name) and f.id in ("len", "str", "bool") and len(e.args) == 1 and isinstance(e.args[0], ast.Name):
                return True
            if isinstance(f, ast.Name) and f.id == "print" and args_ok and any(
                    k.arg == "file" and ast.unparse(k.value) == "sys.stderr" for k in e.keywords):
                return True  # stderr uses errors='backslashreplace': printing a str cannot fail on encoding
            if isinstance(f, ast.Name) and f.id == "_build_parser" and not e.args:
                return True  # input-independent argparse construction (cli.py)
            if isinstance(f, (ast.Name, ast.Attribute)):
                try:
                    c = self.resolve(f)
                except Exception:  # noqa
                    return False
                if isinstance(c, type) and issubclass(c, self.family):
                    return args_ok
            return False
        return False

    def ev(self, e) -> str:
        return "SPure" if self.pure(e) else "SAny"

    # ------------------------------------------------------------------ statements
    def seq(self, parts):
        parts = [p for p in parts if p != "SPure"] or ["SPure"]
        out = parts[-1]
        for p in reversed(parts[:-1]):
            out = f"(SSeq {p} {out})"
        return out

    def block(self, stmts) -> str:
        return self.seq([self.stmt(s) for s in stmts])

    def stmt(self, s) -> str:
        if isinstance(s, ast.Expr):
            v = s.value
            if isinstance(v, ast.Yield):
                return self.seq([self.ev(v.value), "SYield"])
            if isinstance(v, ast.YieldFrom):
                return self.seq(["SAny", "SYield"])
            if isinstance(v, ast.Await):
                raise TranslateError("await")
            return self.ev(v)
        if isinstance(s, (ast.Pass, ast.Break, ast.Continue, ast.FunctionDef, ast.ClassDef, ast.Global, ast.Nonlocal)):
            return "SPure"
        if isinstance(s, (ast.Assign, ast.AnnAssign, ast.AugAssign)):
            v = s.value
            targets = s.targets if isinstance(s, ast.Assign) else [s.target]
            simple = all(isinstance(t, ast.Name) or (isinstance(t, ast.Tuple) and all(isinstance(x, ast.Name) for x in t.elts))
                         for t in targets)
            if isinstance(v, ast.Yield):
                return self.seq([self.ev(v.value), "SYield"])
            if isinstance(v, ast.YieldFrom):
                return self.seq(["SAny", "SYield"])
            if isinstance(s, ast.AugAssign) or not simple:
                return "SAny"
            if isinstance(s, ast.Assign) and any(isinstance(t, ast.Tuple) for t in targets) and not isinstance(v, ast.Tuple):
                return "SAny"  # unpacking may raise
            return self.ev(v)
        if isinstance(s, ast.Return):
            return self.seq([self.ev(s.value), "SReturn"])
        if isinstance(s, ast.Raise):
            if s.exc is None:
                return "SReraise"
            target = s.exc.func if isinstance(s.exc, ast.Call) else s.exc
            try:
                c = self.resolve(target)
                k = self.kind_of_class(c)
            except Exception:  # noqa
                return "SAny"  # raising an unknown object: any Exception subclass
            args_pure = (not isinstance(s.exc, ast.Call)) or (
                all(self.pure(a) for a in s.exc.args) and all(self.pure(kw.value) for kw in s.exc.keywords))
            if k != "Fam":
                args_pure = args_pure  # foreign constructors are not allow-listed, but they raise kind k anyway
            return self.seq(["SPure" if args_pure and self.pure(s.cause) else "SAny", f"(SRaise {k})"])
        if isinstance(s, ast.If):
            return self.seq([self.ev(s.test), f"(SChoice {self.block(s.body)} {self.block(s.orelse) if s.orelse else 'SPure'})"])
        if isinstance(s, (ast.For,)):
            return self.seq(["SAny", f"(SLoop {self.block(s.body)})", self.block(s.orelse) if s.orelse else "SPure"])
        if isinstance(s, ast.While):
            t = self.ev(s.test)
            return self.seq([t, f"(SLoop {self.seq([self.block(s.body), t])})", self.block(s.orelse) if s.orelse else "SPure"])
        if isinstance(s, ast.With):
            return self.seq(["SAny", self.block(s.body)])
        if isinstance(s, ast.Try):
            hs = "HNil"
            for h in reversed(s.handlers):
                f, o, b = self.catch_spec(h.type)
                hs = f"(HCons {{| c_fam := {f}; c_other := {o}; c_base := {b} |}} {self.block(h.body)} {hs})"
            return (f"(STry {self.block(s.body)} {hs} {self.block(s.orelse) if s.orelse else 'SPure'} "
                    f"{self.block(s.finalbody) if s.finalbody else 'SPure'})")
        if isinstance(s, (ast.Import, ast.ImportFrom, ast.Delete, ast.Assert)):
            return "SAny"
        if isinstance(s, ast.Match):
            alts = [self.block(c.body) for c in s.cases]
            out = "SPure"
            for a in reversed(alts):
                out = f"(SChoice {a} {out})"
            return self.seq(["SAny", out])
        raise TranslateError(f"unsupported statement {type(s).__name__} at line {getattr(s, 'lineno', '?')}")


def find_function(tree: ast.AST, qualname: str):
    parts = qualname.split(".")
    node = tree
    for p in parts:
        found = None
        for n in ast.iter_child_nodes(node):
            if isinstance(n, (ast.FunctionDef, ast.ClassDef, ast.AsyncFunctionDef)) and n.name == p:
                found = n
                break
        if found is None:
            raise TranslateError(f"{qualname}: {p} not found")
        node = found
    return node


def skeleton(module_name: str, qualname: str, family_base, body_selector=None) -> str:
    """Coq term for the body of module.qualname.  body_selector(func_node) -> list of statements
    (default: the whole body)."""
    module = importlib.import_module(module_name)
    src = inspect.getsource(module)
    tree = ast.parse(src)
    fn = find_function(tree, qualname)
    tr = Translator(module, fn, family_base)
    body = body_selector(fn) if body_selector else fn.body
    return tr.block(body)


def while_loops(module_name: str):
    """[(qualname, lineno, test source)] for every `while` in the module."""
    module = importlib.import_module(module_name)
    tree = ast.parse(inspect.getsource(module))
    out = []

    def walk(node, prefix):
        for n in ast.iter_child_nodes(node):
            if isinstance(n, (ast.FunctionDef, ast.ClassDef, ast.AsyncFunctionDef)):
                walk(n, prefix + [n.name])
            else:
                if isinstance(n, ast.While):
                    out.append((".".join(prefix), n.lineno, ast.unparse(n.test)))
                walk(n, prefix)
    walk(tree, [])
    return out
