"""C01 failing-input search: mutated inputs through every extractor (and the CLI) in forked workers with a
watchdog.  This is fuzzing: it supports the proofs (finds concrete inputs), it never replaces one."""
from __future__ import annotations

import contextlib
import io
import multiprocessing as mp
import os
import random
import tempfile
import time
import zipfile

import common

RES = common.REPO / "sharepoint2text" / "tests" / "resources"
ZIP_EXTS = {"docx", "docm", "xlsx", "xlsm", "pptx", "pptm", "odt", "ods", "odp", "odg", "odf", "epub"}


def fixtures(max_size=400_000):
    out = {}
    for p in sorted(RES.rglob("*")):
        if p.is_file():
            ext = p.name.rsplit(".", 1)[-1].lower() if "." in p.name else ""
            b = p.read_bytes()
            if b and len(b) <= max_size:
                out.setdefault(ext, []).append((p.name, b))
    return out


def mutate_bytes(rng: random.Random, b: bytes, other: bytes) -> tuple[str, bytes]:
    k = rng.choice(["truncate", "flip", "flip-many", "splice", "zero-run", "insert", "dup-chunk", "head-only", "tail-cut", "append"])
    n = len(b)
    if k == "truncate":
        return k, b[: rng.randint(0, max(0, n - 1))]
    if k == "head-only":
        return k, b[: rng.choice([0, 1, 2, 4, 8, 16, 64, 512])]
    if k == "append":      # trailing garbage / padded download
        return k, b + rng.choice([b"\x00", b"\n", b"\r\n", b"\x1a", rng.randbytes(rng.choice([1, 2, 511, 512, 513, 4096]))])
    if k == "tail-cut":
        return k, b[: max(0, n - rng.choice([1, 2, 4, 22, 64, 512]))]
    ba = bytearray(b)
    if k == "flip" and n:
        i = rng.randrange(n)
        ba[i] ^= 1 << rng.randrange(8)
    elif k == "flip-many" and n:
        for _ in range(rng.randint(2, 40)):
            ba[rng.randrange(n)] = rng.randrange(256)
    elif k == "splice" and n and other:
        i = rng.randrange(n)
        j = rng.randrange(len(other))
        ba = bytearray(b[:i] + other[j: j + rng.randint(1, 4096)] + b[i:][rng.randint(0, 64):])
    elif k == "zero-run" and n:
        i = rng.randrange(n)
        ln = rng.randint(1, min(4096, n - i))
        ba[i:i + ln] = bytes([rng.choice([0, 0xFF])]) * ln
    elif k == "insert":
        i = rng.randrange(n + 1)
        ba[i:i] = rng.randbytes(rng.randint(1, 64))
    elif k == "dup-chunk" and n:
        i = rng.randrange(n)
        ln = rng.randint(1, min(2048, n - i))
        ba[i:i] = ba[i:i + ln] * rng.randint(1, 3)
    return k, bytes(ba)


HOSTILE_XML = [
    b"", b"<", b"<a>", b"<?xml version='1.0'?><!DOCTYPE a [<!ENTITY x 'y'>]><a>&x;</a>", b"\xff\xfe\x00",
    b"<a xmlns='urn:x'>" + b"<b>" * 200 + b"</b>" * 200 + b"</a>", b"<a>" + b"\x00" * 10 + b"</a>",
    b"not xml at all", b"<a b='1' b='2'/>",
]


def mutate_zip(rng: random.Random, b: bytes) -> tuple[str, bytes] | None:
    try:
        zin = zipfile.ZipFile(io.BytesIO(b))
        names = zin.namelist()
    except Exception:  # noqa
        return None
    if not names:
        return None
    victim = rng.choice(names)
    mode = rng.choice(["member-hostile", "member-mutated", "member-dropped", "member-empty", "member-renamed",
                       "xml-attr-garbage", "xml-attr-garbage"])
    if mode == "xml-attr-garbage":
        xmls = [n for n in names if n.lower().endswith((".xml", ".rels", ".opf", ".xhtml"))]
        if xmls:
            victim = rng.choice(xmls)
    out = io.BytesIO()
    with zipfile.ZipFile(out, "w", zipfile.ZIP_DEFLATED) as zout:
        for nme in names:
            try:
                data = zin.read(nme)
            except Exception:  # noqa
                data = b""
            if nme == victim:
                if mode == "member-dropped":
                    continue
                if mode == "member-empty":
                    data = b""
                elif mode == "member-hostile":
                    data = rng.choice(HOSTILE_XML)
                elif mode == "member-mutated":
                    data = mutate_bytes(rng, data, data)[1]
                elif mode == "member-renamed":
                    nme = nme + ".bak"
                elif mode == "xml-attr-garbage":
                    # well-formed XML whose attribute values are outside their enumerations / types
                    import re as _re
                    vals = list(_re.finditer(rb'="([^"]{1,40})"', data))
                    if vals:
                        ba = bytearray(data)
                        for mm in rng.sample(vals, k=min(len(vals), rng.randint(1, 3)))[::-1]:
                            ba[mm.start(1):mm.end(1)] = rng.choice([b"sideways", b"plaid", b"-1", b"99999999999", b"", b"NaN"])
                        data = bytes(ba)
            zout.writestr(nme, data)
    return f"{mode}:{victim}", out.getvalue()


def build_cases(rng: random.Random, per_extractor: int):
    """[(registry_key, label, bytes)]"""
    from sharepoint2text.parsing import router
    fx = fixtures()
    allb = [b for v in fx.values() for _, b in v]
    cases = []
    keys = sorted(router._EXTRACTOR_REGISTRY)
    seen_fn = {}
    for k in keys:
        fn = router._EXTRACTOR_REGISTRY[k]
        if fn in seen_fn and k not in fx:
            continue
        seen_fn[fn] = k
        own = fx.get(k) or fx.get({"tgz": "gz", "json": "txt", "tbz2": "gz", "txz": "gz"}.get(k, k)) or []
        for name, b in own[:3]:
            cases.append((k, f"fixture:{name}", b))
        for i in range(per_extractor):
            r = rng.random()
            if own and r < 0.55:
                name, b = rng.choice(own)
                kind, m = mutate_bytes(rng, b, rng.choice(allb))
                cases.append((k, f"{kind}:{name}", m))
            elif own and r < 0.8 and k in ZIP_EXTS:
                name, b = rng.choice(own)
                z = mutate_zip(rng, b)
                if z:
                    cases.append((k, f"{z[0]}@{name}", z[1]))
            elif r < 0.93:
                ext2 = rng.choice(sorted(fx))
                name, b = rng.choice(fx[ext2])
                cases.append((k, f"cross:{name}", b))
            else:
                cases.append((k, "random-bytes", rng.randbytes(rng.choice([0, 1, 7, 64, 600, 5000]))))
    return cases


def _consume(f, data, key):
    n = 0
    for res in f(io.BytesIO(data), f"fuzz.{key}"):
        n += 1
        it = getattr(res, "iterate_supported_attachments", None)
        if it is not None:          # e-mail attachments are part of the failure surface
            for _ in it():
                n += 1
    return n


def _run_case(key, data, cli_mode):
    """Returns (outcome, detail).  outcome in ok|family|foreign|pollute|cli-ok|cli-bad.
    Library mode runs the extraction TWICE in the same process (state carried between calls is part of
    'any byte content handed to any extractor': the second call must behave like the first) with
    sys.stdout/sys.stderr captured (a library that prints breaks the CLI's stdout contract)."""
    from sharepoint2text.parsing import router
    from sharepoint2text.parsing.exceptions import ExtractionError
    if cli_mode is None:
        mod, fn = router._EXTRACTOR_REGISTRY[key]
        import importlib
        f = getattr(importlib.import_module(mod), fn)
        outs = []
        for rnd in (1, 2):
            so, se = io.StringIO(), io.StringIO()
            try:
                with contextlib.redirect_stdout(so), contextlib.redirect_stderr(se):
                    n = _consume(f, data, key)
                oc = ("ok", str(n))
            except ExtractionError as e:
                oc = ("family", type(e).__name__)
            except Exception as e:  # noqa
                return "foreign", f"{type(e).__module__}.{type(e).__name__}: {str(e)[:200]} (call #{rnd} on these bytes in this process)"
            if so.getvalue() or se.getvalue():
                return "pollute", (f"extraction wrote to sys.stdout ({so.getvalue()[:160]!r}) / sys.stderr "
                                   f"({se.getvalue()[:160]!r}) (call #{rnd})")
            outs.append(oc)
        return outs[0]
    if isinstance(cli_mode, tuple) and cli_mode and cli_mode[0] == "read_file":
        # the read_file entry point, with the file stored under the given name (no extension, unknown extension, ...)
        import sharepoint2text
        with tempfile.TemporaryDirectory(dir="/var/tmp") as td:
            p = os.path.join(td, cli_mode[1])
            with open(p, "wb") as fh:
                fh.write(data)
            so, se = io.StringIO(), io.StringIO()
            try:
                with contextlib.redirect_stdout(so), contextlib.redirect_stderr(se):
                    n = sum(1 for _ in sharepoint2text.read_file(p))
                return "ok", str(n)
            except ExtractionError as e:
                return "family", type(e).__name__
            except Exception as e:  # noqa
                return "foreign", f"{type(e).__module__}.{type(e).__name__}: {str(e)[:200]} (read_file on a file named {cli_mode[1]!r})"
    # CLI
    from sharepoint2text import cli
    import sharepoint2text
    import json as _json
    with tempfile.TemporaryDirectory(dir="/var/tmp") as td:
        p = os.path.join(td, f"fuzz.{key}")
        with open(p, "wb") as fh:
            fh.write(data)
        out, err = io.StringIO(), io.StringIO()
        try:
            with contextlib.redirect_stdout(out), contextlib.redirect_stderr(err):
                rc = cli.main([p] + cli_mode)
        except BaseException as e:  # noqa
            return "cli-bad", f"main raised {type(e).__name__}: {str(e)[:200]}"
        so, se = out.getvalue(), err.getvalue()
        if rc == 0 and so.endswith("\n") and se == "":
            # "prints the result": stdout is the result and nothing else
            if "--json" in cli_mode or "--json-unit" in cli_mode:
                try:
                    _json.loads(so)
                    ok = so.count("\n") == 1
                except Exception:  # noqa
                    ok = False
                if not ok:
                    return "cli-bad", f"rc=0 but stdout is not one JSON document on one line: stdout_head={so[:120]!r}"
            else:
                sink = io.StringIO()
                try:
                    with contextlib.redirect_stdout(sink), contextlib.redirect_stderr(sink):
                        want = "\n\n".join(r.get_full_text().rstrip() for r in sharepoint2text.read_file(p)).rstrip() + "\n"
                except Exception as e:  # noqa
                    return "cli-bad", f"rc=0 but a second read_file of the same file raised {type(e).__name__}"
                if so != want:
                    k = next((i for i, (a, b) in enumerate(zip(so, want)) if a != b), min(len(so), len(want)))
                    return "cli-bad", (f"rc=0 but stdout is not the full text of the results (differs at char {k}: "
                                       f"stdout {so[k:k + 80]!r} vs result {want[k:k + 80]!r}) stdout_len={len(so)}")
            return "cli-ok", "0"
    if rc == 1 and so == "" and se.endswith("\n") and se.count("\n") == 1:
        return "cli-ok", "1"
    return "cli-bad", f"rc={rc} stdout_len={len(so)} stdout_head={so[:80]!r} stderr={se[:300]!r}"


def _worker(cases, idxs, cur, q, wid):
    import logging
    logging.disable(logging.CRITICAL)
    import warnings
    warnings.simplefilter("ignore")
    for i in idxs:
        key, label, data, cli_mode = cases[i]
        cur[wid * 2] = i
        cur[wid * 2 + 1] = int(time.time())
        t0 = time.time()
        try:
            res = _run_case(key, data, cli_mode)
        except BaseException as e:  # noqa
            res = ("foreign", f"escaped BaseException {type(e).__name__}: {e}")
        q.put((i, res[0], res[1], time.time() - t0))
    cur[wid * 2] = -1
    q.put((-1, "done", str(wid), 0.0))


def run_cases(cases, nproc=14, case_timeout=25.0, total_timeout=900.0):
    """cases: [(key, label, bytes, cli_mode|None)] -> {i: (outcome, detail, secs)}; hangs get outcome 'timeout'."""
    ctx = mp.get_context("fork")
    results = {}
    pending = list(range(len(cases)))
    t_start = time.time()
    while pending and time.time() - t_start < total_timeout:
        nw = min(nproc, max(1, len(pending)))
        cur = ctx.Array("q", [-1] * (2 * nw), lock=False)
        q = ctx.Queue()
        chunks = [pending[w::nw] for w in range(nw)]
        procs = [ctx.Process(target=_worker, args=(cases, chunks[w], cur, q, w), daemon=True) for w in range(nw)]
        for p in procs:
            p.start()
        done_workers = 0
        killed = set()
        while done_workers + len(killed) < nw:
            try:
                i, oc, det, secs = q.get(timeout=1.0)
                if i == -1:
                    done_workers += 1
                else:
                    results[i] = (oc, det, secs)
            except Exception:  # noqa  (queue.Empty)
                pass
            now = time.time()
            for w in range(nw):
                if w in killed or cur[2 * w] < 0:
                    continue
                if now - cur[2 * w + 1] > case_timeout and cur[2 * w] not in results:
                    procs[w].kill()
                    killed.add(w)
                    results[cur[2 * w]] = ("timeout", f">{case_timeout}s", case_timeout)
            if now - t_start > total_timeout:
                break
            if all(not p.is_alive() for p in procs) and q.empty():
                break
        while not q.empty():
            try:
                i, oc, det, secs = q.get_nowait()
                if i != -1:
                    results[i] = (oc, det, secs)
            except Exception:  # noqa
                break
        for p in procs:
            if p.is_alive():
                p.kill()
            p.join(timeout=2)
        pending = [i for i in pending if i not in results]
        if not killed:
            break
        if sum(1 for r in results.values() if r[0] == "timeout") >= 3:
            break   # enough hangs to report; do not spend the budget on more
    return results
