#!/bin/bash
# usage: tools/verify_seed.sh <dir with patch.diff demo.py>  -> prints suite result and demo exits (with patch / pristine)
D=$(readlink -f "$1"); WT=/var/tmp/vseed-$$
git -C /repo worktree add -q "$WT" HEAD || exit 2
if git -C "$WT" apply "$D/patch.diff" 2>/dev/null || git -C "$WT" apply --3way "$D/patch.diff"; then
  S=$(cd "$WT" && /venv/bin/python -m pytest -q -p no:cacheprovider -q 2>&1 | tail -1)
  (cd "$D" && PYTHONPATH="$WT" timeout 300 /venv/bin/python demo.py >/dev/null 2>&1); A=$?
  git -C "$WT" checkout -q -- .
  (cd "$D" && PYTHONPATH="$WT" timeout 300 /venv/bin/python demo.py >/dev/null 2>&1); B=$?
  echo "suite: $S | demo with patch exit=$A | demo pristine exit=$B"
else echo "patch does not apply to HEAD"; fi
git -C /repo worktree remove --force "$WT"
