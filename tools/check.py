"""./check Cxx --tier quick|thorough [--replay F]   |   ./check --setup   |   ./check --all"""
from __future__ import annotations

import argparse
import importlib
import json
import os
import sys
import time
import traceback

sys.path.insert(0, os.path.dirname(os.path.abspath(__file__)))
import common  # noqa: E402


def setup() -> int:
    """Full build from clean of every committed .v file (Gen files as committed; each check
    regenerates its own from /repo before proving)."""
    common.sh("rm -f Makefile Makefile.conf .Makefile.d _CoqProject; find . -name '*.vo' -o -name '*.vos' -o "
              "-name '*.vok' -o -name '*.glob' -o -name '.*.aux' | xargs rm -f", cwd=common.COQ)
    common.ensure_makefile()
    rc, out = common.sh("timeout 3000 make -k -j16", cwd=common.COQ, timeout=3100)
    print(out[-3000:])
    gate = common.grep_gate()
    if gate:
        print("grep gate:", gate)
        return 1
    if rc != 0:
        # a file of a property that is not claimed (work in progress) must not block the others:
        # the build is acceptable iff every claimed property's Props/Inst dependencies compiled
        import json
        claimed = json.load(open(common.VERIF / "tools" / "claimed.json"))
        missing = []
        for pid in claimed:
            d = common.COQ / pid
            for v in sorted(d.glob("*.v")):
                if not v.with_suffix(".vo").exists():
                    missing.append(str(v.relative_to(common.COQ)))
        print("setup: make reported errors; missing .vo of claimed properties:", missing)
        return 1 if missing else 0
    return 0


def main() -> int:
    ap = argparse.ArgumentParser()
    ap.add_argument("pid", nargs="?")
    ap.add_argument("--tier", default=os.environ.get("VERIF_TIER", "quick"))
    ap.add_argument("--replay")
    ap.add_argument("--setup", action="store_true")
    ap.add_argument("--all", action="store_true")
    a = ap.parse_args()
    if a.setup:
        return setup()
    if a.all:
        rc = 0
        for i in range(1, 21):
            pid = f"C{i:02d}"
            if os.path.exists(common.VERIF / "tools" / "props" / f"{pid.lower()}.py"):
                r, _ = common.sh(f"{common.VERIF}/check {pid} --tier {a.tier}", timeout=7200)
                print(f"== {pid} exit {r}")
                print(_[-1500:])
                rc |= r
        return rc
    if not a.pid:
        ap.error("property id required")
    tier = a.tier if a.tier in ("quick", "thorough") else "quick"
    seed = int(os.environ.get("VERIF_SEED", "0") or 0)
    ctx = common.Ctx(a.pid, tier, seed)
    try:
        mod = importlib.import_module(f"props.{a.pid.lower()}")
    except ModuleNotFoundError:
        print(f"no check for {a.pid}")
        return 2
    # Wall-clock guard.  Most harnesses call the implementation in-process; a call that never returns (a third-party
    # loop reached by a generated input) must not leave the check hanging.  SIGALRM raises a BaseException in the main
    # thread (so that `except Exception` around implementation calls does not swallow it); the frames of /repo on the
    # stack at that moment name the call that did not return.
    import signal

    class CheckTimeLimit(BaseException):
        pass
    limit = int(os.environ.get("VERIF_TIME_LIMIT", "0") or 0) or (1500 if tier == "quick" else 6 * 3600)

    def on_alarm(signum, frame):
        raise CheckTimeLimit()
    try:
        signal.signal(signal.SIGALRM, on_alarm)
        signal.alarm(limit)
    except (ValueError, OSError):
        pass
    try:
        if a.replay:
            rp = json.load(open(a.replay))
            if hasattr(mod, "replay"):
                mod.replay(ctx, rp)
            else:
                mod.run(ctx)
        else:
            mod.run(ctx)
    except CheckTimeLimit:
        tb = traceback.format_exc()
        repo_frames = [ln.strip() for ln in tb.splitlines() if str(common.REPO) in ln or "site-packages" in ln]
        print(tb[-3000:])
        ctx.finding("check-time-limit", f"the check did not finish within {limit} s; the implementation call on the stack when it "
                    f"was stopped: {' <- '.join(repo_frames[-4:])[:600]}", {"traceback": tb[-6000:], "limit_s": limit},
                    found_input=False)
    except Exception:
        tb = traceback.format_exc()
        print(tb)
        ctx.obligation("check-harness-completed", False, tb[-1500:])
    finally:
        try:
            signal.alarm(0)
        except (ValueError, OSError):
            pass
    return ctx.finish()


if __name__ == "__main__":
    sys.exit(main())
