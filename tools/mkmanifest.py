"""Regenerate /verif/MANIFEST.json from the META dict of every tools/props/cXX.py."""
import importlib, json, os, sys
sys.path.insert(0, "/verif/tools")
NOT_APPLICABLE = {}
try:
    NOT_APPLICABLE = json.load(open("/verif/tools/not_applicable.json"))
except FileNotFoundError:
    pass
props = [json.loads(l) for l in open("/verif/properties.jsonl")]
CLAIMED = json.load(open("/verif/tools/claimed.json"))  # properties whose check is finished and reviewed
checks, na = [], []
for p in props:
    pid = p["id"]
    path = f"/verif/tools/props/{pid.lower()}.py"
    if os.path.exists(path) and pid in CLAIMED and pid not in NOT_APPLICABLE:
        m = importlib.import_module(f"props.{pid.lower()}").META
        checks.append({
            "property_id": pid,
            "quick_cmd": f"./check {pid} --tier quick",
            "thorough_cmd": f"./check {pid} --tier thorough",
            "evidence_file": f"/verif/evidence/{pid}.json",
            "replay_cmd_template": f"./check {pid} --replay {{path}}",
            "engine": "coq-model+correspondence",
            "level_claimed": {"category": m.get("category", "proof"), "text": m["level_text"], "design_ref": m["design_ref"]},
            "level_note": m["level_note"],
            "technique": m["technique"],
        })
    else:
        na.append({"property_id": pid, "reason": NOT_APPLICABLE.get(
            pid, "check not built yet in this session (planned, see DESIGN.md §5/§8); not claimed until its machinery exists")})
man = {
    "version": 1,
    "setup_cmd": "./check --setup",
    "hooks": {
        "guard": "SHAREPOINT2TEXT_VERIF",
        "enable": "SHAREPOINT2TEXT_VERIF=1 is exported by ./check; no source hook exists (all monitors attach from outside the repository)",
        "baseline_off_cmd": "cd /repo && /venv/bin/python -m pytest -ra -q -p no:cacheprovider --timeout=900 --continue-on-collection-errors",
        "source_commits": [],
        "add_only": True,
    },
    "engines": [{
        "name": "coq-model+correspondence",
        "path": "/verif/coq",
        "serves_properties": [c["property_id"] for c in checks],
        "kind_free_text": "Coq 8.16.1 development (executable Gallina models, theorems, Print Assumptions) + Python harness "
                          "that regenerates Gen/*.v from /repo and runs model (vm_compute) and implementation on the same inputs",
    }],
    "checks": checks,
    "notes": "All checks: ./check Cxx --tier quick|thorough. Findings policy and trusted base: DESIGN.md §4, §7; known_findings.json.",
    "not_applicable": na,
}
json.dump(man, open("/verif/MANIFEST.json", "w"), indent=1)
print("checks:", [c["property_id"] for c in checks], "na:", [n["property_id"] for n in na])
