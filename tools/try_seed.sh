#!/bin/bash
# usage: tools/try_seed.sh <patch.diff> <Cxx> [tier]   -- run a check against a scratch worktree with the patch applied
set -u
P=$(readlink -f "$1"); ID=$2; TIER=${3:-quick}
WT=/var/tmp/seedwt-$ID-$$
git -C /repo worktree add -q "$WT" HEAD || exit 2
git -C "$WT" apply "$P" 2>/dev/null || git -C "$WT" apply --3way "$P" || { echo "patch does not apply"; git -C /repo worktree remove --force "$WT"; exit 2; }
BK=/var/tmp/seedbk-$ID-$$; mkdir -p $BK/Gen
cp /verif/evidence/$ID.json $BK/ 2>/dev/null; cp /verif/coq/Gen/${ID}*.v $BK/Gen/ 2>/dev/null
S2T_REPO="$WT" /verif/check "$ID" --tier "$TIER" > /var/tmp/seed-$ID-$$.log 2>&1
RC=$?
# the evidence file and the generated Coq files must describe /repo, not the seeded tree: restore them
cp $BK/$ID.json /verif/evidence/ 2>/dev/null; cp $BK/Gen/*.v /verif/coq/Gen/ 2>/dev/null; rm -rf $BK
grep -c "^VIOLATION" /var/tmp/seed-$ID-$$.log | sed "s/^/violations: /"
grep "^VIOLATION\|what:" /var/tmp/seed-$ID-$$.log | head -6 | cut -c1-220
tail -1 /var/tmp/seed-$ID-$$.log
echo "exit=$RC"
rm -f /var/tmp/seed-$ID-$$.log
git -C /repo worktree remove --force "$WT"
