"""C01: observe the BLIP record walk of xls_extractor._extract_images_from_workbook on a generated Workbook stream.
walk(data) -> (stream bytes as the extractor reads them, [image-data slices handed to detect_image_type])."""
import io


def walk(data: bytes):
    from props import c08_writers as W
    from sharepoint2text.parsing.extractors.ms_legacy import xls_extractor as xe
    import olefile
    ole_bytes = W.cfb([("Workbook", data)])
    with olefile.OleFileIO(io.BytesIO(ole_bytes)) as ole:
        stream = ole.openstream("Workbook").read()
    seen = []
    orig = xe.detect_image_type

    def spy(image_data, *a, **k):
        seen.append(bytes(image_data))
        return orig(image_data, *a, **k)
    xe.detect_image_type = spy
    try:
        xe._extract_images_from_workbook(io.BytesIO(ole_bytes))
    finally:
        xe.detect_image_type = orig
    return stream, seen
