"""Regenerate DESIGN.md §13 (seeded changes table) from seeded/*/meta.json."""
import glob, json, os, re
rows = []
for d in sorted(glob.glob('/verif/seeded/*/')):
    k = os.path.basename(d.rstrip('/'))
    m = json.load(open(d + 'meta.json'))
    s = m.get('summary', '')
    if isinstance(s, list):
        s = ' '.join(map(str, s))
    s = re.sub(r'\s+', ' ', str(s))[:230]
    r = re.sub(r'\s+', ' ', m.get('check_result', '(not run yet)'))
    rows.append((k, s, r))
n = len(rows)
ismissed = lambda r: 'MISSED' in r or 'missed on the first run' in r
missed = sum(ismissed(r) for _, _, r in rows)
noin = sum(('first run:' in r) and not ismissed(r) for _, _, r in rows)
still = sum(('no-failing-input-found' in r or 'obligation only' in r) and 'Now' not in r and 'now' not in r for _, _, r in rows)
other = sum('not caught by ./check' in r for _, _, r in rows)
head = '''## 13. Seeded changes: which check catches which change

Each change was written by a fresh sub-agent that saw only the property text and its own scratch worktree of
`/repo` (nothing from `/verif`), and was asked for a realistic edit that breaks the property, still imports and
passes the unedited test suite, and needs something specific to manifest.  A second round asked for changes
different in kind from the first (other functions, cooperating edits, shared helpers, boundary values); its
directories are named `<id>-r2mN`.  A fifth round (`<id>-r5mN`, §12g) asked for cross-module, type-level, threshold, cache-key and sort-key slips.  A fourth round (`<id>-r4mN`, §12e) asked for environment-dependent effects, follow-ups that\nweaken a repair, glue between components and second occurrences.  A third round (`<id>-r3mN`) asked for changes that need state carried between calls,
exotic-but-valid encodings, boundary values or shared helpers (what it led to is summarised in §12c; six of its
patches were rebased by hand after fix commits touched the same lines, the originals are kept beside them).  Every change was re-verified by the coordinator (`tools/verify_seed.sh`: suite
result unchanged — 236 passed / 3 pre-existing failures — demo fails with the patch and passes without) and kept
under `seeded/` (`patch.diff`, `demo.py`, `meta.json`).  The check of the property was then run against a scratch
worktree with the patch applied (`tools/try_seed.sh seeded/<dir>/patch.diff <id>`; none of these changes was ever
committed to `/repo`).  Where a check missed a change, or caught it only through a broken obligation without a
failing input, the check was strengthened (what was added is stated in the row) and the run repeated.  "first run"
always refers to the state of the check before it was strengthened for that change.

| seeded change | what it does | result of `./check` |
|---|---|---|
'''
body = ''.join(f"| `{k}` | {s.replace('|', '/')} | {r.replace('|', '/')} |\n" for k, s, r in rows)
tail = f'''
Summary: {n} seeded changes over the 20 properties.  {n - missed - noin - still - other} were caught with a concrete failing input on
the first run; {noin} were caught on the first run only through a broken obligation/correspondence
(`no-failing-input-found`) and now have a concrete input; {still} are still caught by an obligation only; {missed} were
missed on the first run and are caught after the strengthening described in their rows; {other} break a property
through code that another property's check owns and are caught by that check.  The recurring reason for a miss was
never the theorem (the theorems quantify over all inputs) but the *tie*: a generator that did not reach the region
where the changed code differs from the model (message lengths above 64 blocks, two attachments sharing a MIME
type, several chapters, duplicate member names, hostile property values, page-break variants, link members in tar
files, CRC-consistent hostile 7z headers), or an observation that was too coarse (round trips compared through
`to_json()` only; same-process repetition on fixtures only; residue checked only after successful extractions).
Each such region is now part of the corresponding generator, scripted first so that it does not depend on the seed.
'''
t = open('/verif/DESIGN.md').read()
a = t.index('## 13. Seeded changes')
b = t.index('## 14. Trusted base as built')
sep = '\n--------------------------------------------------------------------------------------------\n\n'
t = t[:a] + head + body + tail + sep + t[b:]
open('/verif/DESIGN.md', 'w').write(t)
print(n, missed, noin, still, other)
