"""Minimal independent 7z writer (copy coder only) for harness inputs: one folder per file or solid.
Written from the 7z format description (7zFormat.txt), not from the reader under test."""
from __future__ import annotations

import struct
import zlib


def num(n: int) -> bytes:
    """7z variable-length number."""
    if n < 0x80:
        return bytes([n])
    for extra in range(1, 9):
        if n < (1 << (7 * (8 - extra) + 8 * extra - (8 - extra) * 0)) and n < (1 << (8 * extra + (7 - extra))):
            mask = (0xFF << (8 - extra)) & 0xFF
            high = n >> (8 * extra)
            return bytes([mask | high]) + (n & ((1 << (8 * extra)) - 1)).to_bytes(extra, "little")
    return b"\xff" + n.to_bytes(8, "little")


def bitvec(bits) -> bytes:
    out = bytearray((len(bits) + 7) // 8)
    for i, b in enumerate(bits):
        if b:
            out[i // 8] |= 0x80 >> (i % 8)
    return bytes(out)


def write_7z(files, solid=False, declared_sizes=None, declared_files=None, names_blob=None, trailing=b"") -> bytes:
    """files: [(name, bytes | None)]  (None = directory).  declared_sizes: optional {index: size} to lie about
    an unpack size (not used by default)."""
    streams = [(i, d) for i, (n, d) in enumerate(files) if d]
    if solid and streams:
        folders = [[d for _, d in streams]]
    else:
        folders = [[d] for _, d in streams]
    packed = b"".join(b"".join(f) for f in folders)
    h = bytearray()
    h += b"\x01"
    if folders:
        h += b"\x04"
        h += b"\x06" + num(0) + num(len(folders)) + b"\x09" + b"".join(num(sum(len(d) for d in f)) for f in folders) + b"\x00"
        h += b"\x07" + b"\x0b" + num(len(folders)) + b"\x00"
        for f in folders:
            h += num(1) + b"\x01" + b"\x00"          # one coder, id size 1, id 0x00 = copy
        h += b"\x0c" + b"".join(num(sum(len(d) for d in f)) for f in folders) + b"\x00"
        h += b"\x08"
        h += b"\x0d" + b"".join(num(len(f)) for f in folders)
        sizes = b"".join(b"".join(num(len(d)) for d in f[:-1]) for f in folders)
        if sizes:
            h += b"\x09" + sizes
        h += b"\x0a" + b"\x01" + b"".join(struct.pack("<I", zlib.crc32(d)) for f in folders for d in f) + b"\x00"
        h += b"\x00"
    h += b"\x05" + num(len(files) if declared_files is None else declared_files)
    empty = [not d for _, d in files]
    if any(empty):
        bv = bitvec(empty)
        h += b"\x0e" + num(len(bv)) + bv
        ef = bitvec([d is not None for (_, d), e in zip(files, empty) if e])  # empty FILE (not dir)
        h += b"\x0f" + num(len(ef)) + ef
    names = b"".join(n.encode("utf-16-le") + b"\x00\x00" for n, _ in files) if names_blob is None else names_blob
    h += b"\x11" + num(len(names) + 1) + b"\x00" + names
    h += b"\x00\x00"
    start = struct.pack("<QQI", len(packed), len(h), zlib.crc32(bytes(h)))
    sig = b"7z\xbc\xaf\x27\x1c" + b"\x00\x04" + struct.pack("<I", zlib.crc32(start)) + start
    return sig + packed + bytes(h) + trailing   # CRCs are always consistent with the (possibly hostile) header
