"""C02 / PPTX — paragraph text of shapes and table cells: pptx_extractor._extract_text_from_paragraphs.

Coq (C02/PptxText.v, PropsPptxText.v): `a_text` = the walker over abstract XML trees; abstract text bodies
(runs, fields, a:br, empty runs, bare a:t) rendered by Coq; theorems: words = segments (a:br and paragraph
ends are boundaries, runs/fields concatenate), non-whitespace characters = the visible leaves in order.
X: the function body has the modelled shape (fail closed); tag constants = qname of the constructors.
D: (1) rendered text bodies, (2) arbitrary trees over the DrawingML text tags (nested a:p, a:t with
   children, a:r with two a:t, foreign tags, empty texts): model == real function, compared by Coq;
   the property oracle (words == segments printed by Coq) on the real function's output.
"""
from __future__ import annotations

import ast
import inspect
import textwrap
from xml.etree import ElementTree as ET

from common import coq_list, coq_str, coq_eval_shards

PRE = "From S2T Require Import Lib.PyStr C02.Lib C02.Xml C02.PptxText.\n"
PROPS_EXPECTED = ["C02_pptx_paragraphs_separated", "C02_pptx_paragraphs_fidelity", "C02_pptx_line_break_needed"]
EXPECTED_BODY = textwrap.dedent("""\
    paragraphs: list[str] = []
    for p in elem.iter(A_P):
        texts: list[str] = []
        for child in p:
            tag = child.tag
            if tag == A_R or tag == A_FLD:
                t = child.find(A_T)
                if t is not None and t.text:
                    texts.append(t.text)
            elif tag == A_BR:
                texts.append('\\x0b')
            elif tag == A_T:
                if child.text:
                    texts.append(child.text)
        paragraphs.append(''.join(texts))
    return '\\n'.join(paragraphs)""")
TAGS = ["A_p"] * 4 + ["A_r"] * 6 + ["A_t"] * 6 + ["A_br", "A_br", "A_fld", "A_fld", "A_pPr", "A_rPr", "A_endParaRPr", "A_bodyPr",
                                                  "P_txBody", "(X_other 3)", "A_graphic"]
TEXTS = ["", "", "a", "b c", " ", "\t", "x\ny", "中", "été", "\u2028", "1<2&3"]


def body_source(fn) -> str:
    tree = ast.parse(textwrap.dedent(inspect.getsource(fn))).body[0]
    body = tree.body
    if body and isinstance(body[0], ast.Expr) and isinstance(getattr(body[0], "value", None), ast.Constant) \
            and isinstance(body[0].value.value, str):
        body = body[1:]
    return "\n".join(ast.unparse(st) for st in body)


def gen_inl(rng, ids):
    r = rng.random()
    ids[0] += 1
    leaf = "[" + ";".join(str(0x4E00 + (ids[0] * 7 + k) % 900) for k in range(rng.choice([1, 2, 3]))) + "]"
    if r < 0.5:
        return f"ARun {leaf}"
    if r < 0.62:
        return f"AField {leaf}"
    if r < 0.8:
        return "ABreak"
    if r < 0.9:
        return "AEmptyRun"
    return f"ABareText {leaf}"


def gen_tree(rng, depth, tag=None, root=False):
    tag = tag or rng.choice(TAGS)
    text = rng.choice(TEXTS) if (tag == "A_t" or rng.random() < 0.1) else ""
    tail = rng.choice(TEXTS) if (rng.random() < 0.08 and not root) else ""
    kids = []
    if depth > 0:
        for _ in range(rng.choice([0, 1, 2, 2, 3, 4]) if tag != "A_t" else rng.choice([0, 0, 0, 1])):
            sub = None
            if tag == "A_p" and rng.random() < 0.6:
                sub = rng.choice(["A_r", "A_r", "A_br", "A_fld", "A_t"])
            elif tag in ("A_r", "A_fld") and rng.random() < 0.7:
                sub = rng.choice(["A_t", "A_t", "A_rPr"])
            kids.append(gen_tree(rng, depth - 1, sub))
    return f"(Elem {tag} [] {coq_str(text) if text else '[]'} {coq_list(kids)} {coq_str(tail) if tail else '[]'})"


def run_part(ctx):
    from props.c02 import coq_results, parse_strings, parse_nums, nstr, with_decls
    from sharepoint2text.parsing.extractors.ms_modern import pptx_extractor as PX
    ctx.prove("C02/PropsPptxText.v", ["C02/PptxText.vo"], expected=PROPS_EXPECTED)
    try:
        src = body_source(PX._extract_text_from_paragraphs)
    except Exception as e:  # noqa
        src = f"<unavailable: {e}>"
    ctx.obligation("pptx-shape:_extract_text_from_paragraphs has the modelled body (a:r/a:fld -> find(a:t).text, a:br -> '\\x0b', "
                   "a:t -> text; ''.join per paragraph, '\\n'.join)", src == EXPECTED_BODY, "source now:\n" + src)
    rng = ctx.rng
    ids = [0]
    bodies = [coq_list([coq_list(["(" + gen_inl(rng, ids) + ")" for _ in range(rng.randint(0, 5))]) for _ in range(rng.randint(1, 4))])
              for _ in range(ctx.n(150, 2000))]
    trees = [gen_tree(rng, rng.choice([2, 3, 4]), rng.choice(["P_txBody", "A_p", None]), root=True) for _ in range(ctx.n(200, 3000))]
    body = (PRE + "Definition bodies : list (list (list ainl)) := [\n" + ";\n".join(bodies) + "\n].\n"
            "Definition trees : list xml := [\n" + ";\n".join(trees) + "\n].\n"
            "Eval vm_compute in (map (fun b => to_string (ser (r_txbody b))) bodies).\n"
            "Eval vm_compute in (map txbody_segments bodies).\n"
            "Eval vm_compute in (map (fun t => to_string (ser t)) trees).\n"
            "Eval vm_compute in (to_string xmlns_decls).\n"
            "Eval vm_compute in [to_string (qname A_p); to_string (qname A_r); to_string (qname A_t); to_string (qname A_br); to_string (qname A_fld)].\n")
    ok, out = ctx.coq_eval("pptxtext_render", body, timeout=900)
    r = coq_results(out) if ok else []
    name = "correspondence:pptx a_text model == _extract_text_from_paragraphs (rendered text bodies and arbitrary trees)"
    if len(r) != 5:
        ctx.obligation(name, False, "render pass failed: " + out[-800:])
        return
    bx, segs, tx, decls, qn = parse_strings(r[0]), parse_nums(r[1]), parse_strings(r[2]), parse_strings(r[3])[0], parse_strings(r[4])
    ctx.obligation("pptx-shape:A_P/A_R/A_T/A_BR/A_FLD are the qualified names of the model's constructors",
                   qn == [PX.A_P, PX.A_R, PX.A_T, PX.A_BR, PX.A_FLD], f"{qn}")
    if len(bx) != len(bodies) or len(tx) != len(trees) or len(segs) != len(bodies):
        ctx.obligation(name, False, "render pass: wrong number of results")
        return
    bcases, tcases, info = [], [], []
    for term, x, sg in zip(bodies, bx, segs):
        got = PX._extract_text_from_paragraphs(ET.fromstring(with_decls(x, decls)))
        bcases.append(f"({term}, {coq_str(got) if got else '[]'})")
        want = [nstr(w) for w in sg]
        ctx.case(("pptx-text", term), len(want) >= 3, "pptx-text:rendered-body")
        if got.split() != want:
            ctx.finding("pptx:paragraph-text", "PPTX _extract_text_from_paragraphs: words of a text body are lost, merged or reordered "
                        f"(expected {len(want)} words, got {len(got.split())})", {"format": "pptx", "txbody_xml": x, "expected_words": want, "got": got})
    for term, x in zip(trees, tx):
        got = PX._extract_text_from_paragraphs(ET.fromstring(with_decls(x, decls)))
        tcases.append(f"({term}, {coq_str(got) if got else '[]'})")
        info.append((x, got))
        ctx.case(("pptx-text-tree", x), bool(got.strip()), "pptx-text:arbitrary-tree")
    ok1, f1, l1 = coq_eval_shards(ctx, "pptxtext_b", PRE, "corr_txbody", bcases, shard=400, ty="list (list ainl) * str")
    ok2, f2, l2 = coq_eval_shards(ctx, "pptxtext_t", PRE, "corr_atree", tcases, shard=400, ty="xml * str")
    ctx.traces += len(bcases) + len(tcases)
    ctx.disagreements += len(f1) + len(f2)
    ctx.obligation(name, ok1 and ok2 and not f1 and not f2,
                   (f"{len(f1)} body / {len(f2)} tree disagreements; " + (f"first tree: {info[f2[0]][0][:500]} impl={info[f2[0]][1]!r} " if f2 else "")
                    + (f"first body: {bodies[f1[0]][:300]} " if f1 else "")) + (l1 + l2)[:500])
